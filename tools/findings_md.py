#!/usr/bin/env python3
# prints the findings tables of DESIGN.md section 8 from known_findings.json
import json, os, subprocess
ROOT = os.path.dirname(os.path.dirname(os.path.abspath(__file__)))
kf = json.load(open(os.path.join(ROOT, "known_findings.json")))["findings"]
def cell(s): return s.replace("|", "\\|").replace("\n", " ")
fixed = [f for f in kf if f["status"] == "fixed"]
known = [f for f in kf if f["status"] == "known"]
print("#### Repaired in /repo (%d entries, each with a replayed witness under findings/)\n" % len(fixed))
print("| finding | fix commit | what failed |")
print("|---|---|---|")
for f in sorted(fixed, key=lambda f: f["id"]):
    print("| %s | %s | %s |" % (f["id"], f.get("fix_commit", ""), cell(f["title"])))
print("\n#### Known findings (%d entries: genuine defects that are not repaired, with the reason)\n" % len(known))
print("| finding | generator guard | what fails | why not repaired |")
print("|---|---|---|---|")
for f in sorted(known, key=lambda f: f["id"]):
    print("| %s | %s | %s | %s |" % (f["id"], cell(str(f.get("generator_guard") or "")), cell(f["title"]), cell(f.get("note", ""))))
