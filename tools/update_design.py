#!/usr/bin/env python3
# splices tools/design_sec8.md (with the generated findings tables) into DESIGN.md as section 8
import os, subprocess
ROOT = os.path.dirname(os.path.dirname(os.path.abspath(__file__)))
p = os.path.join(ROOT, "DESIGN.md")
s = open(p).read()
sec = open(os.path.join(ROOT, "tools", "design_sec8.md")).read()
tbl = subprocess.run(["python3", os.path.join(ROOT, "tools", "findings_md.py")], capture_output=True, text=True, check=True).stdout
sec = sec.replace("@@FINDINGS@@\n", tbl)
a, b = s.index("## 8. Build round"), s.index("## Summary table")
open(p, "w").write(s[:a] + sec + s[b:])
print("DESIGN.md section 8 updated")
