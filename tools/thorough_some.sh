#!/bin/sh
# usage: sh tools/thorough_some.sh C09 C01 ...
for p in "$@"; do
  echo "=== $p thorough"
  ./check $p --tier thorough 2>&1 | grep -a "thorough:\|VIOLATION\|INCONCLUSIVE\|^--- shard" | cut -c1-600
done
