#!/usr/bin/env python3
# usage: python3-vt tools/validate.py   (validates MANIFEST.json and all evidence files)
import json, glob, sys, jsonschema
ok = True
def v(path, schema):
    global ok
    try:
        jsonschema.validate(json.load(open(path)), json.load(open(schema)))
        print("ok  ", path)
    except Exception as e:
        ok = False
        print("FAIL", path, str(e)[:300])
v('/verif/MANIFEST.json', '/root/.vp/MANIFEST.schema.json')
for f in sorted(glob.glob('/verif/evidence/*.json')):
    v(f, '/root/.vp/EVIDENCE.schema.json')
sys.exit(0 if ok else 1)
