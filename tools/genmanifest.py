#!/usr/bin/env python3
"""Regenerates /verif/MANIFEST.json from the table below (single source of truth
for which properties are claimed). Run: python3 tools/genmanifest.py"""
import json, os, sys

ROOT = os.path.dirname(os.path.dirname(os.path.abspath(__file__)))

GOENV = "GOFLAGS=-mod=mod GOPROXY=off GOSUMDB=off GOTOOLCHAIN=local"

# id -> dict(engine, technique, category, text, note, design_ref)
CLAIMED = {}

def claim(pid, engine, technique, text, note, category="exploration"):
    CLAIMED[pid] = dict(engine=engine, technique=technique, text=text, note=note, category=category,
                        design_ref="DESIGN.md section 4." + pid)

exec(open(os.path.join(ROOT, "tools", "claims.py")).read())

props = [json.loads(l) for l in open(os.path.join(ROOT, "properties.jsonl")) if l.strip()]
ids = [p["id"] for p in props]

KF = json.load(open(os.path.join(ROOT, "known_findings.json")))["findings"]

def findings_note(pid):
    known = sorted(f["id"] for f in KF if f["property"] == pid and f["status"] == "known")
    fixed = sum(1 for f in KF if f["property"] == pid and f["status"] == "fixed")
    s = " Findings recorded for this property in known_findings.json: %d repaired in /repo (witnesses replayed on every run)" % fixed
    if known:
        s += "; known and not repaired (KNOWN-FINDING lines, exit 0): " + ", ".join(known)
    return s + ". Section and design_ref: see also DESIGN.md section 8."

checks = []
for pid in ids:
    if pid not in CLAIMED:
        continue
    c = dict(CLAIMED[pid])
    c["note"] = c["note"] + findings_note(pid)
    checks.append({
        "property_id": pid,
        "quick_cmd": "./check %s --tier quick" % pid,
        "thorough_cmd": "./check %s --tier thorough" % pid,
        "evidence_file": "/verif/evidence/%s.json" % pid,
        "replay_cmd_template": "./check %s --replay {path}" % pid,
        "engine": c["engine"],
        "level_claimed": {"category": c["category"], "text": c["text"], "design_ref": c["design_ref"]},
        "level_note": c["note"],
        "technique": c["technique"],
    })

NOT_BUILT = json.load(open(os.path.join(ROOT, "tools", "not_applicable.json")))
na = []
for pid in ids:
    if pid in CLAIMED:
        continue
    na.append({"property_id": pid, "reason": NOT_BUILT.get(pid, "check not built yet in this session; design in DESIGN.md section 4." + pid)})

engines = {}
for pid, c in CLAIMED.items():
    engines.setdefault(c["engine"], []).append(pid)

manifest = {
    "version": 1,
    "setup_cmd": "cd /verif/harness && %s go build -o ../bin/vp ./cmd/vp && %s go build -o ../bin/ptkill ./cmd/ptkill" % (GOENV, GOENV),
    "hooks": {
        "guard": "verif",
        "enable": "go build/test -tags verif (no hook is currently needed: all observation is through the public API, the built binary and ptrace)",
        "baseline_off_cmd": "cd /repo && GOPROXY=off GOSUMDB=off GOTOOLCHAIN=local go test -json -vet=off -count=1 -timeout 25m ./...",
        "source_commits": [],
        "add_only": True,
    },
    "engines": [{"name": k, "path": "/verif/harness", "serves_properties": sorted(v),
                 "kind_free_text": "property-based testing / fuzzing (pgregory.net/rapid, enumeration, go test -fuzz) with independent oracles"} for k, v in sorted(engines.items())],
    "checks": checks,
    "notes": "All checks are generated-input search against an explicit oracle (see DESIGN.md). Exit 0 held / 1 VIOLATION / 2 inconclusive. known_findings.json lists genuine defects (known) and repaired ones (fixed).",
    "not_applicable": na,
}
json.dump(manifest, open(os.path.join(ROOT, "MANIFEST.json"), "w"), indent=1)
print("claimed:", ",".join(sorted(CLAIMED)), "| not claimed:", ",".join(x["property_id"] for x in na))
