#!/bin/sh
# all thorough tiers, one after the other (each bounded by its own time budget)
for p in C09 C01 C02 C03 C04 C05 C06 C07 C08 C10 C11 C12 C13 C14 C15 C16 C17 C18 C19 C20; do
  echo "=== $p thorough"
  ./check $p --tier thorough 2>&1 | grep -a "thorough:\|VIOLATION\|INCONCLUSIVE\|^--- shard" | cut -c1-600
done
