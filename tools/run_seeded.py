#!/usr/bin/env python3
"""Applies every seeded change under /verif/seeded/<id>/ to /repo, runs the check of its
property (quick; thorough too when quick misses and --thorough is given), reverts, and
writes seeded/<id>/result.json and seeded/RESULTS.md (the catch matrix).

usage: tools/run_seeded.py [--thorough] [--only ID ...] [--also C09,C16]
"""
import json, os, subprocess, sys, time

ROOT = os.path.dirname(os.path.dirname(os.path.abspath(__file__)))
REPO = os.environ.get("VERIF_REPO", "/repo")
SEEDED = os.path.join(ROOT, "seeded")


def sh(cmd, cwd=None, timeout=3600):
    p = subprocess.run(cmd, cwd=cwd, shell=isinstance(cmd, str), capture_output=True, text=True, errors="replace", timeout=timeout)
    return p.returncode, p.stdout + p.stderr


def clean_repo():
    rc, out = sh(["git", "-C", REPO, "status", "--porcelain", "--untracked-files=no"])
    # the two emptied benchmark files of the task setup are always listed
    dirty = [l for l in out.splitlines() if l.strip() and "_benchmarks/sample_" not in l]
    return not dirty, out


def run_check(prop, tier):
    t0 = time.time()
    rc, out = sh([os.path.join(ROOT, "check"), prop, "--tier", tier], cwd=ROOT, timeout=4 * 3600)
    vio = [l for l in out.splitlines() if l.startswith("VIOLATION ")]
    summary = [l for l in out.splitlines() if l.startswith(prop + " " + tier)]
    return {"exit": rc, "violations": len(vio), "summary": summary[-1] if summary else "", "seconds": round(time.time() - t0, 1)}


def main():
    args = sys.argv[1:]
    thorough = "--thorough" in args
    only = []
    also = []
    if "--only" in args:
        only = [a for a in args[args.index("--only") + 1:] if not a.startswith("--")]
    if "--also" in args:
        also = args[args.index("--also") + 1].split(",")
    ids = sorted(d for d in os.listdir(SEEDED) if os.path.isfile(os.path.join(SEEDED, d, "patch.diff")))
    if only:
        ids = [i for i in ids if i in only]
    ok, out = clean_repo()
    if not ok:
        print("refusing to run: /repo has local changes\n" + out)
        sys.exit(2)
    for sid in ids:
        d = os.path.join(SEEDED, sid)
        meta = json.load(open(os.path.join(d, "meta.json")))
        prop = meta["property"]
        rc, out = sh(["git", "-C", REPO, "apply", os.path.join(d, "patch.diff")])
        if rc != 0:
            res = {"id": sid, "property": prop, "applies": False, "error": out[-500:]}
            json.dump(res, open(os.path.join(d, "result.json"), "w"), indent=1)
            print(sid, "DOES NOT APPLY")
            continue
        try:
            res = {"id": sid, "property": prop, "applies": True, "repo_head": sh(["git", "-C", REPO, "rev-parse", "--short", "HEAD"])[1].strip(), "checks": {}}
            q = run_check(prop, "quick")
            res["checks"][prop + ":quick"] = q
            caught = q["exit"] == 1 and q["violations"] > 0
            if not caught and thorough:
                t = run_check(prop, "thorough")
                res["checks"][prop + ":thorough"] = t
                caught = t["exit"] == 1 and t["violations"] > 0
            for other in also + meta.get("also_check", []):
                if other != prop:
                    o = run_check(other, "quick")
                    res["checks"][other + ":quick"] = o
            res["caught_by_own_property"] = caught
            res["caught_by"] = [k for k, v in res["checks"].items() if v["exit"] == 1 and v["violations"] > 0]
        finally:
            sh(["git", "-C", REPO, "checkout", "--", "."])
            # replay files of the seeded run are not findings of the real tree
            sh("rm -rf " + os.path.join(ROOT, "replay", "C*"), cwd=ROOT)
        json.dump(res, open(os.path.join(d, "result.json"), "w"), indent=1)
        print(sid, "caught by", res["caught_by"] or "NOTHING", flush=True)
    write_results()


def write_results():
    rows = []
    for sid in sorted(os.listdir(SEEDED)):
        d = os.path.join(SEEDED, sid)
        if not os.path.isfile(os.path.join(d, "result.json")):
            continue
        r = json.load(open(os.path.join(d, "result.json")))
        m = json.load(open(os.path.join(d, "meta.json")))
        checks = "; ".join("%s: %s" % (k, ("caught, %d violations" % v["violations"]) if v["exit"] == 1 and v["violations"] else ("missed" if v["exit"] == 0 else "inconclusive (exit %d)" % v["exit"])) + " (%ss)" % v["seconds"] for k, v in r.get("checks", {}).items())
        note = m.get("strengthening", "")
        rows.append("| %s | %s | %s | %s | %s | %s |" % (sid, r["property"], m.get("title", "").replace("|", "\\|"), m.get("needs_to_manifest", "").replace("|", "\\|"), checks or ("does not apply: " + r.get("error", "")[:80]), note.replace("|", "\\|")))
    with open(os.path.join(SEEDED, "RESULTS.md"), "w") as f:
        f.write("# Seeded changes and what the checks did with them\n\n")
        f.write("Each change was written by an independent sub-agent that saw only the text of one property and a scratch worktree, compiles, passes the whole upstream suite and was confirmed by hand. `tools/run_seeded.py` applies it to /repo, runs the check(s), reverts.\n\n")
        f.write("| change | property | what it does | needs to manifest | result | strengthening done |\n|---|---|---|---|---|---|\n")
        f.write("\n".join(rows) + "\n")
    print("wrote", os.path.join(SEEDED, "RESULTS.md"))


if __name__ == "__main__":
    if len(sys.argv) > 1 and sys.argv[1] == "--table":
        write_results()
    else:
        main()
