// Package mk wraps the minifiers under test: registries as the README documents
// them, and a panic-safe single call on a private copy of the input.
package mk

import (
	"bytes"
	"fmt"
	"regexp"
	"runtime/debug"

	"github.com/tdewolff/minify/v2"
	"github.com/tdewolff/minify/v2/css"
	"github.com/tdewolff/minify/v2/html"
	"github.com/tdewolff/minify/v2/js"
	"github.com/tdewolff/minify/v2/json"
	"github.com/tdewolff/minify/v2/svg"
	"github.com/tdewolff/minify/v2/xml"
)

var (
	JSRe   = regexp.MustCompile("^(application|text)/(x-)?(java|ecma)script$")
	JSONRe = regexp.MustCompile("[/+]json$")
	XMLRe  = regexp.MustCompile("[/+]xml$")
)

// Opts are the option structs of one registry; nil means zero value.
type Opts struct {
	CSS  *css.Minifier
	HTML *html.Minifier
	JS   *js.Minifier
	JSON *json.Minifier
	SVG  *svg.Minifier
	XML  *xml.Minifier
}

// Full returns a registry with the six minifiers registered as in the README.
func Full(o Opts) *minify.M {
	if o.CSS == nil {
		o.CSS = &css.Minifier{}
	}
	if o.HTML == nil {
		o.HTML = &html.Minifier{}
	}
	if o.JS == nil {
		o.JS = &js.Minifier{}
	}
	if o.JSON == nil {
		o.JSON = &json.Minifier{}
	}
	if o.SVG == nil {
		o.SVG = &svg.Minifier{}
	}
	if o.XML == nil {
		o.XML = &xml.Minifier{}
	}
	m := minify.New()
	m.Add("text/css", o.CSS)
	m.Add("text/html", o.HTML)
	m.Add("image/svg+xml", o.SVG)
	m.AddRegexp(JSRe, o.JS)
	m.AddRegexp(JSONRe, o.JSON)
	m.AddRegexp(XMLRe, o.XML)
	return m
}

// Only returns a registry with a single minifier registered for mediatype.
func Only(mediatype string, mf minify.Minifier) *minify.M {
	m := minify.New()
	m.Add(mediatype, mf)
	return m
}

// PanicError is returned by Run when the minifier panicked.
type PanicError struct {
	Value interface{}
	Stack string
}

func (p *PanicError) Error() string { return fmt.Sprintf("panic: %v\n%s", p.Value, p.Stack) }

// Run calls mf on a private copy of in (the minifiers rewrite their input buffer).
func Run(mf minify.Minifier, m *minify.M, in []byte, params map[string]string) (out []byte, err error) {
	defer func() {
		if r := recover(); r != nil {
			err = &PanicError{r, string(debug.Stack())}
		}
	}()
	if m == nil {
		m = minify.New()
	}
	cp := make([]byte, len(in))
	copy(cp, in)
	var w bytes.Buffer
	err = mf.Minify(m, &w, bytes.NewBuffer(cp), params)
	return w.Bytes(), err
}

// RunM calls m.Minify(mediatype) on a private copy.
func RunM(m *minify.M, mediatype string, in []byte) (out []byte, err error) {
	defer func() {
		if r := recover(); r != nil {
			err = &PanicError{r, string(debug.Stack())}
		}
	}()
	cp := make([]byte, len(in))
	copy(cp, in)
	var w bytes.Buffer
	err = m.Minify(mediatype, &w, bytes.NewBuffer(cp))
	return w.Bytes(), err
}

func IsPanic(err error) bool { _, ok := err.(*PanicError); return ok }
