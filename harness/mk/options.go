package mk

import (
	"github.com/tdewolff/minify/v2/css"
	"github.com/tdewolff/minify/v2/html"
	"github.com/tdewolff/minify/v2/js"
	"github.com/tdewolff/minify/v2/json"
	"github.com/tdewolff/minify/v2/svg"
	"github.com/tdewolff/minify/v2/xml"
	"pgregory.net/rapid"
)

// Options is the serialisable (replayable) form of all option structs.
type Options struct {
	JSPrecision          int       `json:"js_precision,omitempty"`
	JSKeepVars           bool      `json:"js_keep_var_names,omitempty"`
	JSVersion            int       `json:"js_version,omitempty"`
	HTMLKeepComments     bool      `json:"html_keep_comments,omitempty"`
	HTMLKeepCondComments bool      `json:"html_keep_conditional_comments,omitempty"`
	HTMLKeepSpecial      bool      `json:"html_keep_special_comments,omitempty"`
	HTMLKeepDefaultAttrs bool      `json:"html_keep_default_attrvals,omitempty"`
	HTMLKeepDocTags      bool      `json:"html_keep_document_tags,omitempty"`
	HTMLKeepEndTags      bool      `json:"html_keep_end_tags,omitempty"`
	HTMLKeepQuotes       bool      `json:"html_keep_quotes,omitempty"`
	HTMLKeepWhitespace   bool      `json:"html_keep_whitespace,omitempty"`
	HTMLTemplateDelims   [2]string `json:"html_template_delims"`
	CSSKeepCSS2          bool      `json:"css_keep_css2,omitempty"`
	CSSPrecision         int       `json:"css_precision,omitempty"`
	CSSInline            bool      `json:"css_inline,omitempty"`
	SVGKeepComments      bool      `json:"svg_keep_comments,omitempty"`
	SVGPrecision         int       `json:"svg_precision,omitempty"`
	SVGInline            bool      `json:"svg_inline,omitempty"`
	XMLKeepWhitespace    bool      `json:"xml_keep_whitespace,omitempty"`
	JSONPrecision        int       `json:"json_precision,omitempty"`
	JSONKeepNumbers      bool      `json:"json_keep_numbers,omitempty"`
}

func (o Options) Build() Opts {
	return Opts{
		CSS:  &css.Minifier{KeepCSS2: o.CSSKeepCSS2, Precision: o.CSSPrecision, Inline: o.CSSInline},
		HTML: &html.Minifier{KeepComments: o.HTMLKeepComments, KeepConditionalComments: o.HTMLKeepCondComments, KeepSpecialComments: o.HTMLKeepSpecial, KeepDefaultAttrVals: o.HTMLKeepDefaultAttrs, KeepDocumentTags: o.HTMLKeepDocTags, KeepEndTags: o.HTMLKeepEndTags, KeepQuotes: o.HTMLKeepQuotes, KeepWhitespace: o.HTMLKeepWhitespace, TemplateDelims: o.HTMLTemplateDelims},
		JS:   &js.Minifier{Precision: o.JSPrecision, KeepVarNames: o.JSKeepVars, Version: o.JSVersion},
		JSON: &json.Minifier{Precision: o.JSONPrecision, KeepNumbers: o.JSONKeepNumbers},
		SVG:  &svg.Minifier{KeepComments: o.SVGKeepComments, Precision: o.SVGPrecision, Inline: o.SVGInline},
		XML:  &xml.Minifier{KeepWhitespace: o.XMLKeepWhitespace},
	}
}

var TemplateDelimSets = [][2]string{{"", ""}, {"{{", "}}"}, {"<%", "%>"}, {"<?", "?>"}}

// GenOptions draws option values. extreme=true includes the hostile values of
// C10 (huge/negative precisions, arbitrary versions, odd template delimiters);
// otherwise precisions stay 0 (exact) and versions are real ones.
func GenOptions(t *rapid.T, extreme bool) Options {
	b := func(l string) bool { return rapid.Bool().Draw(t, l) }
	o := Options{}
	if rapid.IntRange(0, 2).Draw(t, "defaultopts") == 0 {
		return o
	}
	o.JSKeepVars = b("jskeep")
	o.JSVersion = rapid.SampledFrom([]int{0, 0, 5, 2015, 2016, 2017, 2018, 2019, 2020, 2021, 2022}).Draw(t, "jsversion")
	o.HTMLKeepComments, o.HTMLKeepCondComments, o.HTMLKeepSpecial = b("hc"), b("hcc"), b("hsc")
	o.HTMLKeepDefaultAttrs, o.HTMLKeepDocTags, o.HTMLKeepEndTags = b("hda"), b("hdt"), b("het")
	o.HTMLKeepQuotes, o.HTMLKeepWhitespace = b("hq"), b("hw")
	o.HTMLTemplateDelims = rapid.SampledFrom(TemplateDelimSets).Draw(t, "delims")
	o.CSSKeepCSS2, o.CSSInline = b("css2"), false
	o.SVGKeepComments = b("svgc")
	o.XMLKeepWhitespace = b("xmlw")
	o.JSONKeepNumbers = b("jsonkn")
	if extreme {
		precs := []int{0, 0, 1, 2, 17, -1, -1000000000, 1000000000}
		o.JSPrecision = rapid.SampledFrom(precs).Draw(t, "jsprec")
		o.CSSPrecision = rapid.SampledFrom(precs).Draw(t, "cssprec")
		o.SVGPrecision = rapid.SampledFrom(precs).Draw(t, "svgprec")
		o.JSONPrecision = rapid.SampledFrom(precs).Draw(t, "jsonprec")
		o.CSSInline, o.SVGInline = b("cssinline"), b("svginline")
		if rapid.IntRange(0, 3).Draw(t, "weirdversion") == 0 {
			o.JSVersion = rapid.SampledFrom([]int{-1, 1, 3, 6, 2014, 2023, 1 << 30, -(1 << 30)}).Draw(t, "jsversionx")
		}
		if rapid.IntRange(0, 3).Draw(t, "weirddelims") == 0 {
			ds := []string{"", "{", "{{", "}}", "<", ">", "<%", "%>", "a", "<!--", "</", "{{{"}
			o.HTMLTemplateDelims = [2]string{rapid.SampledFrom(ds).Draw(t, "d0"), rapid.SampledFrom(ds).Draw(t, "d1")}
		}
	}
	return o
}
