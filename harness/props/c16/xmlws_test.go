package c16

import (
	stdxml "encoding/xml"
	"fmt"
	"io"
	"regexp"
	"strings"
)

// XML KeepWhitespace: "preserve whitespace between inline tags but still collapse multiple whitespace characters into
// one". The law is checked on the character data of the root element as encoding/xml reads it: every tag inside the
// root is a mark, the character data (text and CDATA alike, references expanded) stands between the marks; with the
// option set the two sides are equal once every whitespace run is one space. Comments (removed) and processing
// instructions are soft marks: the whitespace on both of their sides may become one run.

type XMLCase struct {
	Entities map[string]string `json:"entities,omitempty"`
}

func xmlFlat(src string, ents map[string]string) (string, error) {
	d := stdxml.NewDecoder(strings.NewReader(src))
	d.Strict = true
	d.Entity = ents
	d.CharsetReader = func(label string, input io.Reader) (io.Reader, error) { return input, nil }
	depth := 0
	var sb strings.Builder
	for {
		tok, err := d.Token()
		if err == io.EOF {
			return normFlat(sb.String()), nil
		}
		if err != nil {
			return "", err
		}
		switch x := tok.(type) {
		case stdxml.StartElement:
			if depth > 0 {
				sb.WriteString("\x01<" + x.Name.Local + ">\x01")
			}
			depth++
		case stdxml.EndElement:
			depth--
			if depth > 0 {
				sb.WriteString("\x01</" + x.Name.Local + ">\x01")
			}
		case stdxml.CharData:
			if depth > 0 {
				sb.Write(x)
			}
		case stdxml.Comment, stdxml.ProcInst, stdxml.Directive:
			if depth > 0 {
				sb.WriteString("\x02")
			}
		}
	}
}

var reSoft = regexp.MustCompile(`[ \t\r\n]*(?:\x02[ \t\r\n]*)+`)
var reWS = regexp.MustCompile(`[ \t\r\n]+`)

func normFlat(s string) string {
	s = reSoft.ReplaceAllStringFunc(s, func(m string) string {
		if strings.ContainsAny(m, " \t\r\n") {
			return " "
		}
		return ""
	})
	return reWS.ReplaceAllString(s, " ")
}

func checkXMLKeepWS(c Case) (string, error) {
	var ents map[string]string
	if c.XML != nil {
		ents = c.XML.Entities
	}
	a, e := xmlFlat(c.Src, ents)
	if e != nil {
		return "", nil // not a document encoding/xml accepts: outside the domain of this law
	}
	out, err := minifyKind("xml", c.Opts, c.Src)
	if err != nil {
		return out, fmt.Errorf("well-formed XML rejected: %v\n--- input:\n%s", err, c.Src)
	}
	b, e := xmlFlat(out, ents)
	if e != nil {
		return out, fmt.Errorf("output is not accepted by encoding/xml: %v\n--- input:\n%s\n--- output:\n%s", e, c.Src, out)
	}
	if c.Opts.XMLKeepWhitespace && a != b {
		return out, fmt.Errorf("KeepWhitespace: the character data between the tags of the root element (whitespace runs collapsed) changed\n--- input marks and text:\n%q\n--- output marks and text:\n%q\n--- input:\n%s\n--- output:\n%s", a, b, c.Src, out)
	}
	if !c.Opts.XMLKeepWhitespace && strings.Join(strings.Fields(strings.ReplaceAll(a, "\x01", " ")), " ") != strings.Join(strings.Fields(strings.ReplaceAll(b, "\x01", " ")), " ") {
		return out, fmt.Errorf("the words and tags of the root element changed\n--- input:\n%q\n--- output:\n%q\n--- input:\n%s\n--- output:\n%s", a, b, c.Src, out)
	}
	return out, nil
}
