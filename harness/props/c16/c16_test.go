package c16

import (
	"bytes"
	"encoding/json"
	"fmt"
	stdhtml "html"
	"io"
	"math/big"
	"os"
	"os/exec"
	"path/filepath"
	"regexp"
	"strconv"
	"strings"
	"testing"

	"github.com/tdewolff/minify/v2"
	mcss "github.com/tdewolff/minify/v2/css"
	mjs "github.com/tdewolff/minify/v2/js"
	"golang.org/x/net/html"
	"pgregory.net/rapid"

	"verifharness/gen/cssgen"
	"verifharness/gen/htmlgen"
	"verifharness/gen/jsgen"
	"verifharness/gen/jsongen"
	"verifharness/gen/seeds"
	"verifharness/gen/xmlgen"
	"verifharness/hx"
	"verifharness/mk"
	"verifharness/oracle/cssval"
	"verifharness/oracle/htmltree"
	"verifharness/oracle/jslex"
	"verifharness/oracle/jsonval"
	"verifharness/oracle/jsrun"
)

func TestMain(m *testing.M) { hx.Main(m) }

type Case struct {
	Check string     `json:"check"` // js-version html-keep css-keepcss2 json-precision cli
	Kind  string     `json:"kind"`
	Src   string     `json:"src"`
	Level int        `json:"level,omitempty"` // ECMAScript edition the JS input is restricted to
	Opts  mk.Options `json:"opts"`
	// cli, kind html: the file type given to --type when it is one of the HTML template types (php asp ejs tmpl gohtml
	// mustache handlebars); the library side then is the HTML minifier with that type's template delimiters
	CLIType string   `json:"cli_type,omitempty"`
	XML     *XMLCase `json:"xml,omitempty"`
}

var templateTypes = map[string][2]string{"php": {"<?", "?>"}, "asp": {"<%", "%>"}, "ejs": {"<%", "%>"}, "tmpl": {"{{", "}}"}, "gohtml": {"{{", "}}"}, "mustache": {"{{", "}}"}, "handlebars": {"{{", "}}"}}
var templateTypeNames = []string{"php", "asp", "ejs", "tmpl", "gohtml", "mustache", "handlebars"}

const rule = "cases = (generated input, option configuration): JS programs restricted to an ECMAScript edition L x Version V >= L (0 excluded) x KeepVarNames; conforming HTML documents x the full product of the eight Keep* options; stylesheets x KeepCSS2 x precision; JSON texts x precision 0..17; well-formed XML documents x KeepWhitespace (the character data between the tags of the root element, read by encoding/xml, is the same once whitespace runs are collapsed); and for the CLI every flag combination mapped onto the option structs, for HTML also under the seven template file types (php asp ejs tmpl gohtml mustache handlebars) against the library with that type's delimiters; oracle = kept-construct laws checked on an independent tokenization of input and output (own JS lexer + V8 syntax check, x/net/html tokenizer, own CSS tokenizer, own JSON lexer with exact decimals) and byte equality between the built command line binary and the library under the same options; the semantic oracles of C01..C07 draw the same option space themselves; distinct by hash; non-trivial = non-default configuration whose output differs from the default-configuration output"

func guards() map[string]bool {
	g := map[string]bool{}
	for _, f := range hx.Findings() {
		if f.Status == "known" && f.Guard != "" {
			g[f.Guard] = true
		}
	}
	return g
}

func minifyKind(kind string, o mk.Options, src string) (string, error) {
	m := mk.Full(o.Build())
	out, err := mk.RunM(m, seeds.Mediatype[kind], []byte(src))
	return string(out), err
}

// ---------------------------------------------------------------------------
// JS: Version

// newerSyntax lists the syntax markers (edition, name) present in src.
func newerSyntax(src string) map[string]int {
	found := map[string]int{}
	toks := jslex.Significant(src)
	for i, t := range toks {
		switch t.Kind {
		case jslex.Template:
			found["template literal"] = 2015
		case jslex.Punct:
			switch t.Text {
			case "=>":
				found["arrow function"] = 2015
			case "**", "**=":
				found["exponentiation operator"] = 2016
			case "?.":
				found["optional chaining"] = 2020
			case "??":
				found["nullish coalescing"] = 2020
			case "??=", "||=", "&&=":
				found["logical assignment"] = 2021
			case "...":
				found["spread/rest"] = 2015
			}
		case jslex.Ident:
			if t.Text == "catch" && i+1 < len(toks) && toks[i+1].Kind == jslex.Punct && toks[i+1].Text == "{" && !t.AfterDot {
				found["optional catch binding"] = 2019
			}
			if (t.Text == "let" || t.Text == "const" || t.Text == "class") && !t.AfterDot && i+1 < len(toks) && toks[i+1].Kind == jslex.Ident {
				found[t.Text+" declaration"] = 2015
			}
		case jslex.Number:
			if strings.HasSuffix(t.Text, "n") && !strings.HasPrefix(t.Text, "0x") {
				found["bigint literal"] = 2020
			}
			if strings.Contains(t.Text, "_") {
				found["numeric separator"] = 2021
			}
			if len(t.Text) > 1 && t.Text[0] == '0' && (t.Text[1] == 'b' || t.Text[1] == 'B' || t.Text[1] == 'o' || t.Text[1] == 'O') {
				found["binary/octal literal"] = 2015
			}
		}
	}
	return found
}

func checkJSVersion(c Case) (out string, err error) {
	out, merr := minifyKind("js", c.Opts, c.Src)
	if mk.IsPanic(merr) {
		return out, merr
	}
	if merr != nil {
		return out, nil // rejected input is outside this check
	}
	in := newerSyntax(c.Src)
	for name, ed := range newerSyntax(out) {
		if ed > c.Opts.JSVersion {
			if _, had := in[name]; !had {
				return out, fmt.Errorf("Version=%d: the output uses %s (ES%d), the input does not\n--- input:\n%s\n--- output:\n%s", c.Opts.JSVersion, name, ed, c.Src, out)
			}
		}
	}
	// and it still is a valid program
	r, e := jsrun.Default.Run(jsrun.Req{Goal: "script", Src: c.Src, SyntaxOnly: true})
	if e != nil {
		return out, fmt.Errorf("HARNESS: %v", e)
	}
	if r.Status == "ok" {
		r2, e := jsrun.Default.Run(jsrun.Req{Goal: "script", Src: out, SyntaxOnly: true})
		if e != nil {
			return out, fmt.Errorf("HARNESS: %v", e)
		}
		if r2.Status != "ok" {
			return out, fmt.Errorf("Version=%d KeepVarNames=%v: the output is rejected by V8 (%s)\n--- input:\n%s\n--- output:\n%s", c.Opts.JSVersion, c.Opts.JSKeepVars, strings.SplitN(r2.Obs, "\n", 2)[0], c.Src, out)
		}
	}
	return out, nil
}

// ---------------------------------------------------------------------------
// HTML: Keep*

type htmlInfo struct {
	endTags   map[string]int // explicit end tags per element name
	docStart  map[string]int // explicit html/head/body start tags
	comments  []string
	unquoted  map[string]int // tag/attr of attributes written without quotes
	quoted    map[string]int
	text      string // concatenated text outside raw-text elements, character references decoded
	startTags int
	starts    map[string]int
	defaults  map[string]int // tag/attr of attributes that have a default value rule, with a non-empty value
	condText  string         // text inside conditional comments
}

var reAttr = regexp.MustCompile(`(?s)[\s/]+([^\s/>=]+)(\s*=\s*("[^"]*"|'[^']*'|[^\s>]+))?`)

var reCondComment = regexp.MustCompile(`(?s)^<!--(\[if [^\]]*\]>)(.*)(<!\[endif\])-->$`)

// scanHTMLCond is scanHTML, and with inner set the markup inside downlevel-hidden conditional comments counts as
// well: it is HTML that is minified with the same options when such comments are kept
func scanHTMLCond(src string, inner bool) htmlInfo {
	inf := scanHTML(src)
	if !inner {
		return inf
	}
	for _, cm := range inf.comments {
		if m := reCondComment.FindStringSubmatch(cm); m != nil {
			sub := scanHTMLCond(m[2], true)
			for k, v := range sub.endTags {
				inf.endTags[k] += v
			}
			for k, v := range sub.starts {
				inf.starts[k] += v
			}
			for k, v := range sub.unquoted {
				inf.unquoted[k] += v
			}
			for k, v := range sub.quoted {
				inf.quoted[k] += v
			}
			for k, v := range sub.defaults {
				inf.defaults[k] += v
			}
			inf.condText += "|" + sub.text
		}
	}
	return inf
}

func scanHTML(src string) htmlInfo {
	inf := htmlInfo{endTags: map[string]int{}, docStart: map[string]int{}, unquoted: map[string]int{}, quoted: map[string]int{}, starts: map[string]int{}, defaults: map[string]int{}}
	z := html.NewTokenizer(strings.NewReader(src))
	var sb strings.Builder
	raw := ""
	for {
		tt := z.Next()
		switch tt {
		case html.ErrorToken:
			inf.text = sb.String()
			return inf
		case html.CommentToken:
			inf.comments = append(inf.comments, string(z.Raw()))
		case html.StartTagToken, html.SelfClosingTagToken:
			rawTag := string(z.Raw())
			name, _ := z.TagName()
			n := string(name)
			inf.startTags++
			inf.starts[n]++
			if n == "html" || n == "head" || n == "body" {
				inf.docStart[n]++
			}
			if n == "script" || n == "style" || n == "textarea" || n == "title" || n == "iframe" || n == "xmp" || n == "noscript" || n == "noembed" || n == "noframes" {
				raw = n
			}
			if n == "pre" {
				raw = "" // ordinary content
			}
			// attribute quoting from the raw tag text
			rest := rawTag[1+len(n):]
			for _, m := range reAttr.FindAllStringSubmatch(rest, -1) {
				if m[2] == "" {
					continue
				}
				key := n + "/" + strings.ToLower(m[1])
				if v := strings.Trim(m[3], "\"' \t\n\r\f"); v != "" {
					switch strings.ToLower(m[1]) {
					case "type", "method", "enctype", "colspan", "rowspan", "shape", "span", "media":
						if !(n == "meta" || n == "a" || n == "link" && strings.ToLower(m[1]) == "type" && !strings.EqualFold(v, "text/css")) {
							inf.defaults[key]++
						}
					}
				}
				if strings.HasPrefix(m[3], "\"") || strings.HasPrefix(m[3], "'") {
					inf.quoted[key]++
				} else {
					inf.unquoted[key]++
				}
			}
		case html.EndTagToken:
			name, _ := z.TagName()
			inf.endTags[string(name)]++
			raw = ""
		case html.TextToken:
			if raw == "" {
				sb.WriteString(stdhtml.UnescapeString(string(z.Raw())))
			}
		}
	}
}

var reSpaces = regexp.MustCompile(`[ \t\n\r\f]+`)

func checkHTMLKeep(c Case) (out string, err error) {
	// with a JS and CSS minifier for attribute contexts, raw text content is opaque here (C11 decides it)
	m := minify.New()
	m.AddFunc("application/javascript", func(mm *minify.M, w io.Writer, r io.Reader, p map[string]string) error {
		if p["inline"] != "1" {
			_, e := io.Copy(w, r)
			return e
		}
		return (&mjs.Minifier{}).Minify(mm, w, r, p)
	})
	m.AddFunc("text/css", func(mm *minify.M, w io.Writer, r io.Reader, p map[string]string) error {
		if p["inline"] != "1" {
			_, e := io.Copy(w, r)
			return e
		}
		return (&mcss.Minifier{}).Minify(mm, w, r, p)
	})
	ob, merr := mk.Run(c.Opts.Build().HTML, m, []byte(c.Src), nil)
	out = string(ob)
	if mk.IsPanic(merr) {
		return out, merr
	}
	if merr != nil {
		return out, fmt.Errorf("conforming HTML rejected: %v\n--- input:\n%s", merr, c.Src)
	}
	// kept conditional comments are minified inside with the same options (KeepComments keeps them verbatim)
	condInner := (c.Opts.HTMLKeepSpecial || c.Opts.HTMLKeepCondComments) && !c.Opts.HTMLKeepComments
	in, ou := scanHTMLCond(c.Src, condInner), scanHTMLCond(out, condInner)
	show := func(f string, a ...interface{}) error {
		return fmt.Errorf(f+"\n--- options: %+v\n--- input:\n%s\n--- output:\n%s", append(a, c.Opts, c.Src, out)...)
	}
	if c.Opts.HTMLKeepEndTags {
		for n, k := range in.endTags {
			if (n == "html" || n == "head" || n == "body") && !c.Opts.HTMLKeepDocTags {
				continue // document tags are governed by KeepDocumentTags
			}
			// an element that is removed as a whole (empty script or style) takes its end tag with it
			removed := in.starts[n] - ou.starts[n]
			if removed < 0 {
				removed = 0
			}
			if ou.endTags[n] < k-removed {
				return out, show("KeepEndTags: %d of %d </%s> end tags are left (%d elements removed)", ou.endTags[n], k, n, removed)
			}
		}
	}
	if c.Opts.HTMLKeepDocTags {
		for n, k := range in.docStart {
			if ou.docStart[n] < k {
				return out, show("KeepDocumentTags: the <%s> start tag was removed", n)
			}
		}
		for _, n := range []string{"html", "head", "body"} {
			if ou.endTags[n] < in.endTags[n] {
				return out, show("KeepDocumentTags: the </%s> end tag was removed", n)
			}
		}
	}
	if c.Opts.HTMLKeepQuotes {
		for key, k := range ou.unquoted {
			if k > in.unquoted[key] {
				return out, show("KeepQuotes: attribute %s is written without quotes %d times, %d times in the input", key, k, in.unquoted[key])
			}
		}
	}
	if c.Opts.HTMLKeepDefaultAttrs {
		for key, k := range in.defaults {
			tag := key[:strings.IndexByte(key, '/')]
			removed := in.starts[tag] - ou.starts[tag]
			if removed < 0 {
				removed = 0
			}
			if ou.defaults[key] < k-removed {
				return out, show("KeepDefaultAttrVals: %d of %d %s attributes are left", ou.defaults[key], k, key)
			}
		}
	}
	if c.Opts.HTMLKeepComments {
		if len(ou.comments) != len(in.comments) {
			return out, show("KeepComments: %d of %d comments are left", len(ou.comments), len(in.comments))
		}
		for i := range in.comments {
			if in.comments[i] != ou.comments[i] {
				return out, show("KeepComments: comment %d changed from %q to %q", i, in.comments[i], ou.comments[i])
			}
		}
	}
	if c.Opts.HTMLKeepWhitespace {
		// whitespace is collapsed but never removed: the text of the document, runs collapsed, is the same
		a := reSpaces.ReplaceAllString(in.text, " ")
		b := reSpaces.ReplaceAllString(ou.text, " ")
		if ca, cb := reSpaces.ReplaceAllString(in.condText, " "), reSpaces.ReplaceAllString(ou.condText, " "); strings.ReplaceAll(ca, " ", "") != strings.ReplaceAll(cb, " ", "") || strings.Count(ca, " ") > 0 && strings.Count(cb, " ") == 0 {
			return out, show("KeepWhitespace: the text inside conditional comments lost its whitespace\n--- input:\n%q\n--- output:\n%q", ca, cb)
		}
		if strings.TrimSpace(a) != strings.TrimSpace(b) {
			return out, show("KeepWhitespace: the text of the document (whitespace runs collapsed) changed\n--- text of the input:\n%q\n--- text of the output:\n%q", a, b)
		}
	}
	return out, nil
}

// ---------------------------------------------------------------------------
// CSS: KeepCSS2

var reHexAlpha = regexp.MustCompile(`^#([0-9a-fA-F]{4}|[0-9a-fA-F]{8})$`)

func checkCSS2(c Case) (out string, err error) {
	out, merr := minifyKind("css", c.Opts, c.Src)
	if mk.IsPanic(merr) {
		return out, merr
	}
	if merr != nil || !c.Opts.CSSKeepCSS2 {
		return out, nil
	}
	inHexAlpha, inExp := false, false
	for _, t := range cssval.Tokenize(c.Src) {
		if t.T == cssval.Hash && reHexAlpha.MatchString(t.Raw) {
			inHexAlpha = true
		}
		if (t.T == cssval.Number || t.T == cssval.Dimension || t.T == cssval.Percentage) && strings.ContainsAny(t.Val, "eE") {
			inExp = true
		}
	}
	depth := 0
	for _, t := range cssval.Tokenize(out) {
		switch t.T {
		case cssval.LBrace:
			depth++
		case cssval.RBrace:
			depth--
		}
		if t.T == cssval.Hash && depth > 0 && reHexAlpha.MatchString(t.Raw) && !inHexAlpha {
			return out, fmt.Errorf("KeepCSS2: the output has the CSS Color 4 notation %s, the input has none\n--- input:\n%s\n--- output:\n%s", t.Raw, c.Src, out)
		}
		if (t.T == cssval.Number || t.T == cssval.Dimension || t.T == cssval.Percentage) && strings.ContainsAny(t.Val, "eE") && !inExp {
			return out, fmt.Errorf("KeepCSS2: the output has the number %s in exponent notation, the input has none\n--- input:\n%s\n--- output:\n%s", t.Raw, c.Src, out)
		}
	}
	return out, nil
}

// ---------------------------------------------------------------------------
// JSON: Precision (numbers align one to one)

func parseDec(s string) (*big.Rat, bool) {
	r, ok := new(big.Rat).SetString(s)
	return r, ok
}

// digitsOf returns the decimal exponent of the first significant digit of |x| (x != 0): 10^e <= |x| < 10^(e+1)
func magnitude(x *big.Rat) int {
	f, _ := new(big.Float).SetRat(x).Float64()
	if f < 0 {
		f = -f
	}
	e := 0
	ten := big.NewRat(10, 1)
	abs := new(big.Rat).Abs(x)
	one := big.NewRat(1, 1)
	for abs.Cmp(ten) >= 0 {
		abs.Quo(abs, ten)
		e++
	}
	for abs.Cmp(one) < 0 {
		abs.Mul(abs, ten)
		e--
	}
	return e
}

func checkJSONPrecision(c Case) (out string, err error) {
	out, merr := minifyKind("json", c.Opts, c.Src)
	if mk.IsPanic(merr) {
		return out, merr
	}
	if merr != nil {
		return out, nil
	}
	tin, _, e1 := jsonval.Lex([]byte(c.Src))
	tout, _, e2 := jsonval.Lex([]byte(out))
	if e1 != nil {
		return out, nil
	}
	if e2 != nil {
		return out, fmt.Errorf("Precision=%d: the output is not valid JSON: %v\n--- input:\n%s\n--- output:\n%s", c.Opts.JSONPrecision, e2, c.Src, out)
	}
	if len(tin) != len(tout) {
		return out, fmt.Errorf("Precision=%d: token count changed %d -> %d\n--- input:\n%s\n--- output:\n%s", c.Opts.JSONPrecision, len(tin), len(tout), c.Src, out)
	}
	p := c.Opts.JSONPrecision
	for i := range tin {
		if tin[i].Kind != tout[i].Kind {
			return out, fmt.Errorf("token %d changed kind", i)
		}
		if tin[i].Kind != jsonval.Number {
			if tin[i].Raw != tout[i].Raw {
				return out, fmt.Errorf("Precision=%d: token %d changed from %s to %s", p, i, tin[i].Raw, tout[i].Raw)
			}
			continue
		}
		a, ok1 := parseDec(tin[i].Raw)
		b, ok2 := parseDec(tout[i].Raw)
		if !ok1 || !ok2 {
			continue
		}
		if c.Opts.JSONKeepNumbers {
			if tin[i].Raw != tout[i].Raw {
				return out, fmt.Errorf("KeepNumbers: number %s became %s", tin[i].Raw, tout[i].Raw)
			}
			continue
		}
		if p <= 0 {
			if a.Cmp(b) != 0 {
				return out, fmt.Errorf("Precision=%d: number %s became %s (another value)", p, tin[i].Raw, tout[i].Raw)
			}
			continue
		}
		if a.Sign() == 0 {
			if b.Sign() != 0 {
				return out, fmt.Errorf("Precision=%d: zero %s became %s", p, tin[i].Raw, tout[i].Raw)
			}
			continue
		}
		// |a-b| <= half a unit of the p-th significant digit of a (documented: p significant digits are preserved)
		e := magnitude(a) - (p - 1)
		unit := new(big.Rat).SetInt64(1)
		ten := big.NewRat(10, 1)
		for k := 0; k < e; k++ {
			unit.Mul(unit, ten)
		}
		for k := 0; k > e; k-- {
			unit.Quo(unit, ten)
		}
		half := new(big.Rat).Quo(unit, big.NewRat(2, 1))
		d := new(big.Rat).Sub(a, b)
		d.Abs(d)
		if d.Cmp(half) > 0 {
			return out, fmt.Errorf("Precision=%d: number %s became %s, more than half a unit of digit %d away", p, tin[i].Raw, tout[i].Raw, p)
		}
	}
	return out, nil
}

// ---------------------------------------------------------------------------
// CLI flags

func cliArgs(kind string, o mk.Options) []string {
	args := []string{"--type", map[string]string{"js": "js", "css": "css", "html": "html", "svg": "svg", "xml": "xml", "json": "json"}[kind]}
	b := func(on bool, flag string) {
		if on {
			args = append(args, flag)
		}
	}
	b(o.JSKeepVars, "--js-keep-var-names")
	if o.JSVersion != 0 {
		args = append(args, "--js-version", strconv.Itoa(o.JSVersion))
	}
	if o.JSPrecision != 0 {
		args = append(args, "--js-precision", strconv.Itoa(o.JSPrecision))
	}
	b(o.HTMLKeepComments, "--html-keep-comments")
	b(o.HTMLKeepCondComments, "--html-keep-conditional-comments")
	b(o.HTMLKeepSpecial, "--html-keep-special-comments")
	b(o.HTMLKeepDefaultAttrs, "--html-keep-default-attrvals")
	b(o.HTMLKeepDocTags, "--html-keep-document-tags")
	b(o.HTMLKeepEndTags, "--html-keep-end-tags")
	b(o.HTMLKeepQuotes, "--html-keep-quotes")
	b(o.HTMLKeepWhitespace, "--html-keep-whitespace")
	if o.CSSPrecision != 0 {
		args = append(args, "--css-precision", strconv.Itoa(o.CSSPrecision))
	}
	b(o.SVGKeepComments, "--svg-keep-comments")
	if o.SVGPrecision != 0 {
		args = append(args, "--svg-precision", strconv.Itoa(o.SVGPrecision))
	}
	b(o.XMLKeepWhitespace, "--xml-keep-whitespace")
	b(o.JSONKeepNumbers, "--json-keep-numbers")
	if o.JSONPrecision != 0 {
		args = append(args, "--json-precision", strconv.Itoa(o.JSONPrecision))
	}
	return args
}

func checkCLI(c Case) (out string, err error) {
	cli := os.Getenv("VERIF_CLI")
	if cli == "" {
		return "", fmt.Errorf("HARNESS: VERIF_CLI not set")
	}
	// the command line tool has no flag for these
	o := c.Opts
	o.HTMLTemplateDelims = [2]string{}
	o.CSSKeepCSS2 = false
	o.CSSInline, o.SVGInline = false, false
	lib, lerr := minifyKind(c.Kind, o, c.Src)
	if d, ok := templateTypes[c.CLIType]; ok {
		// the registry of the command: text/html without delimiters (the text of an iframe goes there, C11), the template
		// type is the same HTML minifier with that type's delimiters
		opts := o.Build()
		m := mk.Full(opts)
		h := *opts.HTML
		h.TemplateDelims = d
		m.Add("text/x-template", &h)
		b, e := mk.RunM(m, "text/x-template", []byte(c.Src))
		lib, lerr = string(b), e
	}
	dir, e := os.MkdirTemp("", "c16cli")
	if e != nil {
		return "", fmt.Errorf("HARNESS: %v", e)
	}
	defer os.RemoveAll(dir)
	in := filepath.Join(dir, "in")
	if e := os.WriteFile(in, []byte(c.Src), 0o644); e != nil {
		return "", fmt.Errorf("HARNESS: %v", e)
	}
	args := cliArgs(c.Kind, o)
	if c.CLIType != "" {
		args[1] = c.CLIType
	}
	cmd := exec.Command(cli, append(args, in)...)
	var so, se bytes.Buffer
	cmd.Stdout, cmd.Stderr = &so, &se
	cmd.Env = append(os.Environ(), "HOME="+dir, "XDG_CONFIG_HOME="+dir)
	cmd.Dir = dir
	rerr := cmd.Run()
	if lerr != nil {
		if rerr == nil {
			return lib, fmt.Errorf("the library rejects the input (%v), the command line tool accepts it\n--- args: %v\n--- input:\n%s", lerr, args, c.Src)
		}
		return lib, nil
	}
	if rerr != nil {
		return lib, fmt.Errorf("the command line tool fails (%v: %s), the library accepts the input\n--- args: %v\n--- input:\n%s", rerr, se.String(), args, c.Src)
	}
	if so.String() != lib {
		return lib, fmt.Errorf("the command line tool with %v gives other bytes than the library with the same options\n--- input:\n%s\n--- library:\n%s\n--- command line:\n%s", args, c.Src, lib, so.String())
	}
	return lib, nil
}

// ---------------------------------------------------------------------------

func check(c Case) (string, error) {
	switch c.Check {
	case "js-version":
		return checkJSVersion(c)
	case "html-keep":
		return checkHTMLKeep(c)
	case "css-keepcss2":
		return checkCSS2(c)
	case "json-precision":
		return checkJSONPrecision(c)
	case "cli":
		return checkCLI(c)
	case "xml-keepws":
		return checkXMLKeepWS(c)
	}
	return "", fmt.Errorf("HARNESS: unknown check %q", c.Check)
}

func genCase(t *rapid.T, g0 map[string]bool) Case {
	which := rapid.SampledFrom([]string{"js-version", "js-version", "html-keep", "html-keep", "css-keepcss2", "json-precision", "cli", "xml-keepws"}).Draw(t, "check")
	c := Case{Check: which}
	switch which {
	case "js-version":
		c.Kind = "js"
		levels := []int{5, 2015, 2016, 2017, 2018, 2019, 2020, 2021}
		li := rapid.IntRange(0, len(levels)-1).Draw(t, "level")
		c.Level = levels[li]
		vs := append([]int{}, levels[li:]...)
		vs = append(vs, 2022)
		c.Opts.JSVersion = rapid.SampledFrom(vs).Draw(t, "version")
		c.Opts.JSKeepVars = rapid.Bool().Draw(t, "keepvars")
		p := jsgen.Gen(t, jsgen.Config{Goal: "sloppy", MaxStmts: 8, ES: c.Level, Guards: g0})
		c.Src = p.Src
	case "html-keep":
		c.Kind = "html"
		b := func(l string) bool { return rapid.Bool().Draw(t, l) }
		c.Opts = mk.Options{HTMLKeepComments: b("kc"), HTMLKeepCondComments: b("kcc"), HTMLKeepSpecial: b("ksc"), HTMLKeepDefaultAttrs: b("kda"), HTMLKeepDocTags: b("kdt"), HTMLKeepEndTags: b("ket"), HTMLKeepQuotes: b("kq"), HTMLKeepWhitespace: b("kw")}
		d := (&htmlgen.G{T: t, Feats: map[string]int{}, Guards: g0}).Gen()
		c.Src = d.Src
		// conformance: the free serialisation must denote the DOM that was drawn (as in C03)
		if e := htmltree.Compare(d.Explicit, d.Src, htmltree.Options{KeepComments: true, Fragment: d.Fragment, RawEqual: true, KeepDefaultAttrVals: true}); e != nil {
			c.Check = "skip"
		}
	case "css-keepcss2":
		c.Kind = "css"
		c.Opts.CSSKeepCSS2 = rapid.IntRange(0, 3).Draw(t, "css2") != 0
		c.Opts.CSSPrecision = rapid.SampledFrom([]int{0, 0, 1, 2, 3, 6}).Draw(t, "cssprec")
		c.Src = (&cssgen.G{T: t, Feats: map[string]int{}, Guards: g0}).Stylesheet()
	case "json-precision":
		c.Kind = "json"
		c.Opts.JSONPrecision = rapid.IntRange(0, 17).Draw(t, "prec")
		c.Opts.JSONKeepNumbers = rapid.IntRange(0, 5).Draw(t, "keepnumbers") == 0
		c.Src = jsongen.Text(t, 20)
	case "xml-keepws":
		c.Kind = "xml"
		c.Opts.XMLKeepWhitespace = rapid.IntRange(0, 3).Draw(t, "xmlkeepws") != 0
		d := xmlgen.Gen(t)
		c.Src = strings.ReplaceAll(d.Src, "]]>]]>", "]]>")
		if len(d.Entities) > 0 {
			c.XML = &XMLCase{Entities: d.Entities}
		}
	case "cli":
		c.Kind = rapid.SampledFrom(seeds.Kinds).Draw(t, "kind")
		c.Opts = mk.GenOptions(t, false)
		if rapid.Bool().Draw(t, "withprecision") {
			c.Opts.JSPrecision = rapid.IntRange(0, 6).Draw(t, "jsprec")
			c.Opts.CSSPrecision = rapid.IntRange(0, 6).Draw(t, "cssprec")
			c.Opts.SVGPrecision = rapid.IntRange(0, 6).Draw(t, "svgprec")
			c.Opts.JSONPrecision = rapid.IntRange(0, 6).Draw(t, "jsonprec")
		}
		c.Src = seeds.Doc(t, c.Kind)
		if len(c.Src) > 16<<10 {
			c.Src = c.Src[:16<<10]
		}
		if c.Kind == "html" && rapid.IntRange(0, 2).Draw(t, "templatetype") == 0 {
			// the HTML template types of the command line tool take the same --html-* flags
			c.CLIType = rapid.SampledFrom(templateTypeNames).Draw(t, "clitype")
			d := templateTypes[c.CLIType]
			if loc := reTextEnd.FindStringIndex(c.Src); loc != nil && rapid.Bool().Draw(t, "tmplcode") {
				c.Src = c.Src[:loc[0]] + " " + d[0] + " echo  $x " + d[1] + " " + c.Src[loc[0]:]
			}
		}
	}
	return c
}

var reTextEnd = regexp.MustCompile(`(?i)</(p|div|li|b|i|span|td|h1|em|a)>`)

func isDefault(o mk.Options) bool {
	b, _ := json.Marshal(o)
	d, _ := json.Marshal(mk.Options{})
	return string(b) == string(d)
}

func TestCampaignGenerated(t *testing.T) {
	hx.C.SetRule(rule)
	hx.C.Assume("Version 0 means the latest edition; the markers of newer syntax looked for are template literals, arrows, let/const/class, spread, binary/octal literals (2015), ** (2016), catch without binding (2019), ?. ?? bigint (2020), logical assignment and numeric separators (2021)", "KeepWhitespace is read as documented: whitespace is collapsed but a run never disappears", "the command line tool has no flags for CSS KeepCSS2, Inline and template delimiters; those are left at their defaults in the comparison")
	defer jsrun.Default.Close()
	hx.Setup("generated", 60000, 2000000)
	g0 := guards()
	rapid.Check(t, func(t *rapid.T) {
		c := genCase(t, g0)
		if c.Check == "skip" {
			hx.C.Skip("generated-serialisation-not-conforming")
			return
		}
		out, err := check(c)
		b, _ := json.Marshal(c)
		nt := false
		if err == nil && !isDefault(c.Opts) {
			if c.Check == "cli" {
				nt = out != c.Src
			} else if def, derr := minifyKind(c.Kind, mk.Options{}, c.Src); derr == nil && def != out {
				nt = true
			}
		}
		cls := []string{"check:" + c.Check, "kind:" + c.Kind}
		if c.CLIType != "" {
			cls = append(cls, "cli-template-type:"+c.CLIType)
		}
		hx.C.Case(hx.Hash(string(b)), nt, cls...)
		if nt && len(c.Src) < 300 {
			hx.C.Sample(len(c.Src), c)
		}
		if err != nil && strings.HasPrefix(err.Error(), "HARNESS:") {
			t.Fatalf("%v", err)
		}
		hx.KnownOrFail(t, "generated", c, err, func() string { return matchKnown(c, err) })
	})
}

func matchKnown(c Case, err error) string {
	if err == nil {
		return ""
	}
	// names kept: a block after if(..){..}else{..jump} is dissolved into the enclosing scope with its let/const/class
	if c.Check == "js-version" && c.Opts.JSKeepVars && strings.Contains(err.Error(), "rejected by V8") && strings.Contains(err.Error(), "has already been declared") && strings.Contains(c.Src, "else") {
		return "C16-else-unscope-keepnames"
	}
	return ""
}

func TestReplay(t *testing.T) {
	defer jsrun.Default.Close()
	hx.ReplayTest(t, func(f hx.Failure) error {
		var c Case
		if err := json.Unmarshal(f.Case, &c); err != nil {
			return err
		}
		_, err := check(c)
		return err
	})
}
