package c10

import (
	"strings"

	"pgregory.net/rapid"
)

// jsSoup draws small JS programs from an expression grammar whose leaves are identifiers, numbers and string / template
// literals over the characters the literal rewriting looks at (quotes, $ { }, backslash escapes, line continuations),
// with redundant parentheses at every level. Most of them parse; all of them are in the domain of C10.

var soupChars = []string{"a", "b", " ", "$", "{", "}", "${", "${a}", "\\\n", "\\n", "\\r\\n", "\"", "'", "`", "\\\\", "\\u0041", "\\x41", "\\0", "\\u{1F600}", "\\'", "\\\"", "\\`", "\\$", "</script>", "<!--", "\\", "\n", "\u2028"}

func soupString(t *rapid.T) string {
	q := rapid.SampledFrom([]string{"\"", "'", "`", "`"}).Draw(t, "sq")
	n := rapid.IntRange(0, 6).Draw(t, "sn")
	var sb strings.Builder
	sb.WriteString(q)
	for i := 0; i < n; i++ {
		c := rapid.SampledFrom(soupChars).Draw(t, "sc")
		if c == q && rapid.IntRange(0, 9).Draw(t, "sesc") != 0 {
			c = "\\" + c
		}
		if c == "\n" && q != "`" && rapid.IntRange(0, 9).Draw(t, "snl") != 0 {
			c = "\\n"
		}
		sb.WriteString(c)
	}
	sb.WriteString(q)
	return sb.String()
}

func soupExpr(t *rapid.T, d int) string {
	k := rapid.IntRange(0, 12).Draw(t, "ek")
	if d <= 0 && k > 3 {
		k %= 4
	}
	switch k {
	case 0:
		return rapid.SampledFrom([]string{"a", "b", "c", "x.y", "f()", "this", "null", "undefined", "!0", "void 0"}).Draw(t, "eid")
	case 1:
		return rapid.SampledFrom([]string{"0", "1", "2", "1e3", ".5", "0x10", "1n", "-1", "NaN", "Infinity"}).Draw(t, "enum")
	case 2, 3:
		return soupString(t)
	case 4, 5:
		return "(" + soupExpr(t, d-1) + ")"
	case 6:
		return rapid.SampledFrom([]string{"!", "!", "-", "+", "~", "typeof ", "void ", "!!", "await "}).Draw(t, "eun") + soupExpr(t, d-1)
	case 7, 8, 9:
		op := rapid.SampledFrom([]string{"==", "!=", "===", "!==", "||", "&&", "??", "+", "-", "<", ">=", ",", "in", "instanceof", "**", "=", "||=", "&", "|"}).Draw(t, "eop")
		if op == "in" || op == "instanceof" {
			op = " " + op + " "
		}
		return soupExpr(t, d-1) + op + soupExpr(t, d-1)
	case 10:
		return soupExpr(t, d-1) + "?" + soupExpr(t, d-1) + ":" + soupExpr(t, d-1)
	case 12:
		// the negation of a logical expression over comparisons (De Morgan rewriting), operands with and without parentheses
		opnd := func() string {
			e := soupExpr(t, 0) + rapid.SampledFrom([]string{"==", "!=", "===", "!==", "<", ">="}).Draw(t, "ecmp") + soupExpr(t, 0)
			if rapid.Bool().Draw(t, "egrp") {
				e = "(" + e + ")"
			}
			if rapid.IntRange(0, 3).Draw(t, "eplain") == 0 {
				e = soupExpr(t, d-1)
			}
			return e
		}
		return "!(" + opnd() + rapid.SampledFrom([]string{"||", "&&", "??"}).Draw(t, "elog") + opnd() + ")"
	default:
		return rapid.SampledFrom([]string{"f", "a.b", "String.raw", "x?.y", "new F"}).Draw(t, "ecallee") + "(" + soupExpr(t, d-1) + ")"
	}
}

func jsSoup(t *rapid.T) []byte {
	n := rapid.IntRange(1, 4).Draw(t, "soupstmts")
	var sb strings.Builder
	for i := 0; i < n; i++ {
		e := soupExpr(t, rapid.IntRange(1, 4).Draw(t, "soupdepth"))
		switch rapid.IntRange(0, 8).Draw(t, "soupstmt") {
		case 0:
			sb.WriteString("x=" + e + ";")
		case 1:
			sb.WriteString("function f(a,b){return " + e + "}")
		case 2:
			sb.WriteString("while(" + e + ");")
		case 3:
			sb.WriteString("if(" + e + ")a();else b();")
		case 4:
			sb.WriteString("var v=" + e + ",w=" + soupExpr(t, 1) + ";")
		case 5:
			sb.WriteString("for(var i=" + e + ";i<2;i++)c();")
		case 6:
			sb.WriteString("y=a=>" + e + ";")
		case 7:
			sb.WriteString("switch(" + e + "){case " + soupExpr(t, 1) + ":break}")
		default:
			sb.WriteString(e + "\n")
		}
	}
	return []byte(sb.String())
}
