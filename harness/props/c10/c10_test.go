package c10

import (
	"bytes"
	"encoding/json"
	"errors"
	"fmt"
	"math"
	"os"
	"path/filepath"
	"runtime"
	"runtime/debug"
	"sort"
	"strings"
	"testing"
	"time"

	"github.com/tdewolff/minify/v2"
	"github.com/tdewolff/minify/v2/svg"
	"github.com/tdewolff/parse/v2"
	"pgregory.net/rapid"

	"verifharness/gen/mutate"
	"verifharness/gen/seeds"
	"verifharness/hx"
	"verifharness/mk"
)

func TestMain(m *testing.M) {
	// recursion that grows with the nesting of the input overflows the default 1 GB stack only on inputs of several
	// megabytes; with a 64 MB stack the same defect shows on inputs of a few hundred kilobytes. Bounded recursion (the
	// minifiers limit nesting to a few hundred levels) stays far below it.
	debug.SetMaxStack(64 << 20)
	hx.Main(m)
}

type Case struct {
	Target   string            `json:"target"` // js html css svg xml json | Number Decimal Mediatype DataURI PathData UpdateErrorPosition
	Input    string            `json:"input"`  // may be arbitrary bytes (JSON escapes keep them when valid UTF-8; otherwise InputB64)
	InputH   string            `json:"input_hex,omitempty"`
	Opts     mk.Options        `json:"opts"`
	Params   map[string]string `json:"params,omitempty"`
	Prec     int               `json:"prec,omitempty"`
	Entry    string            `json:"entry"` // Minify Bytes String
	ExtraCap bool              `json:"extra_cap,omitempty"`
	Family   string            `json:"family,omitempty"` // for generated hostile families: name and size
	Size     int               `json:"size,omitempty"`
}

const rule = "cases = (target minifier or exported helper, arbitrary byte string: repository snippets mutated/truncated/spliced with hostile constants, JS programs from an expression grammar with redundant parentheses and string/template literals over quotes, $ { }, escapes and line continuations, random bytes, invalid UTF-8, NUL, deep-nesting and huge-token families; all option combinations incl. extreme precisions, arbitrary versions, odd template delimiters; entry Minify/Bytes/String); oracle = the call returns (panic, runtime fatal error, hang beyond the guard are violations), Bytes/String return data byte-equal to a pristine copy on error and leave the caller's slice untouched; time: scaling relation t(4n)/t(n) on generated families; non-trivial = an error was returned or the output differs from the input; distinct by hash of the whole case"

func (c *Case) bytes() []byte {
	if c.InputH != "" {
		b := make([]byte, len(c.InputH)/2)
		fmt.Sscanf(c.InputH, "%x", &b)
		return b
	}
	if c.Family != "" && c.Input == "" {
		return []byte(family(c.Family, c.Size))
	}
	return []byte(c.Input)
}

func setInput(c *Case, b []byte) {
	if json.Valid([]byte(`"`+strings.ToValidUTF8(string(b), "")+`"`)) && strings.ToValidUTF8(string(b), "�") == string(b) && !bytes.ContainsRune(b, '�') {
		c.Input = string(b)
		return
	}
	c.InputH = fmt.Sprintf("%x", b)
}

// check runs one case; (out, err) of the target are returned for classification,
// verr is the violation (nil if the property held).
func check(c Case) (changed bool, gotErr bool, verr error) {
	defer func() {
		if r := recover(); r != nil {
			buf := make([]byte, 4096)
			buf = buf[:runtime.Stack(buf, false)]
			verr = fmt.Errorf("panic: %v\n%s", r, buf)
		}
	}()
	in := c.bytes()
	pristine := append([]byte{}, in...)
	work := append([]byte{}, in...)
	if c.ExtraCap {
		// spare capacity: parse.Input then writes its NUL sentinel into the caller's array
		w2 := make([]byte, len(in), len(in)+8)
		copy(w2, in)
		for i := len(in); i < cap(w2); i++ {
			w2[:cap(w2)][i] = 0xA5
		}
		work = w2
	}
	switch c.Target {
	case "js", "html", "css", "svg", "xml", "json":
		m := mk.Full(c.Opts.Build())
		mt := seeds.Mediatype[c.Target]
		if len(c.Params) > 0 {
			keys := make([]string, 0, len(c.Params))
			for k := range c.Params {
				keys = append(keys, k)
			}
			sort.Strings(keys)
			for _, k := range keys {
				mt += ";" + k + "=" + c.Params[k]
			}
		}
		switch c.Entry {
		case "Bytes":
			out, err := m.Bytes(mt, work)
			if err != nil {
				if !bytes.Equal(out, pristine) {
					return true, true, fmt.Errorf("Bytes returned an error (%v) but not the original data:\n got: %q\nwant: %q", firstLine(err), clip(out), clip(pristine))
				}
				if !bytes.Equal(work[:len(pristine)], pristine) {
					return true, true, fmt.Errorf("Bytes returned an error (%v) and modified the caller's slice:\n now: %q\n was: %q", firstLine(err), clip(work), clip(pristine))
				}
				return false, true, nil
			}
			return !bytes.Equal(out, pristine), false, nil
		case "String":
			s := string(pristine)
			out, err := m.String(mt, s)
			if err != nil {
				if out != string(pristine) {
					return true, true, fmt.Errorf("String returned an error (%v) but not the original string", firstLine(err))
				}
				return false, true, nil
			}
			return out != s, false, nil
		default:
			out, err := mk.RunM(m, mt, work)
			if mk.IsPanic(err) {
				return true, true, err
			}
			return !bytes.Equal(out, pristine), err != nil, nil
		}
	case "Number":
		out := minify.Number(work, c.Prec)
		return !bytes.Equal(out, pristine), false, nil
	case "Decimal":
		out := minify.Decimal(work, c.Prec)
		return !bytes.Equal(out, pristine), false, nil
	case "Mediatype":
		out := minify.Mediatype(work)
		return !bytes.Equal(out, pristine), false, nil
	case "DataURI":
		m := mk.Full(c.Opts.Build())
		out := minify.DataURI(m, work)
		return !bytes.Equal(out, pristine), false, nil
	case "PathData":
		p := svg.NewPathData(&svg.Minifier{Precision: c.Prec})
		out := p.ShortenPathData(work)
		return !bytes.Equal(out, pristine), false, nil
	case "UpdateErrorPosition":
		z := parse.NewInputBytes(work)
		perr := parse.NewErrorLexer(z, "verif")
		e1 := minify.UpdateErrorPosition(perr, parse.NewInputBytes(append([]byte("0123456789\nabc"), pristine...)), c.Prec)
		e2 := minify.UpdateErrorPosition(errors.New("plain"), z, c.Prec)
		_ = e1
		return false, e2 != nil, nil
	}
	return false, false, fmt.Errorf("unknown target %q", c.Target)
}

func firstLine(err error) string {
	s := err.Error()
	if i := strings.IndexByte(s, '\n'); i >= 0 {
		s = s[:i]
	}
	return s
}

func clip(b []byte) string {
	if len(b) > 300 {
		return string(b[:300]) + "..."
	}
	return string(b)
}

var minifierTargets = []string{"js", "html", "css", "svg", "xml", "json"}
var helperTargets = []string{"Number", "Decimal", "Mediatype", "DataURI", "PathData", "UpdateErrorPosition"}

func genInput(t *rapid.T, kind string) []byte {
	base := kind
	if _, ok := seeds.Mediatype[kind]; !ok {
		base = rapid.SampledFrom(seeds.Kinds).Draw(t, "basekind")
	}
	switch rapid.IntRange(0, 10).Draw(t, "src") {
	case 9:
		if kind == "js" {
			return jsSoup(t)
		}
		if kind == "html" && rapid.Bool().Draw(t, "soupinhtml") {
			return []byte("<p onclick=\"" + strings.ReplaceAll(string(jsSoup(t)), "\"", "&quot;") + "\">x</p><script>" + string(jsSoup(t)) + "</script>")
		}
		other := seeds.Doc(t, rapid.SampledFrom(seeds.Kinds).Draw(t, "splicekind"))
		return []byte(mutate.Mutate(t, seeds.Doc(t, base), other, 4))
	case 10:
		if b := boundaryDoc(t, kind); b != nil {
			return b
		}
		return rapid.SliceOfN(rapid.Byte(), 0, 64).Draw(t, "rand")
	case 0:
		return rapid.SliceOfN(rapid.Byte(), 0, 64).Draw(t, "rand")
	case 1:
		return []byte(seeds.Doc(t, base))
	case 2: // invalid UTF-8 / NUL sprinkled into a document
		d := []byte(seeds.Doc(t, base))
		for i := 0; i < 3 && len(d) > 0; i++ {
			d[rapid.IntRange(0, len(d)-1).Draw(t, "p")] = rapid.SampledFrom([]byte{0, 0xff, 0xc0, 0xe2, 0x80, 0xf4}).Draw(t, "bad")
		}
		return d
	case 3: // document of a different kind
		return []byte(seeds.Doc(t, rapid.SampledFrom(seeds.Kinds).Draw(t, "otherkind")))
	default:
		other := seeds.Doc(t, rapid.SampledFrom(seeds.Kinds).Draw(t, "splicekind"))
		return []byte(mutate.Mutate(t, seeds.Doc(t, base), other, 4))
	}
}

// keywords the minifiers compare prefixes of values with; every truncation of them is a length boundary of that code
var boundaryWords = []string{"https://a", "http://a", "data:text/css;base64,YXt9", "data:,a", "javascript:a()", "text/javascript", "text/css;charset=utf-8", "utf-8", "text/html; charset=utf-8", "module", "application/ld+json", "stylesheet", "content-type", "url(a)", "rgba(0,0,0,0)", "progid:DXImageTransform.Microsoft.Alpha(Opacity=50)", "U+0-7F", "!important", "local(a)", "calc(1px + 2px)", "var(--a)", "<![CDATA[a]]>", "<!--[if IE]>a<![endif]-->", "<!DOCTYPE html>", "</script>", "&amp;", "&#x26;", "&#38;", "M0 0L1 1z", "1e309", "xMidYMid meet"}

// boundaryWord is a keyword cut at any length, optionally with another case and a trailing character
func boundaryWord(t *rapid.T) string {
	w := rapid.SampledFrom(boundaryWords).Draw(t, "bword")
	w = w[:rapid.IntRange(0, len(w)).Draw(t, "bcut")]
	switch rapid.IntRange(0, 5).Draw(t, "bcase") {
	case 0:
		w = strings.ToUpper(w)
	case 1:
		w += rapid.SampledFrom([]string{":", ";", " ", "(", "/", "\"", "=", "\x00", "s", "#"}).Draw(t, "btail")
	}
	return w
}

// boundaryDoc puts such words where the minifiers look at them: attribute values, types, declaration values, text
func boundaryDoc(t *rapid.T, kind string) []byte {
	w := boundaryWord(t)
	q := rapid.SampledFrom([]string{"\"", "'", ""}).Draw(t, "bquote")
	switch kind {
	case "html":
		tag := rapid.SampledFrom([]string{"a", "img", "script", "style", "link", "meta", "form", "input", "iframe", "object", "svg", "div", "button"}).Draw(t, "btag")
		attr := rapid.SampledFrom([]string{"href", "src", "action", "type", "content", "rel", "charset", "http-equiv", "style", "onclick", "media", "lang", "value", "name", "data", "xmlns", "srcset", "method", "formaction", "class"}).Draw(t, "battr")
		w2 := ""
		if rapid.Bool().Draw(t, "btwo") {
			w2 = " " + rapid.SampledFrom([]string{"content", "type", "href", "rel", "src"}).Draw(t, "battr2") + "=" + q + boundaryWord(t) + q
		}
		return []byte("<" + tag + " " + attr + "=" + q + w + q + w2 + ">" + boundaryWord(t) + "</" + tag + ">")
	case "css":
		prop := rapid.SampledFrom([]string{"background", "color", "font", "filter", "src", "unicode-range", "margin", "content", "width", "transform", "grid-template-columns", "--x"}).Draw(t, "bprop")
		switch rapid.IntRange(0, 3).Draw(t, "bcssform") {
		case 0:
			return []byte("@import " + w + ";a{b:c}")
		case 1:
			return []byte("@" + w + " x{a{b:c}}")
		case 2:
			return []byte("a[b=" + q + w + q + "]{" + prop + ":" + boundaryWord(t) + "}")
		}
		return []byte("a{" + prop + ":" + w + " " + boundaryWord(t) + "}")
	case "svg", "xml":
		attr := rapid.SampledFrom([]string{"d", "points", "style", "fill", "viewBox", "xlink:href", "href", "transform", "preserveAspectRatio", "version", "x", "type", "xml:space"}).Draw(t, "bxattr")
		if q == "" {
			q = "\""
		}
		return []byte("<svg xmlns=\"http://www.w3.org/2000/svg\" " + attr + "=" + q + w + q + "><path " + attr + "=" + q + boundaryWord(t) + q + "/><style>" + boundaryWord(t) + "</style>" + boundaryWord(t) + "</svg>")
	case "js":
		return []byte("x=" + q + w + q + ";" + boundaryWord(t))
	case "json":
		return []byte("{\"a\":" + w + ",\"b\":\"" + boundaryWord(t) + "\"}")
	}
	return nil
}

func helperInput(t *rapid.T, target string) []byte {
	switch target {
	case "Number", "Decimal":
		if rapid.Bool().Draw(t, "numlike") {
			return []byte(rapid.StringMatching(`[+-]?[0-9]{0,6}\.?[0-9]{0,6}([eE][+-]?[0-9]{0,20})?`).Draw(t, "num"))
		}
		return []byte(rapid.StringOfN(rapid.RuneFrom([]rune("0123456789.+-eE xn_,")), 0, 24, -1).Draw(t, "numgarbage"))
	case "Mediatype":
		return []byte(rapid.StringOfN(rapid.RuneFrom([]rune("text/HTML;charset=\"UTF-8 x\" \t\n;=*+a")), 0, 40, -1).Draw(t, "mt"))
	case "DataURI":
		if rapid.Bool().Draw(t, "fromtests") {
			f := seeds.Files("data-uri", 4096)
			if len(f) > 0 {
				return []byte(mutate.Mutate(t, string(f[rapid.IntRange(0, len(f)-1).Draw(t, "f")].Data), "data:text/css;base64,YXt9", 3))
			}
		}
		return []byte("data:" + rapid.StringOfN(rapid.RuneFrom([]rune("text/css;base64,charset=us-ascii%2 FaAzZ09+/=<>{}: \x00é")), 0, 60, -1).Draw(t, "uri"))
	case "PathData":
		return []byte(rapid.StringOfN(rapid.RuneFrom([]rune("MmLlHhVvCcSsQqTtAaZz0123456789.,-+eE \n\tx")), 0, 60, -1).Draw(t, "path"))
	}
	return rapid.SliceOfN(rapid.Byte(), 0, 32).Draw(t, "bytes")
}

func genCase(t *rapid.T) Case {
	c := Case{}
	if rapid.IntRange(0, 4).Draw(t, "helper") == 0 {
		c.Target = rapid.SampledFrom(helperTargets).Draw(t, "helpertarget")
		setInput(&c, helperInput(t, c.Target))
		c.Prec = rapid.SampledFrom([]int{0, 1, 2, 5, 17, -1, 1000000000, -1000000000, math.MaxInt, math.MaxInt - 1, math.MinInt, math.MaxInt32, math.MinInt32}).Draw(t, "prec")
		if c.Target == "UpdateErrorPosition" {
			c.Prec = rapid.IntRange(-3, 40).Draw(t, "offset")
		}
		if c.Target == "DataURI" {
			c.Opts = mk.GenOptions(t, true)
		}
		return c
	}
	c.Target = rapid.SampledFrom(minifierTargets).Draw(t, "target")
	setInput(&c, genInput(t, c.Target))
	c.Opts = mk.GenOptions(t, true)
	c.Entry = rapid.SampledFrom([]string{"Minify", "Bytes", "Bytes", "String"}).Draw(t, "entry")
	c.ExtraCap = rapid.Bool().Draw(t, "extracap")
	if rapid.IntRange(0, 3).Draw(t, "inlineparam") == 0 {
		c.Params = map[string]string{"inline": rapid.SampledFrom([]string{"1", "0", ""}).Draw(t, "inlineval")}
	}
	return c
}

func record(c Case, changed, gotErr bool) {
	b, _ := json.Marshal(c)
	cls := []string{"target:" + c.Target}
	if gotErr {
		cls = append(cls, "returned-error")
	} else {
		cls = append(cls, "returned-ok")
	}
	if c.Entry != "" {
		cls = append(cls, "entry:"+c.Entry)
	}
	hx.C.Case(hx.Hash(string(b)), changed || gotErr, cls...)
	if (changed || gotErr) && len(b) < 500 {
		hx.C.Sample(len(b), c)
	}
}

func TestCampaignArbitrary(t *testing.T) {
	hx.C.SetRule(rule)
	hx.StartWatchdog(90 * time.Second)
	hx.Setup("arbitrary", 1600000, 30000000)
	rapid.Check(t, func(t *rapid.T) {
		c := genCase(t)
		hx.InFlight("arbitrary", c)
		changed, gotErr, verr := check(c)
		hx.Idle()
		record(c, changed, gotErr)
		hx.KnownOrFail(t, "arbitrary", c, verr, func() string { return matchKnown(c, verr) })
	})
}

// ---------------------------------------------------------------------------
// hostile families: deep nesting / long tokens / long repetition, sized n bytes

var families = map[string][]string{
	"js":   {"paren", "bracket", "brace-block", "object", "arrow", "unary", "ternary", "binary-left", "template-nest", "long-string", "long-regex", "stmts", "long-ident", "comment", "call-chain", "assign-chain", "if-else-chain", "function-nest", "class-nest", "new-chain", "comma"},
	"html": {"div-open", "div-nested-closed", "attrs", "long-attr", "long-text", "comment", "svg-nest", "p-open", "table-nest", "entity-text", "entity-attr", "script-long", "b-unclosed", "lt-run"},
	"css":  {"rules", "media-nest", "paren-value", "long-ident", "selector-list", "comment", "brace-open", "long-url", "values", "important", "function-nest", "function-nest-closed", "calc-nest", "selector-fn-nest", "bracket-value", "var-nest", "at-fn-nest", "values-outline", "values-border", "values-background", "values-font", "values-shadow", "values-transition", "values-flex", "values-decoration", "values-zero", "values-color", "values-comma"},
	"svg":  {"g-nest", "path-long", "attrs", "text-long", "g-open", "entity-text", "style-long"},
	"xml":  {"open-nest", "closed-nest", "attrs", "cdata-long", "text-long", "comment", "entity-text", "entity-attr", "cdata-many", "pi-many"},
	"json": {"array-nest", "object-nest", "long-string", "numbers", "array-open"},
}

func rep(s string, n int) string {
	if n < 1 {
		n = 1
	}
	return strings.Repeat(s, n)
}

// family builds an input of about n bytes.
func family(name string, n int) string {
	kind, fam, _ := strings.Cut(name, "/")
	switch kind + "/" + fam {
	case "js/paren":
		return "a=" + rep("(", n/2) + "1" + rep(")", n/2)
	case "js/bracket":
		return "a=" + rep("[", n/2) + rep("]", n/2)
	case "js/brace-block":
		return rep("{", n/2) + rep("}", n/2)
	case "js/object":
		return "a=" + rep("{a:", n/4) + "1" + rep("}", n/4)
	case "js/arrow":
		return "a=" + rep("b=>", n/3) + "1"
	case "js/unary":
		return "a=" + rep("!", n) + "b"
	case "js/ternary":
		return "a=" + rep("b?c:", n/4) + "d"
	case "js/binary-left":
		return "a=b" + rep("+b", n/2)
	case "js/template-nest":
		return "a=" + rep("`${", n/6) + "1" + rep("}`", n/6)
	case "js/long-string":
		return "a='" + rep("x\\n", n/3) + "'"
	case "js/long-regex":
		return "a=/" + rep("[a-z]", n/5) + "/g"
	case "js/stmts":
		return rep("var a=1;b(a);", n/13)
	case "js/long-ident":
		return rep("a", n) + "=1"
	case "js/comment":
		return "/*" + rep("x", n) + "*/a"
	case "js/call-chain":
		return "a" + rep(".b()", n/4)
	case "js/assign-chain":
		return rep("a=", n/2) + "1"
	case "js/if-else-chain":
		return rep("if(a)b();else ", n/14) + "c()"
	case "js/function-nest":
		return rep("function f(){", n/14) + rep("}", n/14)
	case "js/class-nest":
		return rep("class A{m(){", n/13) + rep("}}", n/13)
	case "js/new-chain":
		return "a=" + rep("new ", n/4) + "b"
	case "js/comma":
		return "a=[" + rep("1,", n/2) + "1]"
	case "html/div-open":
		return rep("<div>", n/5)
	case "html/div-nested-closed":
		return rep("<div>", n/11) + "x" + rep("</div>", n/11)
	case "html/attrs":
		return "<a" + rep(" b=c", n/4) + ">"
	case "html/long-attr":
		return "<a b=\"" + rep("x ", n/2) + "\">"
	case "html/long-text":
		return "<p>" + rep("word ", n/5)
	case "html/comment":
		return "<!--" + rep("x", n) + "-->a"
	case "html/svg-nest":
		return rep("<svg>", n/11) + rep("</svg>", n/11)
	case "html/p-open":
		return rep("<p>a", n/4)
	case "html/table-nest":
		return rep("<table><tr><td>", n/15)
	case "html/entity-text":
		return rep("&amp;&#65;&lt", n/13)
	case "html/entity-attr":
		return "<a b=\"" + rep("&amp;&#65;", n/10) + "\">"
	case "svg/entity-text":
		return "<svg><text>" + rep("&amp;&#65;", n/10) + "</text></svg>"
	case "svg/style-long":
		return "<svg><style>" + rep("a{b:c}", n/6) + "</style></svg>"
	case "xml/entity-text":
		return "<a>" + rep("&amp;&#65;", n/10) + "</a>"
	case "xml/entity-attr":
		return "<a b=\"" + rep("&amp;&#65;", n/10) + "\"/>"
	case "xml/cdata-many":
		return "<a>" + rep("<![CDATA[x]]>", n/13) + "</a>"
	case "xml/pi-many":
		return "<a>" + rep("<?p x?>", n/7) + "</a>"
	case "html/script-long":
		return "<script>" + rep("a=1;", n/4) + "</script>"
	case "html/b-unclosed":
		return rep("<b><i>", n/6) + "x"
	case "html/lt-run":
		return rep("<", n)
	case "css/rules":
		return rep("a{b:c}", n/6)
	case "css/media-nest":
		return rep("@media x{", n/10) + "a{b:c}" + rep("}", n/10)
	case "css/paren-value":
		return "a{b:" + rep("(", n/2) + rep(")", n/2) + "}"
	case "css/function-nest":
		return "a{b:" + rep("c(", n/2) + "}"
	case "css/function-nest-closed":
		return "a{b:" + rep("c(", n/3) + "1" + rep(")", n/3) + "}"
	case "css/calc-nest":
		return "a{width:" + rep("calc(1px + ", n/12) + "1px" + rep(")", n/12) + "}"
	case "css/selector-fn-nest":
		return "a" + rep(":not(", n/6) + "b" + rep(")", n/6) + "{c:d}"
	case "css/bracket-value":
		return "a{b:" + rep("[", n/2) + rep("]", n/2) + "}"
	case "css/var-nest":
		return "a{color:" + rep("var(--x,", n/9) + "red" + rep(")", n/9) + "}"
	case "css/at-fn-nest":
		return "@supports " + rep("(not ", n/6) + "(a:b)" + rep(")", n/6) + "{a{b:c}}"
	case "css/values-outline":
		return "a{outline:" + rep("none ", n/5) + "}"
	case "css/values-border":
		return "a{border:" + rep("none ", n/5) + "}"
	case "css/values-background":
		return "a{background:" + rep("none ", n/5) + "}"
	case "css/values-font":
		return "a{font:" + rep("normal ", n/7) + "12px a}"
	case "css/values-shadow":
		return "a{box-shadow:" + rep("0 0 0 red,", n/10) + "0 0}"
	case "css/values-transition":
		return "a{transition:" + rep("all 0s ease 0s,", n/15) + "none}"
	case "css/values-flex":
		return "a{flex:" + rep("1 ", n/2) + "}"
	case "css/values-decoration":
		return "a{text-decoration:" + rep("none ", n/5) + "}"
	case "css/values-zero":
		return "a{padding:" + rep("0px ", n/4) + "}"
	case "css/values-color":
		return "a{border-color:" + rep("#ff0000 ", n/8) + "}"
	case "css/values-comma":
		return "a{font-family:" + rep("a,", n/2) + "b}"
	case "css/long-ident":
		return rep("a", n) + "{b:c}"
	case "css/selector-list":
		return rep("a,", n/2) + "b{c:d}"
	case "css/comment":
		return "/*" + rep("x", n) + "*/a{b:c}"
	case "css/brace-open":
		return rep("a{", n/2)
	case "css/long-url":
		return "a{b:url(" + rep("x", n) + ")}"
	case "css/values":
		return "a{margin:" + rep("1px ", n/4) + "}"
	case "css/important":
		return "a{" + rep("b:c!important;", n/14) + "}"
	case "svg/g-nest":
		return "<svg>" + rep("<g>", n/7) + rep("</g>", n/7) + "</svg>"
	case "svg/path-long":
		return "<svg><path d=\"M0 0" + rep("L1 2", n/4) + "\"/></svg>"
	case "svg/attrs":
		return "<svg" + rep(" a=\"b\"", n/6) + "/>"
	case "svg/text-long":
		return "<svg><text>" + rep("word ", n/5) + "</text></svg>"
	case "svg/g-open":
		return "<svg>" + rep("<g>", n/3)
	case "xml/open-nest":
		return rep("<a>", n/3)
	case "xml/closed-nest":
		return rep("<a>", n/7) + rep("</a>", n/7)
	case "xml/attrs":
		return "<a" + rep(" b=\"c\"", n/6) + "/>"
	case "xml/cdata-long":
		return "<a><![CDATA[" + rep("x<", n/2) + "]]></a>"
	case "xml/text-long":
		return "<a>" + rep("word ", n/5) + "</a>"
	case "xml/comment":
		return "<!--" + rep("x", n) + "--><a/>"
	case "json/array-nest":
		return rep("[", n/2) + rep("]", n/2)
	case "json/object-nest":
		return rep("{\"a\":", n/10) + "1" + rep("}", n/10)
	case "json/long-string":
		return "\"" + rep("x", n) + "\""
	case "json/numbers":
		return "[" + rep("1.50,", n/5) + "1]"
	case "json/array-open":
		return rep("[", n)
	}
	return ""
}

func allFamilies() []string {
	var out []string
	for _, k := range minifierTargets {
		for _, f := range families[k] {
			out = append(out, k+"/"+f)
		}
	}
	return out
}

func timeOnce(kind string, in []byte) time.Duration {
	m := mk.Full(mk.Opts{})
	start := time.Now()
	mk.RunM(m, seeds.Mediatype[kind], in)
	return time.Since(start)
}

func median(kind string, in []byte, k int) time.Duration {
	ds := make([]time.Duration, k)
	for i := range ds {
		ds[i] = timeOnce(kind, in)
	}
	sort.Slice(ds, func(i, j int) bool { return ds[i] < ds[j] })
	return ds[k/2]
}

// TestCampaignFamilies: every hostile family at several sizes must return
// (deep recursion is where a stack overflow would kill the process: the case
// in flight is on disk before the call), and run time must scale about
// linearly: t(4n)/t(n) < 10 (linear gives 4, quadratic 16), confirmed 3 times.
func TestCampaignFamilies(t *testing.T) {
	hx.C.SetRule(rule)
	hx.StartWatchdog(150 * time.Second)
	fams := allFamilies()
	sizes := []int{1 << 10, 1 << 14, 1 << 16, 1 << 18}
	if hx.Thorough() {
		sizes = append(sizes, 1<<20)
	}
	idx := 0
	for _, f := range fams {
		idx++
		if idx%hx.E.NShards != hx.E.Shard {
			continue
		}
		kind, _, _ := strings.Cut(f, "/")
		for _, n := range sizes {
			c := Case{Target: kind, Family: f, Size: n, Entry: "Minify"}
			markInflight(c)
			hx.InFlight("family", c)
			changed, gotErr, verr := check(c)
			hx.Idle()
			clearInflight()
			hx.C.Case(hx.Hash(f, fmt.Sprint(n)), changed || gotErr, "family:"+kind, fmt.Sprintf("family-size:%d", n))
			if verr != nil {
				hx.Fail(t, "family", c, "%s n=%d: %v", f, n, verr)
			}
		}
		// scaling relation
		n := 1 << 16
		small, large := []byte(family(f, n)), []byte(family(f, 4*n))
		violated := 0
		var lastRatio float64
		for attempt := 0; attempt < 3; attempt++ {
			ts, tl := median(kind, small, 5), median(kind, large, 5)
			if tl < 30*time.Millisecond { // too fast to say anything
				break
			}
			lastRatio = float64(tl) / float64(ts+1)
			if lastRatio < 10 {
				break
			}
			violated++
		}
		hx.C.Class("scaling-checked")
		if violated == 3 {
			c := Case{Target: kind, Family: f, Size: 4 * n, Entry: "Minify"}
			err := fmt.Errorf("%s: time grows super-linearly: t(4n)/t(n) = %.1f at n=%d (3 of 3 measurements, median of 5 each)", f, lastRatio, n)
			hx.KnownOrFail(t, "scaling", c, err, func() string { return matchKnownScaling(f) })
		}
	}
	if hx.E.Shard == 0 {
		hx.C.Sample(10, map[string]interface{}{"family": "js/ternary", "size": 64, "input": family("js/ternary", 64)})
		hx.C.Sample(11, map[string]interface{}{"family": "html/table-nest", "size": 64, "input": family("html/table-nest", 64)})
	}
}

// truncated prefixes: every prefix of small corpus/snippet documents
func TestCampaignTruncations(t *testing.T) {
	hx.C.SetRule(rule)
	hx.StartWatchdog(90 * time.Second)
	idx := 0
	for _, kind := range minifierTargets {
		docs := []string{}
		for _, f := range seeds.Files(kind, 8192) {
			docs = append(docs, string(f.Data))
		}
		sn := seeds.Snippets(kind)
		step := len(sn)/hx.Pick(60, 100000) + 1
		for i := 0; i < len(sn); i += step {
			docs = append(docs, sn[i])
		}
		for _, d := range docs {
			idx++
			if idx%hx.E.NShards != hx.E.Shard {
				continue
			}
			for k := 0; k <= len(d); k++ {
				c := Case{Target: kind, Entry: []string{"Minify", "Bytes"}[k%2], ExtraCap: k%3 == 0}
				setInput(&c, []byte(d[:k]))
				hx.InFlight("truncation", c)
				changed, gotErr, verr := check(c)
				hx.C.Case(hx.Hash(kind, d[:k], c.Entry), changed || gotErr, "truncation:"+kind)
				if verr != nil {
					if id := matchKnown(c, verr); id != "" && hx.IsKnown(id) {
						hx.C.Known(id)
						continue
					}
					hx.Fail(t, "truncation", c, "%v", verr)
				}
			}
			hx.Idle()
		}
	}
}

func markInflight(c Case) {
	if hx.E.Out == "" {
		return
	}
	b, _ := json.Marshal(c)
	f := hx.Failure{Property: hx.E.Prop, Check: "family", Case: b, Message: "the process died (fatal runtime error, e.g. stack overflow or out of memory) while this case was in flight"}
	fb, _ := json.MarshalIndent(f, "", " ")
	os.WriteFile(filepath.Join(hx.E.Out, fmt.Sprintf("inflight-%d-family.json", hx.E.Shard)), fb, 0o644)
}

func clearInflight() {
	if hx.E.Out != "" {
		os.Remove(filepath.Join(hx.E.Out, fmt.Sprintf("inflight-%d-family.json", hx.E.Shard)))
	}
}

func matchKnown(c Case, err error) string { return "" }

// matchKnownScaling: the quadratic tail copy of parse.replaceEntities (dependency) is
// triggered exactly by long runs of replaceable character references.
func matchKnownScaling(f string) string {
	if strings.Contains(f, "/entity-") {
		return "C10-entity-quadratic"
	}
	return ""
}

func TestReplay(t *testing.T) {
	hx.ReplayTest(t, func(f hx.Failure) error {
		if strings.HasPrefix(f.Check, "native-fuzz") {
			return replayGoFuzz(f)
		}
		var c Case
		if err := json.Unmarshal(f.Case, &c); err != nil {
			return err
		}
		if f.Check == "scaling" {
			kind, _, _ := strings.Cut(c.Family, "/")
			ts, tl := median(kind, []byte(family(c.Family, c.Size/4)), 5), median(kind, []byte(family(c.Family, c.Size)), 5)
			if r := float64(tl) / float64(ts+1); tl > 30*time.Millisecond && r >= 10 {
				return fmt.Errorf("%s: t(4n)/t(n) = %.1f", c.Family, r)
			}
			return nil
		}
		done := make(chan error, 1)
		go func() { _, _, e := check(c); done <- e }()
		select {
		case e := <-done:
			return e
		case <-time.After(150 * time.Second):
			return fmt.Errorf("hang: no return within 150s")
		}
	})
}

func replayGoFuzz(f hx.Failure) error {
	var g struct {
		GoFuzz string `json:"gofuzz"`
	}
	json.Unmarshal(f.Case, &g)
	args, err := hx.ParseGoFuzz(g.GoFuzz)
	if err != nil || len(args) < 2 {
		return fmt.Errorf("bad go fuzz file: %v", err)
	}
	target := strings.ToLower(strings.TrimPrefix(strings.TrimPrefix(f.Check, "native-fuzz:"), "Fuzz"))
	data, _ := args[0].([]byte)
	sel, _ := args[1].(int)
	return fuzzOne(target, data, uint8(sel))
}

// fuzzOne decodes (bytes, selector) into a Case: the selector picks entry point
// and an option preset, so the fuzzer reaches option-dependent code.
func fuzzOne(target string, data []byte, sel uint8) error {
	c := Case{Target: target, Entry: []string{"Minify", "Bytes", "String"}[int(sel)%3], ExtraCap: sel&4 != 0}
	o := mk.Options{}
	if sel&8 != 0 {
		o.JSKeepVars, o.HTMLKeepWhitespace, o.HTMLKeepEndTags, o.CSSKeepCSS2, o.XMLKeepWhitespace, o.JSONKeepNumbers, o.SVGKeepComments = true, true, true, true, true, true, true
	}
	if sel&16 != 0 {
		o.JSVersion, o.HTMLKeepQuotes, o.HTMLKeepDocTags, o.HTMLKeepComments = 2015, true, true, true
		o.HTMLTemplateDelims = [2]string{"{{", "}}"}
	}
	if sel&32 != 0 {
		o.JSPrecision, o.CSSPrecision, o.SVGPrecision, o.JSONPrecision = 2, 2, 2, 2
	}
	if sel&64 != 0 {
		o.CSSInline, o.SVGInline = true, true
	}
	c.Opts = o
	setInput(&c, data)
	_, _, verr := check(c)
	if verr != nil {
		if id := matchKnown(c, verr); id != "" && hx.IsKnown(id) {
			return nil
		}
	}
	return verr
}

func fuzzTarget(f *testing.F, kind string) {
	for _, s := range seeds.Snippets(kind) {
		if len(s) < 200 {
			f.Add([]byte(s), uint8(len(s)))
		}
	}
	for _, h := range mutate.Hostile {
		f.Add([]byte(h), uint8(1))
	}
	for _, fl := range seeds.Files(kind, 4096) {
		f.Add(fl.Data, uint8(0))
	}
	f.Fuzz(func(t *testing.T, data []byte, sel uint8) {
		if len(data) > 1<<16 {
			t.Skip()
		}
		if err := fuzzOne(kind, data, sel); err != nil {
			t.Fatal(err)
		}
	})
}

func FuzzJS(f *testing.F)   { fuzzTarget(f, "js") }
func FuzzHTML(f *testing.F) { fuzzTarget(f, "html") }
func FuzzCSS(f *testing.F)  { fuzzTarget(f, "css") }
func FuzzSVG(f *testing.F)  { fuzzTarget(f, "svg") }
func FuzzXML(f *testing.F)  { fuzzTarget(f, "xml") }
func FuzzJSON(f *testing.F) { fuzzTarget(f, "json") }
