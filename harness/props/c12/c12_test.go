package c12

import (
	"bytes"
	"encoding/json"
	"fmt"
	"io"
	"mime"
	"net/http"
	"net/http/httptest"
	"path"
	"runtime"
	"strings"
	"testing"
	"time"

	"github.com/tdewolff/minify/v2"
	"github.com/tdewolff/parse/v2"
	"pgregory.net/rapid"

	"verifharness/gen/seeds"
	"verifharness/hx"
	"verifharness/mk"
)

func TestMain(m *testing.M) { hx.Main(m) }

type HTTPCase struct {
	Path          string `json:"path"`  // request path (without query)
	Query         string `json:"query"` // "" or "v=1"
	ContentType   string `json:"content_type"`
	StaleLength   bool   `json:"stale_content_length"`
	ExplicitWrite bool   `json:"explicit_write_header"`
}

type Case struct {
	Kind      string    `json:"kind"`
	Mediatype string    `json:"mediatype"`
	Input     string    `json:"input"`
	Entry     string    `json:"entry"`      // Bytes String MinifyMimetype Reader Writer ResponseWriter Middleware MiddlewareWithError
	Chunks    []int     `json:"chunks"`     // sizes of consecutive chunks (cycled; 0 = empty chunk)
	ReadSizes []int     `json:"read_sizes"` // consumer buffer sizes (Reader entry)
	EOFWith   bool      `json:"eof_with_data"`
	Yield     bool      `json:"yield"`
	ReuseBuf  bool      `json:"reuse_buffer,omitempty"` // the producer refills one buffer for every Write (io.Copy, bufio, http.ServeContent do)
	HTTP      *HTTPCase `json:"http,omitempty"`
}

const rule = "cases = (input of one of the six media types incl. inputs the minifier rejects, entry point, partition of the stream into chunks incl. empty and 1-byte chunks, reader behaviour (EOF with/after data, zero-length reads), consumer read sizes, Gosched pacing; for HTTP: request path/extension/query, Content-Type with parameters or absent, stale Content-Length, explicit or implicit WriteHeader; for the writer-side entry points a producer that hands every chunk in one reused buffer and overwrites it when Write has returned); whether the middleware has to minify is decided by the plain call on the same media type (ErrNotExist or not), not by Match; oracle = byte equality (and error-text equality) with the plain m.Minify(reader->writer) call; all 2^(n-1) partitions are enumerated for inputs of <= 10 bytes; runs under the race detector; non-trivial = (>=3 chunks or a wrapper entry point) and output differs from input"

var registry = mk.Full(mk.Opts{})

// reference: the plain reader-to-writer call
func reference(mediatype string, in []byte) ([]byte, error) {
	return mk.RunM(registry, mediatype, in)
}

type chunkReader struct {
	data    []byte
	chunks  []int
	i       int
	pos     int
	eofWith bool
	yield   bool

	lastZero bool
}

func (r *chunkReader) Read(p []byte) (int, error) {
	if r.yield {
		runtime.Gosched()
	}
	if r.pos >= len(r.data) {
		return 0, io.EOF
	}
	n := len(r.data) - r.pos
	if len(r.chunks) > 0 {
		c := r.chunks[r.i%len(r.chunks)]
		r.i++
		if c == 0 && r.lastZero {
			c = 1 // a reader may return (0, nil) occasionally, never forever
		}
		r.lastZero = c == 0
		if c < n {
			n = c
		}
	}
	if n > len(p) {
		n = len(p)
	}
	copy(p, r.data[r.pos:r.pos+n])
	r.pos += n
	if r.pos >= len(r.data) && r.eofWith && n > 0 {
		return n, io.EOF
	}
	return n, nil
}

func splitChunks(in []byte, sizes []int) [][]byte {
	if len(sizes) == 0 {
		return [][]byte{in}
	}
	var out [][]byte
	pos, i := 0, 0
	zeros := 0
	for pos < len(in) {
		c := sizes[i%len(sizes)]
		i++
		if c == 0 {
			zeros++
			if zeros > len(in)+4 { // all-zero size list
				c = 1
			}
		}
		if c > len(in)-pos {
			c = len(in) - pos
		}
		out = append(out, in[pos:pos+c])
		pos += c
	}
	return out
}

func errText(e error) string {
	if e == nil {
		return "<nil>"
	}
	return e.Error()
}

func check(c Case) (out []byte, err error) {
	defer func() {
		if r := recover(); r != nil {
			err = fmt.Errorf("panic: %v", r)
		}
	}()
	in := []byte(c.Input)
	want, wantErr := reference(c.Mediatype, in)
	cmp := func(got []byte, gotErr error) error {
		if errText(gotErr) != errText(wantErr) {
			return fmt.Errorf("%s: error %q, plain call gives %q", c.Entry, errText(gotErr), errText(wantErr))
		}
		if wantErr == nil && !bytes.Equal(got, want) {
			return fmt.Errorf("%s: output differs from the plain call:\n got: %q\nwant: %q", c.Entry, clip(got), clip(want))
		}
		if wantErr != nil && got != nil && (c.Entry == "Reader" || c.Entry == "Writer" || c.Entry == "MinifyMimetype") && !bytes.Equal(got, want) {
			// the streaming entry points deliver what the minifier wrote before it failed, like the plain call
			return fmt.Errorf("%s: output in front of the error differs from the plain call:\n got: %q\nwant: %q", c.Entry, clip(got), clip(want))
		}
		return nil
	}
	priv := append([]byte{}, in...)
	switch c.Entry {
	case "Bytes":
		got, e := registry.Bytes(c.Mediatype, priv)
		if e != nil {
			return got, cmp(nil, e)
		}
		return got, cmp(got, e)
	case "String":
		got, e := registry.String(c.Mediatype, c.Input)
		return []byte(got), cmp([]byte(got), e)
	case "MinifyMimetype":
		mt, params := parse.Mediatype([]byte(c.Mediatype))
		var w bytes.Buffer
		e := registry.MinifyMimetype(mt, &w, bytes.NewReader(priv), params)
		return w.Bytes(), cmp(w.Bytes(), e)
	case "Reader":
		src := &chunkReader{data: priv, chunks: c.Chunks, eofWith: c.EOFWith, yield: c.Yield}
		mr := registry.Reader(c.Mediatype, src)
		var got bytes.Buffer
		var rerr error
		for i := 0; ; i++ {
			sz := 512
			if len(c.ReadSizes) > 0 {
				sz = c.ReadSizes[i%len(c.ReadSizes)]
			}
			if sz < 1 {
				sz = 1
			}
			buf := make([]byte, sz)
			n, e := mr.Read(buf)
			got.Write(buf[:n])
			if c.Yield {
				runtime.Gosched()
			}
			if e == io.EOF {
				break
			}
			if e != nil {
				rerr = e
				break
			}
		}
		return got.Bytes(), cmp(got.Bytes(), rerr)
	case "Writer":
		var sink bytes.Buffer
		mw := registry.Writer(c.Mediatype, &sink)
		var werr error
		prod := producer{reuse: c.ReuseBuf}
		for _, ch := range splitChunks(priv, c.Chunks) {
			_, e := mw.Write(prod.next(ch))
			prod.done()
			if e != nil {
				werr = e
				break
			}
			if c.Yield {
				runtime.Gosched()
			}
		}
		cerr := mw.Close()
		// by the time Close returns all output is in the sink and the error is known
		got := append([]byte{}, sink.Bytes()...)
		if cerr == nil && werr != nil {
			return got, fmt.Errorf("Writer: Write failed with %v but Close returned nil", werr)
		}
		if e := cmp(got, cerr); e != nil {
			return got, e
		}
		if e2 := mw.Close(); e2 != nil && wantErr == nil {
			return got, fmt.Errorf("Writer: second Close returned %v", e2)
		}
		return got, nil
	case "ResponseWriter", "Middleware", "MiddlewareWithError":
		return checkHTTP(c, in, want, wantErr)
	}
	return nil, fmt.Errorf("unknown entry %q", c.Entry)
}

func checkHTTP(c Case, in, _ []byte, _ error) ([]byte, error) {
	h := c.HTTP
	uri := h.Path
	if h.Query != "" {
		uri += "?" + h.Query
	}
	req := httptest.NewRequest("GET", "http://example.test"+uri, nil) // sets URL and RequestURI like a server does
	req.RequestURI = uri
	rec := httptest.NewRecorder()
	handler := http.HandlerFunc(func(w http.ResponseWriter, r *http.Request) {
		if h.ContentType != "" {
			w.Header().Set("Content-Type", h.ContentType)
		}
		if h.StaleLength {
			w.Header().Set("Content-Length", fmt.Sprint(len(in)))
		}
		if h.ExplicitWrite {
			w.WriteHeader(http.StatusOK)
		}
		prod := producer{reuse: c.ReuseBuf}
		for _, ch := range splitChunks(in, c.Chunks) {
			w.Write(prod.next(ch))
			prod.done()
			if c.Yield {
				runtime.Gosched()
			}
		}
	})
	var mwErr error
	switch c.Entry {
	case "ResponseWriter":
		mw := registry.ResponseWriter(rec, req)
		handler(mw, req)
		mwErr = mw.Close()
	case "Middleware":
		registry.Middleware(handler).ServeHTTP(rec, req)
	case "MiddlewareWithError":
		registry.MiddlewareWithError(handler, func(w http.ResponseWriter, r *http.Request, err error) { mwErr = err }).ServeHTTP(rec, req)
	}
	got := rec.Body.Bytes()
	// expected media type: Content-Type, else the extension of the request *path*
	mt := h.ContentType
	if mt == "" {
		mt = mime.TypeByExtension(path.Ext(h.Path))
	}
	// whether a minifier serves the type is decided by the plain call (it reports ErrNotExist), not by Match, which is
	// the function the middleware itself uses
	_, refErr := reference(mt, nil)
	if refErr == minify.ErrNotExist {
		if !bytes.Equal(got, in) {
			return got, fmt.Errorf("%s: no minifier for %q: body must pass through unchanged, got %q", c.Entry, mt, clip(got))
		}
		return got, nil
	}
	want, wantErr := reference(mt, in)
	if c.Entry != "Middleware" && errText(mwErr) != errText(wantErr) {
		return got, fmt.Errorf("%s: error %q, plain call gives %q", c.Entry, errText(mwErr), errText(wantErr))
	}
	if wantErr == nil && !bytes.Equal(got, want) {
		return got, fmt.Errorf("%s (type %q from %s): body differs from the plain call:\n got: %q\nwant: %q", c.Entry, mt, map[bool]string{true: "Content-Type", false: "path extension"}[h.ContentType != ""], clip(got), clip(want))
	}
	if wantErr == nil && h.StaleLength && !bytes.Equal(want, in) && rec.Header().Get("Content-Length") != "" {
		return got, fmt.Errorf("%s: stale Content-Length %q survived (body is %d bytes)", c.Entry, rec.Header().Get("Content-Length"), len(got))
	}
	return got, nil
}

// producer hands out the chunks of a response the way io.Copy or a bufio.Writer does: with reuse set, every chunk is
// copied into one buffer, and the buffer is overwritten as soon as Write has returned (io.Writer: "Write must not
// retain p")
type producer struct {
	reuse bool
	buf   []byte
	last  []byte
}

func (p *producer) next(ch []byte) []byte {
	if !p.reuse {
		return append([]byte{}, ch...)
	}
	if cap(p.buf) < len(ch) {
		p.buf = make([]byte, len(ch), 2*len(ch)+16)
	}
	p.last = p.buf[:len(ch)]
	copy(p.last, ch)
	return p.last
}

func (p *producer) done() {
	for i := range p.last {
		p.last[i] = '#'
	}
}

func clip(b []byte) string {
	if len(b) > 400 {
		return string(b[:400]) + "..."
	}
	return string(b)
}

var mediatypeVariants = map[string][]string{
	"js":   {"application/javascript", "text/javascript", "application/javascript; charset=utf-8", "text/ecmascript"},
	"html": {"text/html", "text/html; charset=utf-8", " text/html"},
	"css":  {"text/css", "text/css;charset=UTF-8"},
	"svg":  {"image/svg+xml"},
	"xml":  {"text/xml", "application/xml", "application/rss+xml; charset=utf-8"},
	"json": {"application/json", "application/ld+json", "text/json"},
}

var exts = map[string]string{"js": ".js", "html": ".html", "css": ".css", "svg": ".svg", "xml": ".xml", "json": ".json"}

var errorInputs = map[string][]string{
	"js":   {"a = ;", "function(", "x = `abc", "if (a { }"},
	"json": {`{"a": 1.0e+2, "b": }`, `[1, 2`},
	"css":  {},
	"html": {`<script>a = ;</script>`, `<p style="color: red"><svg><path d="M0 0L1"/></svg><script>x=(</script>`},
	"svg":  {`<svg><style>a{</style><script>a = (</script></svg>`},
	"xml":  {},
}

func genCase(t *rapid.T) Case {
	kind := rapid.SampledFrom(seeds.Kinds).Draw(t, "kind")
	c := Case{Kind: kind}
	c.Mediatype = rapid.SampledFrom(mediatypeVariants[kind]).Draw(t, "mediatype")
	src := rapid.IntRange(0, 24).Draw(t, "src")
	switch {
	case src == 0 && len(errorInputs[kind]) > 0:
		c.Input = rapid.SampledFrom(errorInputs[kind]).Draw(t, "errinput")
	case src == 1:
		files := seeds.Files(kind, 70000)
		if len(files) > 0 {
			c.Input = string(files[rapid.IntRange(0, len(files)-1).Draw(t, "file")].Data)
			break
		}
		fallthrough
	default:
		c.Input = seeds.Doc(t, kind)
	}
	c.Entry = rapid.SampledFrom([]string{"Reader", "Writer", "ResponseWriter", "Middleware", "MiddlewareWithError", "Bytes", "String", "MinifyMimetype", "Reader", "Writer"}).Draw(t, "entry")
	nch := rapid.IntRange(0, 6).Draw(t, "nchunks")
	for i := 0; i < nch; i++ {
		c.Chunks = append(c.Chunks, rapid.SampledFrom([]int{1, 0, 2, 3, 7, 16, 64, 511, 4096, 1}).Draw(t, "chunk"))
	}
	nrs := rapid.IntRange(0, 4).Draw(t, "nreads")
	for i := 0; i < nrs; i++ {
		c.ReadSizes = append(c.ReadSizes, rapid.SampledFrom([]int{1, 2, 5, 64, 512, 4096}).Draw(t, "readsize"))
	}
	c.EOFWith = rapid.Bool().Draw(t, "eofwith")
	c.Yield = rapid.Bool().Draw(t, "yield")
	c.ReuseBuf = rapid.IntRange(0, 2).Draw(t, "reusebuf") == 0
	if strings.Contains(c.Entry, "Middleware") || c.Entry == "ResponseWriter" {
		h := &HTTPCase{}
		dir := rapid.SampledFrom([]string{"/", "/a/", "/a.b/c/", "/x.css/"}).Draw(t, "dir")
		ext := rapid.SampledFrom([]string{exts[kind], exts[kind], exts[kind], "", ".png", ".unknownext", ".JS"}).Draw(t, "ext")
		h.Path = dir + "file" + ext
		h.Query = rapid.SampledFrom([]string{"", "", "v=1", "a=b.c&d=e.txt"}).Draw(t, "query")
		switch rapid.IntRange(0, 3).Draw(t, "ct") {
		case 0:
			h.ContentType = ""
		case 1:
			h.ContentType = "application/octet-stream"
		default:
			h.ContentType = c.Mediatype
		}
		h.StaleLength = rapid.Bool().Draw(t, "stale")
		h.ExplicitWrite = rapid.Bool().Draw(t, "explicit")
		c.HTTP = h
	}
	return c
}

func nChunks(c Case) int {
	if len(c.Chunks) == 0 {
		return 1
	}
	return len(splitChunks([]byte(c.Input), c.Chunks))
}

func record(c Case, out []byte) {
	wrapper := c.Entry != "Bytes" && c.Entry != "String" && c.Entry != "MinifyMimetype"
	nt := (nChunks(c) >= 3 || wrapper) && string(out) != c.Input
	b, _ := json.Marshal(c)
	cls := []string{"entry:" + c.Entry, "kind:" + c.Kind}
	if nChunks(c) >= 3 {
		cls = append(cls, "chunks>=3")
	}
	if c.ReuseBuf && (c.Entry == "Writer" || c.HTTP != nil) && nChunks(c) >= 2 {
		cls = append(cls, "producer-reuses-buffer")
	}
	if c.HTTP != nil {
		if mt := c.HTTP.ContentType; strings.Contains(mt, ";") || mt == "" && (strings.HasSuffix(strings.ToLower(c.HTTP.Path), ".js") || strings.HasSuffix(c.HTTP.Path, ".xml")) {
			cls = append(cls, "http:type-with-parameters")
		}
		if c.HTTP.ContentType == "" {
			cls = append(cls, "http:no-content-type")
		}
		if c.HTTP.Query != "" {
			cls = append(cls, "http:query")
		}
		if c.HTTP.StaleLength && !c.HTTP.ExplicitWrite {
			cls = append(cls, "http:stale-length-implicit-header")
		}
	}
	hx.C.Case(hx.Hash(string(b)), nt, cls...)
	if nt && len(c.Input) < 300 {
		hx.C.Sample(len(c.Input), c)
	}
}

func TestCampaignEntryPoints(t *testing.T) {
	hx.C.SetRule(rule)
	hx.C.Assume("goroutine interleavings of producer, minifier goroutine and consumer are sampled (Gosched pacing, chunk sizes, race detector), not enumerated", "errors are compared by their text")
	hx.StartWatchdog(120 * time.Second)
	hx.Setup("entrypoints", 60000, 1500000)
	rapid.Check(t, func(t *rapid.T) {
		c := genCase(t)
		hx.InFlight("entrypoints", c)
		// a report of the race detector ends the process at once: the case in flight is on disk and becomes the replay
		clear := hx.InFlightOnDisk("entrypoints", c, "the race detector (or a fatal runtime error) ended the process while this case was running: the wrapper and its caller touch the same memory without synchronisation")
		out, err := check(c)
		clear()
		hx.Idle()
		record(c, out)
		hx.KnownOrFail(t, "entrypoints", c, err, func() string { return matchKnown(c, err) })
	})
}

var shortInputs = map[string][]string{
	"js":   {"a = 1 ;", "x = !0", "if(a){b}"},
	"html": {"<p>a </p>", "<b> c </b>"},
	"css":  {"a{b : c}", "a { }"},
	"json": {"[1, 2.0]", "{ \"a\":1}"},
	"xml":  {"<a> </a>", "<a>b </a>"},
	"svg":  {"<svg> </svg>"},
}

// all 2^(n-1) compositions of short inputs through Reader and Writer
func TestCampaignAllPartitions(t *testing.T) {
	hx.C.SetRule(rule)
	idx := 0
	for _, kind := range seeds.Kinds {
		for _, in := range shortInputs[kind] {
			n := len(in)
			if n > 10 {
				continue
			}
			for mask := 0; mask < 1<<(n-1); mask++ {
				idx++
				if idx%hx.E.NShards != hx.E.Shard {
					continue
				}
				var chunks []int
				run := 1
				for b := 0; b < n-1; b++ {
					if mask&(1<<b) != 0 {
						chunks = append(chunks, run)
						run = 1
					} else {
						run++
					}
				}
				chunks = append(chunks, run)
				for _, entry := range []string{"Reader", "Writer"} {
					c := Case{Kind: kind, Mediatype: seeds.Mediatype[kind], Input: in, Entry: entry, Chunks: chunks, EOFWith: mask%2 == 1, ReadSizes: []int{1 + mask%3}}
					out, err := check(c)
					hx.C.CaseEnum(len(chunks) >= 3 && string(out) != in)
					hx.C.Class("all-partitions:" + entry)
					if err != nil {
						hx.Fail(t, "all-partitions", c, "%v", err)
					}
				}
			}
		}
	}
	hx.C.SetExtra("all_partitions_enumerated_for_inputs_up_to_bytes", 10)
}

func matchKnown(c Case, err error) string { return "" }

func TestReplay(t *testing.T) {
	hx.ReplayTest(t, func(f hx.Failure) error {
		var c Case
		if err := json.Unmarshal(f.Case, &c); err != nil {
			return err
		}
		_, err := check(c)
		return err
	})
}

var _ = minify.ErrNotExist
