package c04

import (
	"encoding/json"
	"fmt"
	"os"
	"regexp"
	"strings"
	"testing"

	mcss "github.com/tdewolff/minify/v2/css"
	"pgregory.net/rapid"

	"verifharness/gen/cssgen"
	"verifharness/gen/seeds"
	"verifharness/hx"
	"verifharness/mk"
	"verifharness/oracle/cssval"
)

func TestMain(m *testing.M) { hx.Main(m) }

type Case struct {
	Src      string `json:"src"`
	Inline   bool   `json:"inline"`       // declaration list (style attribute)
	ViaParam bool   `json:"inline_param"` // inline through params{"inline":"1"} instead of the option
	KeepCSS2 bool   `json:"keep_css2"`
}

const rule = "cases = (stylesheet or inline declaration list drawn from per-property value grammars: margin/padding/border*/outline/background*/font*/flex*/box-shadow/text-*/colours in every notation/unicode-range/url()/strings/numbers and dimensions in every notation, custom properties, unknown declarations, !important, selectors with attribute strings and case variations, nested at-rules; KeepCSS2 on/off, inline via option or parameter); oracle = own CSS Syntax 3 tokenizer + rule parser on both sides: same rule/at-rule sequence with equivalent preludes, same declaration sequence (name, !important) and values equal under a value interpreter (exact decimals, zero-unit rules, sRGB colours with one 8-bit step tolerance for hsl/percent, shorthand expansion with initial values, position/size/repeat normal forms, family lists, unicode-range sets, decoded strings and urls); distinct by hash; non-trivial = at least one declaration value was re-spelled beyond whitespace"

func guards() map[string]bool {
	g := map[string]bool{}
	for _, f := range hx.Findings() {
		if f.Status == "known" && f.Guard != "" {
			g[f.Guard] = true
		}
	}
	return g
}

func stripWS(s string) string {
	return strings.Join(strings.Fields(s), "")
}

func check(c Case) (out string, nt bool, err error) {
	o := &mcss.Minifier{KeepCSS2: c.KeepCSS2}
	var params map[string]string
	if c.Inline {
		if c.ViaParam {
			params = map[string]string{"inline": "1"}
		} else {
			o.Inline = true
		}
	}
	b, merr := mk.Run(o, nil, []byte(c.Src), params)
	out = string(b)
	if mk.IsPanic(merr) {
		return out, false, merr
	}
	if merr != nil {
		return out, false, nil // rejected input: outside the domain (the CSS parser reports hard errors only for broken input)
	}
	if e := cssval.Compare(c.Src, out, cssval.Options{Inline: c.Inline}); e != nil {
		return out, true, fmt.Errorf("%v\n--- input:\n%s\n--- output:\n%s", e, c.Src, out)
	}
	if c.KeepCSS2 {
		// no exponent notation and no #rgba / #rrggbbaa unless present in the input
		for _, t := range cssval.Tokenize(out) {
			if (t.T == cssval.Number || t.T == cssval.Dimension || t.T == cssval.Percentage) && strings.ContainsAny(t.Val, "eE") && !strings.ContainsAny(c.Src, "eE") {
				return out, true, fmt.Errorf("KeepCSS2: exponent notation %q introduced\n--- input:\n%s\n--- output:\n%s", t.Raw, c.Src, out)
			}
		}
	}
	return out, stripWS(valuesOnly(c.Src)) != stripWS(valuesOnly(out)), nil
}

// valuesOnly: crude extraction of the text after each ':' up to ';' or '}', for the non-triviality rule
func valuesOnly(s string) string {
	var sb strings.Builder
	in := false
	for i := 0; i < len(s); i++ {
		switch s[i] {
		case ':':
			in = true
		case ';', '}', '{':
			in = false
			sb.WriteByte('|')
		default:
			if in {
				sb.WriteByte(s[i])
			}
		}
	}
	return strings.ToLower(sb.String())
}

func TestCampaignGenerated(t *testing.T) {
	hx.C.SetRule(rule)
	hx.C.Assume("the initial-value and shorthand tables in harness/oracle/cssval follow the CSS specifications named in css/css.go; where a value is not understood the comparison falls back to canonical token equality", "colours from hsl() or percentages may differ by one 8-bit step", "keywords are compared case-insensitively except in properties that take custom identifiers")
	hx.Setup("generated", 300000, 10000000)
	g0 := guards()
	rapid.Check(t, func(t *rapid.T) {
		g := &cssgen.G{T: t, Feats: map[string]int{}, Guards: g0}
		c := Case{Inline: rapid.IntRange(0, 3).Draw(t, "inline") == 0, KeepCSS2: rapid.IntRange(0, 3).Draw(t, "css2") == 0}
		if c.Inline {
			c.Src = g.DeclList(5)
			c.ViaParam = rapid.Bool().Draw(t, "viaparam")
		} else {
			c.Src = g.Stylesheet()
		}
		out, nt, err := check(c)
		cls := []string{fmt.Sprintf("inline:%v", c.Inline), fmt.Sprintf("keepcss2:%v", c.KeepCSS2)}
		for f := range g.Feats {
			if !strings.HasPrefix(f, "prop:") {
				cls = append(cls, "has:"+f)
			} else {
				cls = append(cls, f)
			}
		}
		b, _ := json.Marshal(c)
		hx.C.Case(hx.Hash(string(b)), nt && err == nil, cls...)
		if nt && len(c.Src) < 400 {
			hx.C.Sample(len(c.Src), map[string]interface{}{"src": c.Src, "inline": c.Inline, "keep_css2": c.KeepCSS2, "out": out})
		}
		hx.KnownOrFail(t, "generated", c, err, func() string { return matchKnown(c, err) })
	})
}

func TestCampaignCorpus(t *testing.T) {
	if hx.E.Shard != 0 {
		return
	}
	for _, f := range seeds.Files("css", 0) {
		for _, css2 := range []bool{false, true} {
			c := Case{Src: string(f.Data), KeepCSS2: css2}
			_, nt, err := check(c)
			hx.C.Case(hx.Hash(f.Path, fmt.Sprint(css2)), nt, "corpus")
			if err != nil {
				if id := matchKnown(c, err); id != "" && hx.IsKnown(id) {
					hx.C.Known(id)
					continue
				}
				msg := err.Error()
				if i := strings.Index(msg, "\n--- input"); i > 0 {
					msg = msg[:i]
				}
				hx.Fail(t, "corpus", map[string]interface{}{"file": f.Path, "keep_css2": css2}, "%s: %s", f.Path, msg)
			}
		}
	}
}

func TestReplay(t *testing.T) {
	hx.ReplayTest(t, func(f hx.Failure) error {
		var c Case
		if err := json.Unmarshal(f.Case, &c); err != nil {
			return err
		}
		if c.Src == "" {
			var fc struct {
				File string `json:"file"`
				CSS2 bool   `json:"keep_css2"`
			}
			json.Unmarshal(f.Case, &fc)
			b, err := os.ReadFile(fc.File)
			if err != nil {
				return nil
			}
			c = Case{Src: string(b), KeepCSS2: fc.CSS2}
		}
		_, _, err := check(c)
		return err
	})
}

var reQuotedKeywordFamily = regexp.MustCompile(`(?i)["'](serif|sans-serif|monospace|cursive|fantasy|system-ui|inherit|initial|unset|default|revert)["']`)

// matchKnown: C04-quoted-keyword-family needs a quoted font family whose name is a generic family or CSS-wide keyword.
func matchKnown(c Case, err error) string {
	if err != nil && strings.Contains(err.Error(), "value of border-color changed") && strings.Contains(err.Error(), "i:initial") && strings.Contains(strings.ToLower(c.Src), "currentcolor") {
		return "C04-border-color-initial-in-list"
	}
	if err != nil && reQuotedKeywordFamily.MatchString(c.Src) && (strings.Contains(err.Error(), "value of font changed") || strings.Contains(err.Error(), "value of font-family changed")) && strings.Contains(err.Error(), "generic:") {
		return "C04-quoted-keyword-family"
	}
	return ""
}
