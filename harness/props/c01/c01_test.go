package c01

import (
	"encoding/json"
	"fmt"
	"sort"
	"strings"
	"testing"

	"github.com/tdewolff/minify/v2"
	"github.com/tdewolff/minify/v2/js"
	"pgregory.net/rapid"

	"verifharness/gen/jsgen"
	"verifharness/hx"
	"verifharness/mk"
	"verifharness/oracle/jsrun"
)

func TestMain(m *testing.M) { hx.Main(m) }

type Case struct {
	Src      string   `json:"src"`
	Goal     string   `json:"goal"` // script | module
	Probes   []string `json:"probes,omitempty"`
	Predef   []string `json:"predef,omitempty"`
	KeepVars bool     `json:"keep_var_names"`
	Version  int      `json:"version"`
	Inline   bool     `json:"inline_param"`
	Func     bool     `json:"package_func"` // js.Minify instead of (*Minifier).Minify
}

const rule = "cases = (closed deterministic JS program drawn from a scope-aware grammar: all statement forms, operators with every parent/child precedence pairing, redundant parentheses, ASI/whitespace/comment variation, literal forms, closures, classes, destructuring, generators/async, optional chaining; goal sloppy/strict/module; KeepVarNames x Version x entry); oracle = differential execution in V8 (fresh vm context): same $-log with structurally serialised arguments, same completion, same final globals / lexical bindings / module namespace; distinct by hash of (source, configuration); non-trivial = V8 accepts the input, the log is non-empty and the minifier changed more than whitespace/semicolons (a rewrite or a rename fired)"

type result struct {
	out       string
	skipped   string
	logLines  int
	rewritten bool
}

func runMinifier(c Case) ([]byte, error) {
	var params map[string]string
	if c.Inline {
		params = map[string]string{"inline": "1"}
	}
	if c.Func {
		return mk.Run(minify.MinifierFunc(js.Minify), nil, []byte(c.Src), params)
	}
	return mk.Run(&js.Minifier{KeepVarNames: c.KeepVars, Version: c.Version}, nil, []byte(c.Src), params)
}

func stripInsignificant(s string) string {
	var sb strings.Builder
	for i := 0; i < len(s); i++ {
		switch s[i] {
		case ' ', '\t', '\n', '\r', ';':
		default:
			sb.WriteByte(s[i])
		}
	}
	return sb.String()
}

func check(c Case) (res result, err error) {
	in, e := jsrun.Default.Run(jsrun.Req{Goal: c.Goal, Src: c.Src, Probes: c.Probes, Predef: c.Predef})
	if e != nil {
		return res, fmt.Errorf("HARNESS: %v", e)
	}
	switch in.Status {
	case "syntax":
		res.skipped = "input-rejected-by-v8"
		return res, nil
	case "timeout":
		res.skipped = "input-timeout"
		return res, nil
	case "tdz":
		res.skipped = "input-tdz"
		return res, nil
	case "error":
		return res, fmt.Errorf("HARNESS: worker error: %s", in.Obs)
	}
	out, merr := runMinifier(c)
	if mk.IsPanic(merr) {
		return res, fmt.Errorf("minifier panicked: %v", merr)
	}
	if merr != nil {
		res.skipped = "input-rejected-by-minifier"
		return res, nil
	}
	res.out = string(out)
	res.logLines = strings.Count(in.Obs, "\n  ")
	res.rewritten = stripInsignificant(c.Src) != stripInsignificant(res.out)
	o, e := jsrun.Default.RunPatient(jsrun.Req{Goal: c.Goal, Src: res.out, Probes: c.Probes, Predef: c.Predef})
	if e != nil {
		return res, fmt.Errorf("HARNESS: %v", e)
	}
	switch o.Status {
	case "syntax":
		return res, fmt.Errorf("minified text is rejected by V8 (%s)\n--- input:\n%s\n--- output:\n%s", o.Obs, c.Src, res.out)
	case "timeout":
		return res, fmt.Errorf("minified text does not terminate within the time limit although the input does\n--- input:\n%s\n--- output:\n%s", c.Src, res.out)
	case "error":
		return res, fmt.Errorf("HARNESS: worker error: %s", o.Obs)
	}
	if in.Obs != o.Obs {
		return res, fmt.Errorf("behaviour differs\n--- input:\n%s\n--- output:\n%s\n--- observed (input):\n%s\n--- observed (output):\n%s", c.Src, res.out, in.Obs, o.Obs)
	}
	return res, nil
}

var versions = []int{0, 0, 0, 2022, 2021, 2020, 2019, 2018, 2017, 2016, 2015, 5}

func genCase(t *rapid.T) (Case, jsgen.Program) {
	goal := rapid.SampledFrom([]string{"sloppy", "sloppy", "strict", "module"}).Draw(t, "goal")
	p := jsgen.Gen(t, jsgen.Config{Goal: goal, MaxStmts: 10, Guards: guards()})
	c := Case{Src: p.Src, Goal: p.Goal, Probes: p.Probes, Predef: p.Predef}
	c.KeepVars = rapid.IntRange(0, 3).Draw(t, "keepvars") == 0
	c.Version = rapid.SampledFrom(versions).Draw(t, "version")
	c.Inline = rapid.IntRange(0, 9).Draw(t, "inline") == 0
	c.Func = rapid.IntRange(0, 9).Draw(t, "pkgfunc") == 0
	return c, p
}

func guards() map[string]bool {
	g := map[string]bool{}
	for _, f := range hx.Findings() {
		if f.Status == "known" && f.Guard != "" {
			g[f.Guard] = true
		}
	}
	return g
}

func record(c Case, p jsgen.Program, res result) {
	if res.skipped != "" {
		hx.C.Skip(res.skipped)
	}
	nt := res.skipped == "" && res.logLines >= 1 && res.rewritten
	cls := []string{"goal:" + c.Goal, fmt.Sprintf("version:%d", c.Version), fmt.Sprintf("keepvars:%v", c.KeepVars)}
	feats := make([]string, 0, len(p.Feats))
	for f := range p.Feats {
		feats = append(feats, f)
	}
	sort.Strings(feats)
	for _, f := range feats {
		cls = append(cls, "has:"+f)
	}
	b, _ := json.Marshal(c)
	hx.C.Case(hx.Hash(string(b)), nt, cls...)
	if nt {
		hx.C.Sample(len(c.Src), map[string]interface{}{"src": c.Src, "goal": c.Goal, "keep_var_names": c.KeepVars, "version": c.Version, "out": res.out})
	}
}

func TestCampaignPrograms(t *testing.T) {
	hx.C.SetRule(rule)
	hx.C.Assume("V8 (node's vm module) is the semantic reference", "reflection the property excludes is neutralised in the context prelude (Function.prototype.toString, RegExp source/toString, stack traces, engine error messages)", "a V8 timeout (400 ms) on the input drops the case; on the output only it is a violation")
	defer jsrun.Default.Close()
	hx.Setup("programs", 40000, 1500000)
	rapid.Check(t, func(t *rapid.T) {
		c, p := genCase(t)
		res, err := check(c)
		record(c, p, res)
		if err != nil && strings.HasPrefix(err.Error(), "HARNESS:") {
			t.Fatalf("%v", err) // not a property violation: the driver reports this shard as inconclusive
		}
		hx.KnownOrFail(t, "programs", c, err, func() string { return matchKnown(c, res, err) })
	})
	hx.C.AddExtra("node_worker_restarts", int64(jsrun.Default.Deaths))
}

func TestReplay(t *testing.T) {
	defer jsrun.Default.Close()
	hx.ReplayTest(t, func(f hx.Failure) error {
		var c Case
		if err := json.Unmarshal(f.Case, &c); err != nil {
			return err
		}
		res, err := check(c)
		if res.skipped != "" {
			return fmt.Errorf("replay case is outside the domain: %s", res.skipped)
		}
		return err
	})
}
