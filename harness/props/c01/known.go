package c01

import (
	"regexp"
	"strings"
)

var (
	reWith            = regexp.MustCompile(`\bwith\s*(/\*.*?\*/\s*)*\(`)
	reElse            = regexp.MustCompile(`\belse\b`)
	reJump            = regexp.MustCompile(`\b(break|continue|return|throw)\b`)
	reLexical         = regexp.MustCompile(`\b(let|const|class|function)\b`)
	reReturnUndefined = regexp.MustCompile(`\breturn\s*\(?\s*(undefined|void 0)\b`)
	reFoldedString    = regexp.MustCompile(`[{;]\s*\(*\s*(["'][^"'\\\n]*["']\s*\+\s*["'][^"'\\\n]*["']|[01]\s*\?\s*["'][^"'\\\n]*["']\s*:\s*[^;]*)\s*\)*\s*;`)
	reProtoSameName   = regexp.MustCompile(`__proto__(\s|/\*.*?\*/|//[^\n]*\n)*:(\s|/\*.*?\*/|//[^\n]*\n)*__proto__`)
)

// deepOptionalGroupMember reports a parenthesised optional chain whose optional link is not the last one, followed
// by a plain member access: (a?.b.c).d
func deepOptionalGroupMember(src string) bool {
	for i := 0; i+1 < len(src); i++ {
		if src[i] != '?' || src[i+1] != '.' {
			continue
		}
		depth, more := 0, false
	scan:
		for j := i + 2; j < len(src); j++ {
			switch src[j] {
			case '(', '[', '{':
				if depth == 0 {
					more = true
				}
				depth++
			case ']', '}':
				depth--
				if depth < 0 {
					break scan
				}
			case '.':
				if depth == 0 && j > i+2 {
					more = true
				}
			case ')':
				if depth == 0 {
					rest := strings.TrimLeft(src[j+1:], " \t\n")
					if more && strings.HasPrefix(rest, ".") && !strings.HasPrefix(rest, "..") {
						return true
					}
					break scan
				}
				depth--
			}
		}
	}
	return false
}

// matchKnown ties a failing case to a listed known finding by its syntactic
// trigger (never by property alone), so that other violations still surface.
func matchKnown(c Case, res result, err error) string {
	if err == nil {
		return ""
	}
	// C01-with-outer-rename: needs a with statement AND the failure must vanish when renaming is off
	if reWith.MatchString(c.Src) && !c.KeepVars && strings.HasPrefix(err.Error(), "behaviour differs") {
		c2 := c
		c2.KeepVars = true
		c2.Func = false
		if _, err2 := check(c2); err2 == nil {
			return "C01-with-outer-rename"
		}
	}
	// C01-else-unscope-keepnames: names are kept (KeepVarNames or with), an if whose then-branch jumps, an else with lexical declarations
	if (c.KeepVars || reWith.MatchString(c.Src)) && reElse.MatchString(c.Src) && reJump.MatchString(c.Src) && reLexical.MatchString(c.Src) {
		if strings.Contains(err.Error(), "has already been declared") || strings.HasPrefix(err.Error(), "behaviour differs") && strings.Contains(err.Error(), "ReferenceError") {
			return "C01-else-unscope-keepnames"
		}
	}
	// C01-return-comma-undefined: a function ending in `return undefined`/`return void 0` after >= 2 expression statements
	if reReturnUndefined.MatchString(c.Src) && strings.HasPrefix(err.Error(), "behaviour differs") {
		return "C01-return-comma-undefined"
	}
	// C01-folded-string-becomes-directive: a statement that is a concatenation of strings only, or a conditional on a constant
	if reFoldedString.MatchString(c.Src) && (strings.HasPrefix(err.Error(), "behaviour differs") || strings.Contains(err.Error(), "'use strict' directive")) {
		return "C01-folded-string-becomes-directive"
	}
	// C01-proto-shorthand: an explicit __proto__:__proto__ entry
	if reProtoSameName.MatchString(c.Src) && strings.HasPrefix(err.Error(), "behaviour differs") {
		return "C01-proto-shorthand"
	}
	// C01-optional-chain-group-member-deep: (a?.b.c).d, the input throws where the output does not
	if deepOptionalGroupMember(c.Src) && strings.HasPrefix(err.Error(), "behaviour differs") && strings.Contains(err.Error(), "TypeError") {
		return "C01-optional-chain-group-member-deep"
	}
	return ""
}
