package c01

import (
	"regexp"
	"strings"
)

var (
	reWith            = regexp.MustCompile(`\bwith\s*(/\*.*?\*/\s*)*\(`)
	reElse            = regexp.MustCompile(`\belse\b`)
	reJump            = regexp.MustCompile(`\b(break|continue|return|throw)\b`)
	reLexical         = regexp.MustCompile(`\b(let|const|class|function)\b`)
	reReturnUndefined = regexp.MustCompile(`\breturn\s*\(?\s*(undefined|void 0)\b`)
)

// matchKnown ties a failing case to a listed known finding by its syntactic
// trigger (never by property alone), so that other violations still surface.
func matchKnown(c Case, res result, err error) string {
	if err == nil {
		return ""
	}
	// C01-with-outer-rename: needs a with statement AND the failure must vanish when renaming is off
	if reWith.MatchString(c.Src) && !c.KeepVars && strings.HasPrefix(err.Error(), "behaviour differs") {
		c2 := c
		c2.KeepVars = true
		c2.Func = false
		if _, err2 := check(c2); err2 == nil {
			return "C01-with-outer-rename"
		}
	}
	// C01-else-unscope-keepnames: names are kept (KeepVarNames or with), an if whose then-branch jumps, an else with lexical declarations
	if (c.KeepVars || reWith.MatchString(c.Src)) && reElse.MatchString(c.Src) && reJump.MatchString(c.Src) && reLexical.MatchString(c.Src) {
		if strings.Contains(err.Error(), "has already been declared") || strings.HasPrefix(err.Error(), "behaviour differs") && strings.Contains(err.Error(), "ReferenceError") {
			return "C01-else-unscope-keepnames"
		}
	}
	// C01-return-comma-undefined: a function ending in `return undefined`/`return void 0` after >= 2 expression statements
	if reReturnUndefined.MatchString(c.Src) && strings.HasPrefix(err.Error(), "behaviour differs") {
		return "C01-return-comma-undefined"
	}
	return ""
}
