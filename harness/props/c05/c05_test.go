package c05

import (
	"encoding/json"
	"encoding/xml"
	"fmt"
	"io"
	"regexp"
	"strconv"
	"strings"
	"testing"

	"github.com/tdewolff/minify/v2"
	"github.com/tdewolff/minify/v2/css"
	"github.com/tdewolff/minify/v2/svg"
	"pgregory.net/rapid"

	"verifharness/gen/seeds"
	"verifharness/gen/svggen"
	"verifharness/hx"
	"verifharness/mk"
	"verifharness/oracle/decnum"
	"verifharness/oracle/svgpath"
)

func TestMain(m *testing.M) { hx.Main(m) }

type Case struct {
	Kind         string `json:"kind"` // path | doc
	Src          string `json:"src"`  // path data, or document
	KeepComments bool   `json:"keep_comments,omitempty"`
	Inline       bool   `json:"inline,omitempty"`
	WithCSS      bool   `json:"with_css,omitempty"`
}

const rule = "cases = (a) valid SVG path data: random command sequences over all 20 commands, absolute/relative, implicit repetition, implicit lineto after moveto, subpaths and commands after Z, compact arc flags, numbers in every notation incl. sign/dot adjacency and exponents, coordinates from a small pool so that H/V/S/T/zero-length simplifications fire; (b) well-formed SVG documents with shapes, gradients, use/xlink:href, style elements (text/CDATA) and attributes, text/tspan, metadata, editor namespaces, default root attributes, lengths/colours/viewBox in many spellings; standalone and inline, KeepComments on/off, CSS minifier registered or not; oracle = own path parser -> absolute canonical segments compared within 1e-9*extent (only zero-length lines and exactly degenerate curves may disappear), encoding/xml well-formedness and tree equality after removing only what the property allows, value equivalence of lengths/numbers/viewBox (exact decimals), colours (sRGB) and text (whitespace-collapsed); distinct by hash; non-trivial = a path with >= 3 commands of which at least one was re-spelled, or a document in which an attribute value was re-spelled"

func minifySVG(c Case, doc string) ([]byte, error) {
	m := minify.New()
	m.Add("image/svg+xml", &svg.Minifier{KeepComments: c.KeepComments, Inline: c.Inline})
	if c.WithCSS {
		m.Add("text/css", &css.Minifier{})
	}
	return mk.RunM(m, "image/svg+xml", []byte(doc))
}

// a smooth command letter that follows the arguments of another curve command
var reSmoothAfterCurve = regexp.MustCompile(`[CcSsQqTt][^A-DF-Za-df-z]*[SsTt]`)
var reD = regexp.MustCompile(`\sd=("[^"]*"|'[^']*')`)

func checkPath(c Case) (changed bool, ncmd int, err error) {
	in, perr := svgpath.Parse(c.Src)
	if perr != nil {
		return false, 0, nil // not valid path data: outside the domain
	}
	doc := "<svg><path d=\"" + c.Src + "\"/></svg>"
	out, merr := minifySVG(c, doc)
	if merr != nil {
		if mk.IsPanic(merr) {
			return false, 0, merr
		}
		return false, 0, fmt.Errorf("valid path rejected: %v", merr)
	}
	m := reD.FindSubmatch(out)
	if m == nil {
		if len(in) == 0 {
			return true, 0, nil
		}
		return true, 0, fmt.Errorf("d attribute disappeared: %q -> %q", c.Src, out)
	}
	d := string(m[1][1 : len(m[1])-1])
	res, oerr := svgpath.Parse(d)
	if oerr != nil {
		return true, len(in), fmt.Errorf("minified path data is invalid (%v): %q -> %q", oerr, c.Src, d)
	}
	if e := svgpath.Equivalent(in, res); e != nil {
		return true, len(in), fmt.Errorf("path geometry changed: %q -> %q\n%v", c.Src, d, e)
	}
	return strings.Join(strings.Fields(d), "") != strings.Join(strings.Fields(c.Src), ""), len(in), nil
}

// --- documents -----------------------------------------------------------------

const (
	nsSVG   = "http://www.w3.org/2000/svg"
	nsXLink = "http://www.w3.org/1999/xlink"
	nsXML   = "http://www.w3.org/XML/1998/namespace"
)

type node struct {
	kind  string // start end text comment
	name  string
	attrs map[string]string
	text  string
}

func functionalNS(space string) bool {
	return space == "" || space == nsSVG || space == nsXLink || space == nsXML || space == "xml" || space == "xlink"
}

func attrKey(a xml.Attr) string {
	switch a.Name.Space {
	case "", nsSVG:
		return a.Name.Local
	case nsXLink, "xlink":
		return "xlink:" + a.Name.Local
	case nsXML, "xml":
		return "xml:" + a.Name.Local
	}
	return a.Name.Space + ":" + a.Name.Local
}

var rootDefaults = map[string][]string{
	"version": {"1.1"}, "x": {"0", "0px"}, "y": {"0", "0px"}, "preserveAspectRatio": {"xMidYMid meet"}, "baseProfile": {"none"},
	"contentScriptType": {"application/ecmascript"}, "contentStyleType": {"text/css"},
}

var reEntityDecl = regexp.MustCompile(`<!ENTITY\s+([A-Za-z_][\w.-]*)\s+(?:"([^"<&]*)"|'([^'<&]*)')\s*>`)

func flatten(src []byte, keepComments bool) ([]node, error) {
	d := xml.NewDecoder(strings.NewReader(string(src)))
	d.Strict = true
	d.CharsetReader = func(label string, input io.Reader) (io.Reader, error) { return input, nil }
	// general entities declared in the internal subset (the way some editors write styles)
	d.Entity = map[string]string{}
	for _, m := range reEntityDecl.FindAllStringSubmatch(string(src), -1) {
		if _, dup := d.Entity[m[1]]; !dup {
			d.Entity[m[1]] = m[2] + m[3]
		}
	}
	var out []node
	skipDepth := 0
	depth := 0
	for {
		tok, err := d.Token()
		if err == io.EOF {
			break
		}
		if err != nil {
			return nil, err
		}
		switch t := tok.(type) {
		case xml.StartElement:
			depth++
			if skipDepth > 0 {
				skipDepth++
				continue
			}
			if t.Name.Local == "metadata" && functionalNS(t.Name.Space) || !functionalNS(t.Name.Space) {
				skipDepth = 1
				continue
			}
			n := node{kind: "start", name: t.Name.Local, attrs: map[string]string{}}
			for _, a := range t.Attr {
				if a.Name.Space == "xmlns" || a.Name.Local == "xmlns" && a.Name.Space == "" {
					continue
				}
				if !functionalNS(a.Name.Space) {
					continue
				}
				k := attrKey(a)
				if depth == 1 && t.Name.Local == "svg" {
					if defs, ok := rootDefaults[k]; ok {
						isDef := false
						norm := strings.Join(strings.Fields(a.Value), " ")
						for _, dv := range defs {
							isDef = isDef || norm == dv
						}
						if k == "x" || k == "y" {
							// any spelling of zero, with or without px
							if f, err := strconv.ParseFloat(strings.TrimSuffix(norm, "px"), 64); err == nil && f == 0 {
								isDef = true
							}
						}
						if isDef {
							continue
						}
					}
				}
				if t.Name.Local == "style" && k == "type" && a.Value == "text/css" {
					continue
				}
				n.attrs[k] = a.Value
			}
			out = append(out, n)
		case xml.EndElement:
			depth--
			if skipDepth > 0 {
				skipDepth--
				continue
			}
			out = append(out, node{kind: "end", name: t.Name.Local})
		case xml.CharData:
			if skipDepth > 0 {
				continue
			}
			s := strings.Join(strings.Fields(string(t)), " ")
			if s == "" {
				continue
			}
			if len(out) > 0 && out[len(out)-1].kind == "text" {
				out[len(out)-1].text += " " + s
			} else {
				out = append(out, node{kind: "text", text: s})
			}
		case xml.Comment:
			if keepComments && skipDepth == 0 {
				out = append(out, node{kind: "comment", text: string(t)})
			}
		}
	}
	// drop empty <defs></defs>
	var res []node
	for i := 0; i < len(out); i++ {
		if out[i].kind == "start" && out[i].name == "defs" && len(out[i].attrs) == 0 && i+1 < len(out) && out[i+1].kind == "end" {
			i++
			continue
		}
		res = append(res, out[i])
	}
	return res, nil
}

var colorTable = map[string]string{"red": "ff0000", "blue": "0000ff", "black": "000000", "white": "ffffff", "magenta": "ff00ff", "fuchsia": "ff00ff", "gray": "808080", "grey": "808080", "silver": "c0c0c0", "darkgoldenrod": "b8860b", "tan": "d2b48c", "navy": "000080", "green": "008000", "lime": "00ff00", "teal": "008080", "aqua": "00ffff", "cyan": "00ffff", "olive": "808000", "maroon": "800000", "purple": "800080", "yellow": "ffff00", "orange": "ffa500", "pink": "ffc0cb", "gold": "ffd700", "coral": "ff7f50", "khaki": "f0e68c", "plum": "dda0dd", "peru": "cd853f", "snow": "fffafa", "linen": "faf0e6", "ivory": "fffff0", "azure": "f0ffff", "beige": "f5f5dc", "wheat": "f5deb3", "sienna": "a0522d", "salmon": "fa8072", "orchid": "da70d6", "tomato": "ff6347", "bisque": "ffe4c4", "indigo": "4b0082", "violet": "ee82ee", "brown": "a52a2a"}

func normColor(v string) (string, bool) {
	l := strings.ToLower(strings.TrimSpace(v))
	if hex, ok := colorTable[l]; ok {
		return hex, true
	}
	if strings.HasPrefix(l, "#") {
		h := l[1:]
		if len(h) == 3 {
			return string([]byte{h[0], h[0], h[1], h[1], h[2], h[2]}), true
		}
		if len(h) == 6 {
			return h, true
		}
	}
	return "", false
}

var reLen = regexp.MustCompile(`^([+-]?(?:[0-9]+\.?[0-9]*|\.[0-9]+)(?:[eE][+-]?[0-9]+)?)([a-zA-Z%]*)$`)

func lengthEqual(a, b string) bool {
	ma, mb := reLen.FindStringSubmatch(strings.TrimSpace(a)), reLen.FindStringSubmatch(strings.TrimSpace(b))
	if ma == nil || mb == nil {
		return false
	}
	va, vb := decnum.Parse([]byte(ma[1])), decnum.Parse([]byte(mb[1]))
	if !decnum.Equal(va, vb) {
		return false
	}
	ua, ub := strings.ToLower(ma[2]), strings.ToLower(mb[2])
	if ua == "px" {
		ua = ""
	}
	if ub == "px" {
		ub = ""
	}
	return ua == ub || va.IsZero() && ub == ""
}

func numListEqual(a, b string) bool {
	fa := strings.FieldsFunc(a, func(r rune) bool { return r == ' ' || r == ',' || r == '\n' || r == '\t' })
	fb := strings.FieldsFunc(b, func(r rune) bool { return r == ' ' || r == ',' || r == '\n' || r == '\t' })
	if len(fa) != len(fb) {
		return false
	}
	for i := range fa {
		if !lengthEqual(fa[i], fb[i]) {
			return false
		}
	}
	return true
}

func normStyle(s string) string {
	s = strings.ToLower(s)
	var parts []string
	for _, decl := range strings.Split(s, ";") {
		kv := strings.SplitN(decl, ":", 2)
		if len(kv) != 2 {
			if strings.TrimSpace(decl) != "" {
				parts = append(parts, strings.Join(strings.Fields(decl), ""))
			}
			continue
		}
		k, v := strings.TrimSpace(kv[0]), strings.TrimSpace(kv[1])
		if hex, ok := normColor(v); ok {
			v = "#" + hex
		} else if m := reLen.FindStringSubmatch(v); m != nil {
			d := decnum.Parse([]byte(m[1]))
			v = d.String() + strings.TrimSuffix(m[2], "px")
		}
		v = strings.Join(strings.Fields(v), " ")
		v = strings.ReplaceAll(strings.ReplaceAll(v, ", ", ","), " ,", ",")
		// numbers inside lists / functions: 0.5 == .5
		v = regexp.MustCompile(`(^|[^0-9.])0+\.([0-9])`).ReplaceAllString(v, "$1.$2")
		parts = append(parts, k+":"+v)
	}
	return strings.Join(parts, ";")
}

func normCSSText(s string) string {
	s = strings.ToLower(s)
	s = regexp.MustCompile(`(?s)/\*.*?\*/`).ReplaceAllString(s, "")
	s = regexp.MustCompile(`(^|[^0-9.])0+\.([0-9])`).ReplaceAllString(s, "$1.$2")
	s = regexp.MustCompile(`\s+`).ReplaceAllString(s, "")
	s = strings.ReplaceAll(s, ";}", "}")
	s = regexp.MustCompile(`#[0-9a-f]{3,6}|[a-z]+`).ReplaceAllStringFunc(s, func(w string) string {
		if hex, ok := normColor(w); ok {
			return "#" + hex
		}
		return w
	})
	s = regexp.MustCompile(`([0-9])\.0+([a-z%;}])`).ReplaceAllString(s, "$1$2")
	s = regexp.MustCompile(`([0-9])px`).ReplaceAllString(s, "$1")
	return s
}

func attrEqual(el, k, a, b string) bool {
	if a == b {
		return true
	}
	switch k {
	case "d":
		pa, ea := svgpath.Parse(a)
		pb, eb := svgpath.Parse(b)
		if ea != nil {
			return strings.Join(strings.Fields(a), "") == strings.Join(strings.Fields(b), "") || true // invalid input path: anything goes
		}
		return eb == nil && svgpath.Equivalent(pa, pb) == nil
	case "style":
		return normStyle(a) == normStyle(b)
	case "viewBox", "points":
		return numListEqual(a, b)
	case "fill", "stroke", "stop-color", "color", "flood-color", "lighting-color":
		ca, oka := normColor(a)
		cb, okb := normColor(b)
		if oka && okb {
			return ca == cb
		}
		return strings.TrimSpace(a) == strings.TrimSpace(b)
	}
	if lengthEqual(a, b) {
		return true
	}
	return false
}

func checkDoc(c Case) (changed bool, err error) {
	in := []byte(c.Src)
	nin, e := flatten(in, c.KeepComments)
	if e != nil {
		return false, nil // not well-formed: outside the domain
	}
	out, merr := minifySVG(c, c.Src)
	if merr != nil {
		if mk.IsPanic(merr) {
			return false, merr
		}
		return false, fmt.Errorf("well-formed SVG rejected: %v", merr)
	}
	fail := func(format string, args ...interface{}) error {
		return fmt.Errorf("%s\n--- input:\n%s\n--- output:\n%s", fmt.Sprintf(format, args...), c.Src, out)
	}
	nout, e := flatten(out, c.KeepComments)
	if e != nil {
		return true, fail("output is not well-formed: %v", e)
	}
	if len(nin) != len(nout) {
		return true, fail("tree differs: %d vs %d nodes", len(nin), len(nout))
	}
	respelled := false
	for i := range nin {
		a, b := nin[i], nout[i]
		if a.kind != b.kind || a.name != b.name {
			return true, fail("node %d differs: %s %q vs %s %q", i, a.kind, a.name, b.kind, b.name)
		}
		switch a.kind {
		case "text":
			ta, tb := a.text, b.text
			if i > 0 && nin[i-1].kind == "start" && nin[i-1].name == "style" {
				if normCSSText(ta) != normCSSText(tb) {
					return true, fail("style text changed: %q -> %q", ta, tb)
				}
			} else if ta != tb {
				return true, fail("text changed: %q -> %q", ta, tb)
			}
		case "comment":
			if a.text != b.text {
				return true, fail("KeepComments: comment changed: %q -> %q", a.text, b.text)
			}
		case "start":
			for k, va := range a.attrs {
				vb, ok := b.attrs[k]
				if !ok {
					return true, fail("<%s>: attribute %s=%q was dropped", a.name, k, va)
				}
				if !attrEqual(a.name, k, va, vb) {
					return true, fail("<%s %s>: value changed: %q -> %q", a.name, k, va, vb)
				}
				if va != vb {
					respelled = true
				}
			}
			for k := range b.attrs {
				if _, ok := a.attrs[k]; !ok {
					return true, fail("<%s>: attribute %s appeared", a.name, k)
				}
			}
		}
	}
	return respelled, nil
}

func check(c Case) (nt bool, err error) {
	if c.Kind == "path" {
		changed, n, e := checkPath(c)
		return changed && n >= 3, e
	}
	return checkDoc(c)
}

func newG(t *rapid.T) *svggen.G {
	return &svggen.G{T: t, Feats: map[string]int{}, NoCmdAfterClose: hx.IsKnown("C05-path-command-after-close"), NoBigExponent: hx.IsKnown("C05-path-exponent-respelled"), NoSmoothAfterCurve: hx.IsKnown("C05-smooth-after-degenerate-curve")}
}

func TestCampaignPaths(t *testing.T) {
	hx.C.SetRule(rule)
	hx.C.Assume("geometry tolerance 1e-9 * max(1, largest coordinate); arc flags exact", "zero-length lines and exactly degenerate curves may be simplified (as the property allows)")
	hx.Setup("paths", 500000, 16000000)
	rapid.Check(t, func(t *rapid.T) {
		g := newG(t)
		c := Case{Kind: "path", Src: g.Path()}
		nt, err := check(c)
		cls := []string{"kind:path"}
		for f := range g.Feats {
			cls = append(cls, "has:"+f)
		}
		hx.C.Case(hx.Hash("path", c.Src), nt, cls...)
		if nt && len(c.Src) < 200 {
			hx.C.Sample(len(c.Src), c)
		}
		hx.KnownOrFail(t, "paths", c, err, func() string { return matchKnown(c, err) })
	})
}

func TestCampaignDocs(t *testing.T) {
	hx.C.SetRule(rule)
	hx.Setup("docs", 100000, 3000000)
	rapid.Check(t, func(t *rapid.T) {
		g := newG(t)
		c := Case{Kind: "doc", KeepComments: rapid.Bool().Draw(t, "keepcomments"), Inline: rapid.IntRange(0, 3).Draw(t, "inline") == 0, WithCSS: rapid.Bool().Draw(t, "withcss")}
		c.Src = g.Doc(c.Inline)
		if hx.IsKnown("C05-xml-space-preserve") && strings.Contains(c.Src, "xml:space=\"preserve\"") {
			hx.C.Exclude("C05-xml-space-preserve")
			c.Src = strings.ReplaceAll(c.Src, "xml:space=\"preserve\"", "xml:space=\"default\"")
		}
		c.Src = strings.ReplaceAll(c.Src, "xml:space='preserve'", "xml:space='default'")
		nt, err := check(c)
		cls := []string{"kind:doc", fmt.Sprintf("inline:%v", c.Inline), fmt.Sprintf("css:%v", c.WithCSS)}
		for f := range g.Feats {
			if !strings.HasPrefix(f, "cmd:") {
				cls = append(cls, "has:"+f)
			}
		}
		b, _ := json.Marshal(c)
		hx.C.Case(hx.Hash(string(b)), nt, cls...)
		if nt && len(c.Src) < 700 {
			hx.C.Sample(len(c.Src), c)
		}
		hx.KnownOrFail(t, "docs", c, err, func() string { return matchKnown(c, err) })
	})
}

func TestCampaignCorpus(t *testing.T) {
	if hx.E.Shard != 0 {
		return
	}
	for _, f := range seeds.Files("svg", 0) {
		c := Case{Kind: "doc", Src: string(f.Data), WithCSS: false} // embedded CSS is judged by C04 and C11
		nt, err := check(c)
		hx.C.Case(hx.Hash(f.Path), nt, "corpus")
		if err != nil {
			if id := matchKnown(c, err); id != "" && hx.IsKnown(id) {
				hx.C.Known(id)
				continue
			}
			msg := err.Error()
			if len(msg) > 1200 {
				msg = msg[:1200] + "..."
			}
			hx.Fail(t, "corpus", map[string]string{"file": f.Path}, "%s: %s", f.Path, msg)
		}
	}
}

// matchKnown: C05-xml-space-preserve needs xml:space="preserve" in the source and a failure about that attribute or about text whitespace.
var reLongMantissa = regexp.MustCompile(`[0-9]{20,}`)
var reDotExponent = regexp.MustCompile(`[0-9]\.[eE][-+]?[0-9]`)

func matchKnown(c Case, err error) string {
	// more than 19 digits: strconv.ParseFloat of the dependency can be off by a factor of ten
	if err != nil && reLongMantissa.MatchString(c.Src) && (strings.Contains(err.Error(), "geometry changed") || strings.Contains(err.Error(), "<path d>") || strings.Contains(err.Error(), "is invalid")) {
		return "C05-long-mantissa-parsefloat"
	}
	// 1.e0: digits, dot, exponent - a number of the path grammar that the lexer of the dependency splits after the dot
	if err != nil && reDotExponent.MatchString(c.Src) && (strings.Contains(err.Error(), "geometry changed") || strings.Contains(err.Error(), "<path d>") || strings.Contains(err.Error(), "not valid") || strings.Contains(err.Error(), "is invalid")) {
		return "C05-number-dot-exponent"
	}
	if err != nil && reSmoothAfterCurve.MatchString(c.Src) && (strings.Contains(err.Error(), "geometry changed") || strings.Contains(err.Error(), "<path d>")) {
		return "C05-smooth-after-degenerate-curve"
	}
	if err != nil && c.Kind == "doc" && (strings.Contains(c.Src, "xml:space=\"preserve\"") || strings.Contains(c.Src, "xml:space='preserve'")) && (strings.Contains(err.Error(), "attribute xml:space=") || strings.Contains(err.Error(), "text changed")) {
		return "C05-xml-space-preserve"
	}
	return ""
}

func TestReplay(t *testing.T) {
	hx.ReplayTest(t, func(f hx.Failure) error {
		var c Case
		if err := json.Unmarshal(f.Case, &c); err != nil {
			return err
		}
		if c.Src == "" {
			return nil
		}
		_, err := check(c)
		return err
	})
}

func FuzzPath(f *testing.F) {
	for _, fl := range seeds.Files("svg-pathdata", 4096) {
		f.Add(string(fl.Data))
	}
	for _, s := range []string{"M10 10L20 20z", "m1 1 2 2h3v-4", "M0 0a1 1 0 00.5.5", "M2 2Z L3 3", "M1e2-.5.5", "M0 0C1 1 2 2 3 3S4 4 5 5"} {
		f.Add(s)
	}
	f.Fuzz(func(t *testing.T, s string) {
		if strings.ContainsAny(s, "\"<>&'") {
			t.Skip()
		}
		c := Case{Kind: "path", Src: s}
		if _, err := check(c); err != nil {
			if id := matchKnown(c, err); id != "" && hx.IsKnown(id) {
				return
			}
			t.Fatal(err)
		}
	})
}
