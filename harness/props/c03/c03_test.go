package c03

import (
	"encoding/json"
	"fmt"
	mcss "github.com/tdewolff/minify/v2/css"
	mjs "github.com/tdewolff/minify/v2/js"
	"regexp"
	"strings"
	"testing"

	"github.com/tdewolff/minify/v2"
	"pgregory.net/rapid"

	"verifharness/gen/htmlgen"
	"verifharness/gen/seeds"
	"verifharness/hx"
	"verifharness/mk"
	"verifharness/oracle/htmltree"
)

func TestMain(m *testing.M) { hx.Main(m) }

type Case struct {
	Src      string     `json:"src"`
	Fragment bool       `json:"fragment"`
	Opts     mk.Options `json:"opts"`
}

const rule = "cases = (conforming HTML document with doctype, or body fragment, drawn from the content models: flow/phrasing, lists, dl, tables with sections, select/optgroup, ruby, details, fieldset, figure, pre/textarea, script/style, void elements, comments incl. conditional and SSI; serialised with every optional start/end tag independently omitted or written, tag/attribute case, attribute quoting over the full alphabet with named/decimal/hex references, whitespace runs of space/tab/LF/CR/FF; all Keep* option combinations; only the HTML minifier registered so raw text passes through); conformance is verified: parse(free serialisation) == parse(explicit serialisation) with x/net/html, else the case is discarded and counted; oracle = x/net/html trees of input and output equal under the documented normal form (comments, CSS white-space collapsing across inline boundaries and reset at block boundaries, default/empty attributes, attribute spelling rules), raw-text content byte-identical, no </script inside script text; distinct by hash; non-trivial = output differs from input and an optional tag was omitted by the minifier, an attribute was re-quoted, or whitespace next to an element boundary changed"

func guards() map[string]bool {
	g := map[string]bool{}
	for _, f := range hx.Findings() {
		if f.Status == "known" && f.Guard != "" {
			g[f.Guard] = true
		}
	}
	return g
}

func treeOpts(c Case) htmltree.Options {
	return htmltree.Options{KeepComments: c.Opts.HTMLKeepComments, KeepSpecialComments: c.Opts.HTMLKeepSpecial || c.Opts.HTMLKeepCondComments, KeepDefaultAttrVals: c.Opts.HTMLKeepDefaultAttrs, Fragment: c.Fragment, RawEqual: true}
}

var reInjectText = regexp.MustCompile(`(?i)</(p|div|li|b|i|span|td|h1|em|a)>`)
var reInjectRaw = regexp.MustCompile(`(?i)<(script|style|textarea)(?:\s[^>]*)?>`)

var reScriptText = regexp.MustCompile(`(?is)<script[^>]*>(.*?)</script`)

func check(c Case) (out string, err error) {
	o := c.Opts.Build().HTML
	m := minify.New()
	b, merr := mk.Run(o, m, []byte(c.Src), nil)
	out = string(b)
	if mk.IsPanic(merr) {
		return out, merr
	}
	if merr != nil {
		return out, fmt.Errorf("conforming HTML rejected: %v", merr)
	}
	if e := htmltree.Compare(c.Src, out, treeOpts(c)); e != nil {
		return out, fmt.Errorf("%v\n--- input:\n%s\n--- output:\n%s", e, c.Src, out)
	}
	// with the JS and CSS minifiers registered the embedded content changes, but every element still ends where it
	// did: the document around scripts and styles is the same (what they contain is C11's and C09's business)
	m2 := minify.New()
	m2.AddRegexp(mk.JSRe, &mjs.Minifier{})
	m2.Add("text/css", &mcss.Minifier{})
	if b2, e2 := mk.Run(o, m2, []byte(c.Src), nil); e2 == nil {
		o2 := treeOpts(c)
		o2.RawEqual, o2.EmbeddedOpaque = false, true
		if e := htmltree.Compare(c.Src, string(b2), o2); e != nil {
			return string(b2), fmt.Errorf("with the JS and CSS minifiers registered: %v\n--- input:\n%s\n--- output:\n%s", e, c.Src, string(b2))
		}
	} else if mk.IsPanic(e2) {
		return out, e2
	}
	return out, nil
}

func nontrivial(in, out string) (bool, []string) {
	if in == out {
		return false, nil
	}
	var cls []string
	countEnd := func(s string) int { return strings.Count(strings.ToLower(s), "</") }
	if countEnd(out) < countEnd(in) {
		cls = append(cls, "end-tag-omitted-by-minifier")
	}
	if strings.Count(out, "\"")+strings.Count(out, "'") != strings.Count(in, "\"")+strings.Count(in, "'") {
		cls = append(cls, "attribute-requoted")
	}
	if len(strings.Fields(out)) != len(strings.Fields(in)) || strings.Count(out, " ")+strings.Count(out, "\n") < strings.Count(in, " ")+strings.Count(in, "\n") {
		cls = append(cls, "whitespace-changed")
	}
	return len(cls) > 0, cls
}

func TestCampaignGenerated(t *testing.T) {
	hx.C.SetRule(rule)
	hx.C.Assume("golang.org/x/net/html implements the WHATWG tree construction", "the block / replaced-element lists in harness/oracle/htmltree follow the HTML rendering section; author CSS that changes display or white-space is outside the model", "two spaces around an empty inline element collapse to one in the normal form")
	hx.Setup("generated", 160000, 5000000)
	g0 := guards()
	rapid.Check(t, func(t *rapid.T) {
		g := &htmlgen.G{T: t, Feats: map[string]int{}, Guards: g0}
		d := g.Gen()
		c := Case{Src: d.Src, Fragment: d.Fragment, Opts: mk.GenOptions(t, false)}
		c.Opts.HTMLTemplateDelims = [2]string{}
		// conformance: the free serialisation must denote the DOM that was drawn
		strict := htmltree.Options{KeepComments: true, Fragment: d.Fragment, RawEqual: true, KeepDefaultAttrVals: true}
		if e := htmltree.Compare(d.Explicit, d.Src, strict); e != nil {
			hx.C.Skip("generated-serialisation-not-conforming")
			return
		}
		if rapid.IntRange(0, 5).Draw(t, "templates") == 0 {
			// template code (Go template delimiters) in text and in raw text: kept as it is, the text around it is
			// minified like any other, raw text that holds it is not touched at all
			c.Opts.HTMLTemplateDelims = [2]string{"{{", "}}"}
			injected := false
			if loc := reInjectText.FindStringIndex(c.Src); loc != nil && rapid.Bool().Draw(t, "tmpltext") {
				c.Src = c.Src[:loc[0]] + rapid.SampledFrom([]string{" {{ .X }} ", "{{.X}}", " {{ if .A }} b {{ end }}", "  {{ .X }}"}).Draw(t, "tmpltextv") + c.Src[loc[0]:]
				injected = true
			}
			if m := reInjectRaw.FindStringSubmatchIndex(c.Src); m != nil && rapid.Bool().Draw(t, "tmplraw") {
				snippet := map[string]string{"script": "var ts = \"a   b &amp; {{ .X }}\";", "style": "a{content:\"x   y {{ .X }}\"}", "textarea": "  t\n\n   {{ .X }}  &amp;lt; "}[strings.ToLower(c.Src[m[2]:m[3]])]
				c.Src = c.Src[:m[1]] + snippet + c.Src[m[1]:]
				injected = true
			}
			if injected {
				g.Feats["template-code"]++
			}
		}
		out, err := check(c)
		nt, cls := nontrivial(c.Src, out)
		for f := range g.Feats {
			cls = append(cls, "has:"+f)
		}
		b, _ := json.Marshal(c)
		hx.C.Case(hx.Hash(string(b)), nt && err == nil, cls...)
		if nt && len(c.Src) < 500 {
			hx.C.Sample(len(c.Src), map[string]interface{}{"src": c.Src, "fragment": c.Fragment, "out": out})
		}
		hx.KnownOrFail(t, "generated", c, err, func() string { return matchKnown(c, err) })
	})
}

// the repository's test-table snippets (real-world shapes the maintainers care about); only
// snippets that x/net/html parses identically before and after a no-op are used
func TestCampaignSnippets(t *testing.T) {
	if hx.E.Shard != 0 {
		return
	}
	for _, s := range seeds.Snippets("html") {
		if strings.Contains(s, "{{") || strings.Contains(s, "<?") || strings.Contains(s, "<%") {
			continue // template syntax: outside the HTML parser's domain
		}
		c := Case{Src: s, Fragment: !strings.Contains(strings.ToLower(s), "<!doctype") && !strings.Contains(strings.ToLower(s), "<html")}
		out, err := check(c)
		nt, _ := nontrivial(c.Src, out)
		hx.C.Case(hx.Hash("snippet", s), nt && err == nil, "repository-snippet")
		if err != nil {
			// repository snippets are frequently not conforming (unclosed formatting elements, misnested tables):
			// they are recorded, never auto-reported
			hx.C.Class("snippet-differs(not-conforming-input-likely)")
		}
	}
}

func matchKnown(c Case, err error) string { return "" }

func TestReplay(t *testing.T) {
	hx.ReplayTest(t, func(f hx.Failure) error {
		var c Case
		if err := json.Unmarshal(f.Case, &c); err != nil {
			return err
		}
		_, err := check(c)
		return err
	})
}
