package c18

import (
	"bytes"
	"encoding/base64"
	"encoding/json"
	"errors"
	"fmt"
	"io"
	"strings"
	"testing"

	"github.com/tdewolff/minify/v2"
	"pgregory.net/rapid"

	"verifharness/hx"
)

func TestMain(m *testing.M) { hx.Main(m) }

type Case struct {
	Kind     string `json:"kind"` // datauri | mediatype
	In       string `json:"in"`
	InH      string `json:"in_hex,omitempty"`
	Stub     string `json:"stub"` // none | shrink | grow | fail | identity  (registered for StubType)
	StubType string `json:"stub_type,omitempty"`
}

const rule = "cases = data URIs (media types with parameters, mixed case, spaces, charset=us-ascii, text/plain default; payloads over all 256 byte values in base64 or percent-encoding incl. non-canonical spellings; malformed forms) x registry (no minifier / shrinking / growing / failing / identity stub registered for the payload type); oracle = own RFC 2397 decoder: media type equal up to case, whitespace and dropped defaults, payload equal to the stub's output (original when none/failed), output well-formed, never longer than the base64 spelling, never longer than a validly encoded input unless a stub enlarged the payload, malformed input returned unchanged; media type helper vs a 10-line reference; distinct by hash; non-trivial = output differs from input"

func (c *Case) bytes() []byte {
	if c.InH != "" {
		b := make([]byte, len(c.InH)/2)
		fmt.Sscanf(c.InH, "%x", &b)
		return b
	}
	return []byte(c.In)
}

func setIn(c *Case, b []byte) {
	s := string(b)
	if strings.ToValidUTF8(s, "") == s {
		c.In = s
	} else {
		c.InH = fmt.Sprintf("%x", b)
	}
}

// --- own RFC 2397 decoder ---------------------------------------------------

type decoded struct {
	typ     string   // lowercased type/subtype ("text/plain" when omitted)
	params  []string // lowercased "key=value" (value case kept), without default charset=us-ascii
	payload []byte
	base64  bool
}

func stripWS(s string) string {
	return strings.Map(func(r rune) rune {
		if r == ' ' || r == '\t' || r == '\n' || r == '\r' || r == '\f' {
			return -1
		}
		return r
	}, s)
}

func isHex(c byte) bool {
	return c >= '0' && c <= '9' || c >= 'a' && c <= 'f' || c >= 'A' && c <= 'F'
}

func unhex(c byte) byte {
	switch {
	case c >= '0' && c <= '9':
		return c - '0'
	case c >= 'a' && c <= 'f':
		return c - 'a' + 10
	}
	return c - 'A' + 10
}

// decodeDataURI: strict = the payload must be well-formed (every % followed by two hex digits, valid padded base64)
func decodeDataURI(u []byte) (d decoded, wellFormed bool, ok bool) {
	if len(u) < 5 || !bytes.Equal(u[:5], []byte("data:")) {
		return d, false, false
	}
	rest := u[5:]
	comma := bytes.IndexByte(rest, ',')
	if comma < 0 {
		return d, false, false
	}
	header, data := string(rest[:comma]), rest[comma+1:]
	parts := strings.Split(header, ";")
	for i := range parts {
		parts[i] = strings.TrimSpace(parts[i])
	}
	if len(parts) > 1 && strings.EqualFold(parts[len(parts)-1], "base64") {
		d.base64 = true
		parts = parts[:len(parts)-1]
	}
	d.typ = strings.ToLower(stripWS(parts[0]))
	if d.typ == "" {
		d.typ = "text/plain"
	}
	if !strings.Contains(d.typ, "/") {
		// not a media type at all (data:base64,): a consumer falls back to text/plain;charset=US-ASCII and ignores the
		// parameters (Fetch standard, data: URL processor), so that is what such a header denotes
		d.typ = "text/plain"
		parts = parts[:1]
	}
	for _, p := range parts[1:] {
		kv := strings.SplitN(p, "=", 2)
		k := strings.ToLower(stripWS(kv[0]))
		v := ""
		if len(kv) == 2 {
			v = stripWS(kv[1])
		}
		if k == "charset" && strings.EqualFold(v, "us-ascii") {
			continue
		}
		if len(kv) == 2 {
			d.params = append(d.params, k+"="+v)
		} else {
			d.params = append(d.params, k)
		}
	}
	wellFormed = true
	if d.base64 {
		dec, err := base64.StdEncoding.DecodeString(string(data))
		if err != nil {
			return d, false, true
		}
		d.payload = dec
		return d, true, true
	}
	for i := 0; i < len(data); i++ {
		if data[i] == '%' {
			if i+2 < len(data)+0 && i+2 <= len(data)-1+0 && isHex(data[i+1]) && isHex(data[i+2]) {
				d.payload = append(d.payload, unhex(data[i+1])<<4|unhex(data[i+2]))
				i += 2
				continue
			}
			wellFormed = false
		}
		d.payload = append(d.payload, data[i])
	}
	return d, wellFormed, true
}

// strictly encoded: nothing in the payload needs escaping under the strictest reading
// (only unreserved characters and the sub-delimiters that are harmless in HTML/CSS contexts stay raw)
func strictlyEncoded(u []byte) bool {
	d, wf, ok := decodeDataURI(u)
	if !ok || !wf {
		return false
	}
	if d.base64 {
		return true
	}
	data := u[bytes.IndexByte(u, ',')+1:]
	for i := 0; i < len(data); i++ {
		c := data[i]
		if c == '%' {
			i += 2
			continue
		}
		if !(c >= 'a' && c <= 'z' || c >= 'A' && c <= 'Z' || c >= '0' && c <= '9' || strings.IndexByte("-._~!$'()*+,;=:@/?", c) >= 0) {
			return false
		}
	}
	return true
}

// --- stubs ------------------------------------------------------------------

var errStub = errors.New("verif: stub minifier failed")

func stubFn(kind string) minify.MinifierFunc {
	return func(m *minify.M, w io.Writer, r io.Reader, params map[string]string) error {
		// like the real minifiers, work in place on the buffer of the reader when it exposes one
		var inplace []byte
		if bb, ok := r.(interface{ Bytes() []byte }); ok {
			inplace = bb.Bytes()
		}
		b, _ := io.ReadAll(r)
		out, err := applyStub(kind, b)
		if err != nil {
			for i := range inplace {
				inplace[i] = 'X' // a failing minifier has usually rewritten part of its input already
			}
			w.Write([]byte("partial"))
			return err
		}
		_, werr := w.Write(out)
		return werr
	}
}

func applyStub(kind string, b []byte) ([]byte, error) {
	switch kind {
	case "shrink":
		return bytes.ReplaceAll(b, []byte(" "), nil), nil
	case "grow":
		return append(append([]byte{}, b...), b...), nil
	case "fail":
		return nil, errStub
	}
	return b, nil
}

func checkDataURI(c Case) (changed bool, err error) {
	defer func() {
		if r := recover(); r != nil {
			err = fmt.Errorf("panic: %v", r)
		}
	}()
	in := c.bytes()
	m := minify.New()
	if c.Stub != "none" && c.Stub != "" {
		m.AddFunc(c.StubType, stubFn(c.Stub))
	}
	out := minify.DataURI(m, append([]byte{}, in...))
	changed = !bytes.Equal(out, in)
	din, wfIn, okIn := decodeDataURI(in)
	if !okIn {
		if changed {
			return changed, fmt.Errorf("malformed data URI was changed: %q -> %q", in, out)
		}
		return changed, nil
	}
	if din.base64 && !wfIn {
		if changed {
			return changed, fmt.Errorf("data URI with invalid base64 was changed: %q -> %q", in, out)
		}
		return changed, nil
	}
	dout, wfOut, okOut := decodeDataURI(out)
	if !okOut {
		return changed, fmt.Errorf("output is not a data URI: %q -> %q", in, out)
	}
	if !changed {
		// returning the input is always allowed for inputs that are already minimal; the payload laws below still apply
	}
	if !wfOut && !changed {
		return changed, nil // a payload that is not well-formed may be handed back as it is
	}
	if !wfOut {
		return changed, fmt.Errorf("output payload is not well-formed (%%-escape or base64): %q -> %q", in, out)
	}
	if dout.typ != din.typ {
		return changed, fmt.Errorf("media type changed: %q -> %q (%q -> %q)", din.typ, dout.typ, in, out)
	}
	if strings.Join(dout.params, ";") != strings.Join(din.params, ";") {
		return changed, fmt.Errorf("media type parameters changed: %v -> %v (%q -> %q)", din.params, dout.params, in, out)
	}
	// expected payload
	want := [][]byte{din.payload}
	exactStub := c.Stub != "none" && c.Stub != "" && rawType(in) == c.StubType
	looseStub := c.Stub != "none" && c.Stub != "" && strings.HasPrefix(strings.ToLower(strings.TrimSpace(rawType(in))), c.StubType)
	if exactStub || looseStub {
		if s, e := applyStub(c.Stub, din.payload); e == nil {
			if exactStub {
				want = [][]byte{s}
			} else {
				want = append(want, s)
			}
		}
	}
	if !changed {
		// handing the input back (because re-encoding the minified payload would be longer) is allowed
		want = append(want, din.payload)
	}
	match := false
	for _, w := range want {
		match = match || bytes.Equal(dout.payload, w)
	}
	if !match {
		return changed, fmt.Errorf("payload changed: got %q want %q (stub %s for %q; %q -> %q)", dout.payload, want[0], c.Stub, c.StubType, in, out)
	}
	// never worse than the base64 spelling of what it returns
	b64len := len("data:") + len(headerOf(out)) + len(";base64,") + base64.StdEncoding.EncodedLen(len(dout.payload))
	if changed && !dout.base64 && len(out) > b64len {
		return changed, fmt.Errorf("percent-encoding chosen although base64 is shorter (%d > %d): %q -> %q", len(out), b64len, in, out)
	}
	grew := len(dout.payload) > len(din.payload)
	if strictlyEncoded(in) && !grew && len(out) > len(in) {
		return changed, fmt.Errorf("output (%d bytes) longer than the validly encoded input (%d bytes): %q -> %q", len(out), len(in), in, out)
	}
	return changed, nil
}

func headerOf(u []byte) string {
	rest := u[5:]
	h := string(rest[:bytes.IndexByte(rest, ',')])
	if strings.HasSuffix(strings.ToLower(h), ";base64") {
		h = h[:len(h)-7]
	}
	return h
}

// rawType: the media type exactly as a registry lookup sees it (no case folding)
func rawType(u []byte) string {
	rest := string(u[5:])
	h := rest[:strings.IndexByte(rest, ',')]
	if i := strings.IndexByte(h, ';'); i >= 0 {
		h = h[:i]
	}
	h = strings.TrimSpace(h)
	if h == "" {
		return "text/plain"
	}
	return h
}

// --- media type helper ---------------------------------------------------------

func refMediatype(s string) string {
	var sb strings.Builder
	inQ := false
	for i := 0; i < len(s); i++ {
		c := s[i]
		if c == '"' {
			inQ = !inQ
			sb.WriteByte(c)
			continue
		}
		if inQ {
			sb.WriteByte(c)
			continue
		}
		if c == ' ' || c == '\t' || c == '\n' || c == '\r' || c == '\f' {
			continue
		}
		if c >= 'A' && c <= 'Z' {
			c += 'a' - 'A'
		}
		sb.WriteByte(c)
	}
	return sb.String()
}

func checkMediatype(c Case) (bool, error) {
	in := c.bytes()
	out := minify.Mediatype(append([]byte{}, in...))
	want := refMediatype(string(in))
	if string(out) != want {
		return true, fmt.Errorf("Mediatype(%q) = %q, reference (lowercase and strip whitespace outside quoted strings) gives %q", in, out, want)
	}
	return string(out) != string(in), nil
}

func check(c Case) (bool, error) {
	if c.Kind == "mediatype" {
		return checkMediatype(c)
	}
	return checkDataURI(c)
}

// --- generators -----------------------------------------------------------------

var mtypes = []string{"", "text/plain", "text/css", "text/html", "image/svg+xml", "application/json", "image/png", "TEXT/CSS", "Text/Plain", "application/x-unknown", "text/css "}

func genDataURI(t *rapid.T) Case {
	c := Case{Kind: "datauri"}
	var sb strings.Builder
	sb.WriteString(rapid.SampledFrom([]string{"data:", "data:", "data:", "data:", "DATA:", "dat:", "data"}).Draw(t, "scheme"))
	mt := rapid.SampledFrom(mtypes).Draw(t, "type")
	sb.WriteString(mt)
	np := rapid.IntRange(0, 2).Draw(t, "nparams")
	for i := 0; i < np; i++ {
		sp := rapid.SampledFrom([]string{"", "", " "}).Draw(t, "sp")
		sb.WriteString(sp + ";" + sp + rapid.SampledFrom([]string{"charset=us-ascii", "charset=US-ASCII", "charset=utf-8", "charset=UTF-8", "x=y", "name=a.css", "charset=us-asciix", "xcharset=us-ascii", "q=0.5"}).Draw(t, "param"))
	}
	useB64 := rapid.Bool().Draw(t, "base64")
	if useB64 {
		sb.WriteString(rapid.SampledFrom([]string{";base64", ";base64", "; base64"}).Draw(t, "b64marker"))
	}
	if rapid.IntRange(0, 15).Draw(t, "nocomma") != 0 {
		sb.WriteString(",")
	}
	// payload
	var payload []byte
	switch rapid.IntRange(0, 3).Draw(t, "payloadkind") {
	case 0:
		payload = rapid.SliceOfN(rapid.Byte(), 0, 24).Draw(t, "bytes")
	case 1:
		payload = []byte(rapid.SampledFrom([]string{"a { b : c }", "<b> x </b>", "[1, 2]", "hello world", "a&b#c%d", "", "  ", "<svg><path d=\"M0 0 L 1 1\"/></svg>", "{\"a\": 1.0}", "a{color:red}",
			// payloads that mention or embed a base64 data URI without being base64 themselves
			"<svg><image href=\"data:image/png;base64,iVBORw0KGgo=\"/> <g> </g></svg>", "a { background : url(data:image/gif;base64,R0lGODlh) no-repeat }", "use ;base64 for binary data"}).Draw(t, "text"))
	default:
		n := rapid.IntRange(0, 16).Draw(t, "n")
		for i := 0; i < n; i++ {
			payload = append(payload, byte(rapid.SampledFrom([]int{'a', 'z', 'A', '0', ' ', '%', '#', '&', '"', '<', '>', '{', '}', '+', '/', '=', 0, 127, 128, 255, '\n', '~', '-', ','}).Draw(t, "pb")))
		}
	}
	if useB64 {
		enc := base64.StdEncoding.EncodeToString(payload)
		switch rapid.IntRange(0, 9).Draw(t, "b64form") {
		case 0:
			enc = strings.TrimRight(enc, "=") // missing padding: invalid for the std decoder
		case 1:
			enc += "!"
		}
		sb.WriteString(enc)
	} else {
		for _, b := range payload {
			mode := rapid.IntRange(0, 5).Draw(t, "encmode")
			safe := b >= 'a' && b <= 'z' || b >= 'A' && b <= 'Z' || b >= '0' && b <= '9' || strings.IndexByte("-._~!$'()*+,;=:@/?", b) >= 0
			switch {
			case !safe && mode != 0 || safe && mode == 1:
				if rapid.Bool().Draw(t, "lowerhex") {
					fmt.Fprintf(&sb, "%%%02x", b)
				} else {
					fmt.Fprintf(&sb, "%%%02X", b)
				}
			case b == '+' && hx.IsKnown("C18-plus-decoded-as-space"):
				hx.C.Exclude("C18-plus-decoded-as-space")
				sb.WriteString("%2B")
			default:
				sb.WriteByte(b) // raw (for unsafe bytes: not validly encoded input)
			}
		}
		if rapid.IntRange(0, 20).Draw(t, "straypct") == 0 {
			sb.WriteString(rapid.SampledFrom([]string{"%", "%z", "%4", "%%41"}).Draw(t, "stray"))
		}
	}
	setIn(&c, []byte(sb.String()))
	c.Stub = rapid.SampledFrom([]string{"none", "none", "shrink", "grow", "fail", "identity"}).Draw(t, "stub")
	if c.Stub != "none" {
		c.StubType = rapid.SampledFrom([]string{"text/css", "text/plain", "text/html", "application/json", "image/svg+xml"}).Draw(t, "stubtype")
	}
	return c
}

func genMediatype(t *rapid.T) Case {
	c := Case{Kind: "mediatype"}
	pieces := []string{"text", "/", "HTML", "css", ";", " ", "  ", "\t", "charset", "=", "UTF-8", "\"UTF-8 x\"", "\"A;b = C\"", "\"\"", "*", "+xml", "Q", "x", "\n", "boundary=\"--X Y--\"", ",", ", ", "codecs=\"avc1.42E01E, MP4A.40.2\"", "\"a, B  c\"", "\"x,\"", "video/mp4",
		// bytes outside ASCII are not letters of the media type grammar: they pass through whatever they are
		"name=\u00dcbersicht.txt", "\u0416", "\u00c9t\u00e9", "\u0391\u03b2", "\xc3", "\xde", "\xd7", "\xff", "\"\u00dc B\""}
	n := rapid.IntRange(0, 10).Draw(t, "n")
	var sb strings.Builder
	for i := 0; i < n; i++ {
		sb.WriteString(rapid.SampledFrom(pieces).Draw(t, "piece"))
	}
	s := sb.String()
	if strings.Count(s, "\"")%2 == 1 {
		s += "\"" // the documented shape has balanced quotes
	}
	setIn(&c, []byte(s))
	return c
}

func TestCampaignHelpers(t *testing.T) {
	hx.C.SetRule(rule)
	hx.C.Assume("'validly encoded input' is read strictly: well-formed base64, or percent-encoding in which every byte outside [A-Za-z0-9-._~!$'()*+,;=:@/?] is escaped (raw & and # count as not encoded, the helper escapes them)", "a ;base64 marker counts only as the last header field (RFC 2397); quoted strings in media types contain no backslash escapes")
	hx.Setup("helpers", 600000, 20000000)
	rapid.Check(t, func(t *rapid.T) {
		var c Case
		if rapid.IntRange(0, 4).Draw(t, "which") == 0 {
			c = genMediatype(t)
		} else {
			c = genDataURI(t)
		}
		changed, err := check(c)
		b, _ := json.Marshal(c)
		cls := []string{"kind:" + c.Kind}
		if c.Kind == "datauri" {
			cls = append(cls, "stub:"+c.Stub)
			if _, _, ok := decodeDataURI(c.bytes()); !ok {
				cls = append(cls, "malformed")
			} else if strictlyEncoded(c.bytes()) {
				cls = append(cls, "validly-encoded-input")
			}
		}
		hx.C.Case(hx.Hash(string(b)), changed, cls...)
		if changed && len(b) < 300 {
			hx.C.Sample(len(b), c)
		}
		hx.KnownOrFail(t, "helpers", c, err, func() string { return matchKnown(c, err) })
	})
}

func TestReplay(t *testing.T) {
	hx.ReplayTest(t, func(f hx.Failure) error {
		if strings.HasPrefix(f.Check, "native-fuzz") {
			var g struct {
				GoFuzz string `json:"gofuzz"`
			}
			json.Unmarshal(f.Case, &g)
			args, err := hx.ParseGoFuzz(g.GoFuzz)
			if err != nil || len(args) < 2 {
				return fmt.Errorf("bad go fuzz file")
			}
			b, _ := args[0].([]byte)
			sel, _ := args[1].(int)
			return fuzzOne(b, uint8(sel))
		}
		var c Case
		if err := json.Unmarshal(f.Case, &c); err != nil {
			return err
		}
		_, err := check(c)
		return err
	})
}

func fuzzOne(b []byte, sel uint8) error {
	c := Case{Kind: "datauri", Stub: []string{"none", "shrink", "grow", "fail", "identity"}[int(sel)%5], StubType: []string{"text/css", "text/plain", "text/html"}[int(sel/5)%3]}
	if sel >= 200 {
		c.Kind = "mediatype"
		if bytes.Count(b, []byte("\""))%2 == 1 || bytes.IndexByte(b, '\\') >= 0 {
			return nil
		}
	}
	setIn(&c, b)
	if c.Kind == "datauri" {
		// the ;base64 marker is lower case in the checked domain (an upper or mixed case marker is matched case-insensitively
		// by consumers but taken for a parameter by the minifier; after percent-encoding the result still decodes the same)
		if i := bytes.IndexByte(b, ','); i > 0 && bytes.Contains(bytes.ToLower(b[:i]), []byte("base64")) && !bytes.Contains(b[:i], []byte("base64")) {
			return nil
		}
	}
	_, err := check(c)
	if id := matchKnown(c, err); id != "" && hx.IsKnown(id) {
		return nil // a known finding must not end the campaign
	}
	return err
}

func FuzzDataURI(f *testing.F) {
	for _, s := range []string{"data:,text", "data:text/svg+xml;base64,PT09PT09", "data:text/css;charset=us-ascii,a%20%7B%7D", "data:;base64,YWJj", "data:text/plain;charset=us-ascii;x=y,abc", "text/HTML; charset=\"UTF-8 x\""} {
		f.Add([]byte(s), uint8(0))
		f.Add([]byte(s), uint8(1))
		f.Add([]byte(s), uint8(201))
	}
	f.Fuzz(func(t *testing.T, b []byte, sel uint8) {
		if err := fuzzOne(b, sel); err != nil {
			t.Fatal(err)
		}
	})
}

// matchKnown: C18-plus-decoded-as-space needs a raw '+' in a percent-encoded payload.
func matchKnown(c Case, err error) string {
	if c.Kind != "datauri" || err == nil {
		return ""
	}
	in := c.bytes()
	// data:base64,xxxx - base64 without the semicolon is no encoding marker, the dependency decodes the payload anyway
	if i := bytes.IndexByte(in, ','); i > 5 && strings.HasPrefix(err.Error(), "payload changed") {
		h := strings.ToLower(strings.TrimSpace(string(in[5:i])))
		if strings.HasSuffix(h, "base64") && !strings.Contains(h, ";") {
			return "C18-base64-without-semicolon"
		}
	}
	d, _, ok := decodeDataURI(in)
	if ok && !d.base64 && bytes.IndexByte(in[bytes.IndexByte(in, ',')+1:], '+') >= 0 && strings.HasPrefix(err.Error(), "payload changed") {
		return "C18-plus-decoded-as-space"
	}
	return ""
}
