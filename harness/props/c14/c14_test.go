package c14

import (
	"bytes"
	"encoding/json"
	"errors"
	"fmt"
	"io"
	"os"
	"strings"
	"testing"
	"time"

	"github.com/tdewolff/minify/v2"
	"pgregory.net/rapid"

	"verifharness/gen/seeds"
	"verifharness/hx"
	"verifharness/mk"
)

func TestMain(m *testing.M) { hx.Main(m) }

var errR = errors.New("verif: injected reader failure")
var errW = errors.New("verif: injected writer failure")

// faultReader delivers data[:k] in chunks and then fails. With shortFinal the
// failure arrives together with the last bytes (n>0, err!=nil), otherwise on a
// separate call (0, err).
type faultReader struct {
	data       []byte
	k          int
	pos        int
	chunk      int
	shortFinal bool
	err        error
}

func (r *faultReader) Read(p []byte) (int, error) {
	if r.pos >= r.k {
		return 0, r.err
	}
	n := r.k - r.pos
	if n > len(p) {
		n = len(p)
	}
	if r.chunk > 0 && n > r.chunk {
		n = r.chunk
	}
	copy(p, r.data[r.pos:r.pos+n])
	r.pos += n
	if r.pos >= r.k && r.shortFinal {
		return n, r.err
	}
	return n, nil
}

// faultWriter fails from its k-th Write call on (sticky); k<=0 never fails.
type faultWriter struct {
	buf   bytes.Buffer
	calls int
	k     int
	err   error // nil: errW
}

func (w *faultWriter) Write(p []byte) (int, error) {
	w.calls++
	if w.k > 0 && w.calls >= w.k {
		if w.err != nil {
			return 0, w.err
		}
		return 0, errW
	}
	return w.buf.Write(p)
}

type Case struct {
	Kind       string `json:"kind"`
	Input      string `json:"input"`
	Mode       string `json:"mode"` // reader | writer | both | via-writer | via-reader
	KR         int    `json:"k_reader"`
	ShortFinal bool   `json:"short_final"`
	KW         int    `json:"k_writer"`
	Chunk      int    `json:"chunk"`
	ErrKind    string `json:"err_kind,omitempty"` // identity of the reader's error: "" (own sentinel), unexpected-eof, closed-pipe, deadline
	WErrKind   string `json:"w_err_kind,omitempty"` // identity of the writer's error: "" (own sentinel), closed-pipe, short-write, deadline, unexpected-eof
	Params     string `json:"params,omitempty"`     // media type parameters appended to the type: "" or ";inline=1" (CSS declarations, SVG and JS in an attribute)
	WShape     string `json:"w_shape,omitempty"`    // what else the destination's type offers besides Write: "" (nothing), bytes (Bytes/String/Len like a capped buffer), stringwriter (WriteString)
}

// a failing destination is often more than a bare io.Writer: a size-capped buffer exposes what it accepted, a
// connection offers WriteString. The extra methods go through the same Write and fail with it.
type bytesWriter struct{ *faultWriter }

func (w bytesWriter) Bytes() []byte  { return w.buf.Bytes() }
func (w bytesWriter) String() string { return w.buf.String() }
func (w bytesWriter) Len() int       { return w.buf.Len() }

type stringWriter struct{ *faultWriter }

func (w stringWriter) WriteString(s string) (int, error) { return w.Write([]byte(s)) }

func (c Case) dest(w *faultWriter) io.Writer {
	switch c.WShape {
	case "bytes":
		return bytesWriter{w}
	case "stringwriter":
		return stringWriter{w}
	}
	return w
}

var wShapes = []string{"", "bytes", "", "stringwriter", "bytes"}

// writerErr: errors real destinations produce (a pipe closed by its reader, a short write, a deadline) must surface
// like any other
func (c Case) writerErr() error {
	switch c.WErrKind {
	case "closed-pipe":
		return io.ErrClosedPipe
	case "short-write":
		return io.ErrShortWrite
	case "deadline":
		return os.ErrDeadlineExceeded
	case "unexpected-eof":
		return io.ErrUnexpectedEOF
	}
	return errW
}

var wErrKinds = []string{"", "", "closed-pipe", "short-write", "deadline", "unexpected-eof"}

// readerErr: the error the failing reader returns. Errors that real readers produce (a truncated gzip stream, a closed
// pipe, a deadline) must surface like any other; only io.EOF itself means the end of the input.
func (c Case) readerErr() error {
	switch c.ErrKind {
	case "unexpected-eof":
		return io.ErrUnexpectedEOF
	case "closed-pipe":
		return io.ErrClosedPipe
	case "deadline":
		return os.ErrDeadlineExceeded
	}
	return errR
}

const rule = "for each input (repository test-table snippets and compositions of them, all six media types) the fault-free write count W is measured, then EVERY fault position is run: reader fails after k bytes for k=0..len (with the error arriving with and after the last data), writer fails from its k-th Write for k=1..W (and k=W+1 must succeed), both together, and the same through the Writer and Reader wrappers; a quarter of the CSS, SVG and JS inputs run with the documented media type parameter inline=1 (CSS then is a declaration list); the failing destination is a bare io.Writer, a type that also has Bytes/String/Len (a capped buffer), or one that also has WriteString, all failing through the same Write; positions are exhaustive for inputs <= 512 bytes and stratified (first/last 48, every 5th) above; evaluations = fault positions executed; distinct_nontrivial counts DISTINCT INPUTS (by hash) for which at least one fault strictly inside the stream (0<k<len for readers, 1<k<=W for writers) was executed - a conservative count, the number of such positions is in in_stream_fault_positions_run"

var registry = mk.Full(mk.Opts{})

func isErr(err, want error) bool {
	return err != nil && (errors.Is(err, want) || strings.Contains(err.Error(), want.Error()))
}

// run executes one fault case against the real code and returns a violation or nil.
func run(c Case) (err error) {
	defer func() {
		if r := recover(); r != nil {
			err = fmt.Errorf("panic: %v", r)
		}
	}()
	mt := seeds.Mediatype[c.Kind] + c.Params
	in := []byte(c.Input)
	switch c.Mode {
	case "reader", "writer", "both":
		var r io.Reader = bytes.NewReader(append([]byte{}, in...))
		if c.Mode != "writer" {
			r = &faultReader{data: in, k: c.KR, chunk: c.Chunk, shortFinal: c.ShortFinal, err: c.readerErr()}
		}
		w := &faultWriter{err: c.writerErr()}
		if c.Mode != "reader" {
			w.k = c.KW
		}
		e := registry.Minify(mt, c.dest(w), r)
		switch c.Mode {
		case "reader":
			if !isErr(e, c.readerErr()) {
				return fmt.Errorf("reader failed with %q after %d of %d bytes but Minify returned %v (wrote %d bytes)", c.readerErr(), c.KR, len(in), e, w.buf.Len())
			}
		case "writer":
			if !isErr(e, c.writerErr()) {
				return fmt.Errorf("writer failed with %q from write #%d but Minify returned %v", c.writerErr(), c.KW, e)
			}
		case "both":
			if !isErr(e, c.readerErr()) && !isErr(e, c.writerErr()) {
				return fmt.Errorf("reader failed after %d bytes and writer from write #%d but Minify returned %v", c.KR, c.KW, e)
			}
		}
	case "via-writer":
		sink := &faultWriter{k: c.KW, err: c.writerErr()}
		errW := c.writerErr()
		mw := registry.Writer(mt, c.dest(sink))
		var seen error
		chunk := c.Chunk
		if chunk <= 0 {
			chunk = len(in) + 1
		}
		for off := 0; off < len(in); off += chunk {
			end := off + chunk
			if end > len(in) {
				end = len(in)
			}
			if _, e := mw.Write(in[off:end]); e != nil {
				seen = e
				break
			}
		}
		ce := mw.Close()
		if !isErr(ce, errW) && !isErr(seen, errW) {
			return fmt.Errorf("sink failed from write #%d: Write returned %v, Close returned %v (neither is the sink's error)", c.KW, seen, ce)
		}
		if e2 := mw.Close(); e2 != nil && !isErr(e2, errW) {
			return fmt.Errorf("second Close returned %v", e2)
		}
	case "via-reader":
		fr := &faultReader{data: in, k: c.KR, chunk: c.Chunk, shortFinal: c.ShortFinal, err: c.readerErr()}
		mr := registry.Reader(mt, fr)
		buf := make([]byte, 97)
		var got bytes.Buffer
		for i := 0; ; i++ {
			n, e := mr.Read(buf)
			got.Write(buf[:n])
			if e == io.EOF {
				return fmt.Errorf("source failed after %d of %d bytes but the minifying reader ended with io.EOF after %d output bytes", c.KR, len(in), got.Len())
			}
			if e != nil {
				if !isErr(e, c.readerErr()) {
					return fmt.Errorf("minifying reader returned %v, want the source's error", e)
				}
				break
			}
			if i > len(in)*8+1000 {
				return fmt.Errorf("minifying reader never returned the error")
			}
		}
	}
	return nil
}

// faultFree measures W and checks the k=W+1 law (no fault => success, full output).
func faultFree(kind, params string, in []byte) (W int, out []byte, err error) {
	w := &faultWriter{}
	e := registry.Minify(seeds.Mediatype[kind]+params, w, bytes.NewReader(append([]byte{}, in...)))
	if e != nil {
		return 0, nil, e
	}
	w2 := &faultWriter{k: w.calls + 1}
	e2 := registry.Minify(seeds.Mediatype[kind]+params, w2, bytes.NewReader(append([]byte{}, in...)))
	if e2 != nil || !bytes.Equal(w2.buf.Bytes(), w.buf.Bytes()) {
		return w.calls, w.buf.Bytes(), fmt.Errorf("a writer that would only fail at write #%d (never reached) changed the result: err=%v", w.calls+1, e2)
	}
	return w.calls, w.buf.Bytes(), nil
}

var inlineDecls = []string{"color: red", "margin: 0px 0px 0px 0px", "background: url( 'a b.png' )", "font-weight: bold", "width: calc( 1px + 2% )", "color: #ff0000 !important", "--x: { a : b }", "content: \"a;b\"", "transform: translate( 10px , 0.50em )", "x", ": y", "color: rgb( 255 , 0 , 0 )"}

var errKinds = []string{"", "", "unexpected-eof", "closed-pipe", "deadline"}

func positions(n int, exhaustive bool) []int {
	var ks []int
	for k := 0; k <= n; k++ {
		if exhaustive || k < 48 || k > n-48 || k%5 == 0 {
			ks = append(ks, k)
		}
	}
	return ks
}

func enumerate(t hx.TB, kind, params, input string) (int, error) {
	in := []byte(input)
	W, _, e := faultFree(kind, params, in)
	if e != nil {
		if W > 0 {
			return 0, e
		}
		// the minifier rejects this input: reader faults must still surface as the reader's error
		W = 0
	}
	exh := len(in) <= 512
	n, inStream := 0, 0
	defer func() {
		if inStream > 0 {
			hx.C.Distinct(hx.Hash(kind, params, input))
			hx.C.AddExtra("in_stream_fault_positions_run", int64(inStream))
		}
	}()
	try := func(c Case, nontrivial bool) error {
		c.Params = params
		if c.KW > 0 {
			c.WShape = wShapes[(c.KW+len(c.WErrKind)+len(in))%len(wShapes)]
		}
		hx.InFlight("fault", c)
		err := run(c)
		hx.C.Eval(1)
		if nontrivial {
			inStream++
		}
		n++
		if err != nil {
			hx.Fail(t, "fault", c, "%s %s: %v", c.Kind, c.Mode, err)
		}
		return err
	}
	for _, k := range positions(len(in), exh) {
		for _, sf := range []bool{false, true} {
			if sf && k == 0 {
				continue
			}
			if err := try(Case{Kind: kind, Input: input, Mode: "reader", KR: k, ShortFinal: sf, Chunk: 1 + k%7, ErrKind: errKinds[(k+len(in))%len(errKinds)]}, k > 0 && k < len(in)); err != nil {
				return n, err
			}
		}
		if k%3 == 0 {
			if err := try(Case{Kind: kind, Input: input, Mode: "via-reader", KR: k, ShortFinal: k%2 == 0 && k > 0, Chunk: 1 + k%11, ErrKind: errKinds[(k/3+len(in))%len(errKinds)]}, k > 0 && k < len(in)); err != nil {
				return n, err
			}
		}
	}
	for k := 1; k <= W; k++ {
		if !exh && k > 48 && k < W-48 && k%5 != 0 {
			continue
		}
		if err := try(Case{Kind: kind, Input: input, Mode: "writer", KW: k, WErrKind: wErrKinds[(k+len(in))%len(wErrKinds)]}, k > 1); err != nil {
			return n, err
		}
		if err := try(Case{Kind: kind, Input: input, Mode: "via-writer", KW: k, Chunk: 1 + k%13, WErrKind: wErrKinds[(k/2+len(in))%len(wErrKinds)]}, k > 1); err != nil {
			return n, err
		}
		kr := (k * 7) % (len(in) + 1)
		if err := try(Case{Kind: kind, Input: input, Mode: "both", KR: kr, KW: k, ShortFinal: k%2 == 0 && kr > 0, WErrKind: wErrKinds[(k/3+len(in))%len(wErrKinds)]}, k > 1 && kr > 0); err != nil {
			return n, err
		}
	}
	hx.Idle()
	return n, nil
}

func TestCampaignFaults(t *testing.T) {
	hx.C.SetRule(rule)
	hx.C.Assume("a returned error counts as 'the reader's/writer's' if errors.Is matches or its text contains the injected error's text", "hang guard: a single call that does not return within 120 s is reported as blocking")
	hx.StartWatchdog(120 * time.Second)
	hx.Setup("faults", 8000, 300000)
	inputs := 0
	rapid.Check(t, func(t *rapid.T) {
		kind := rapid.SampledFrom(seeds.Kinds).Draw(t, "kind")
		input := seeds.Doc(t, kind)
		if files := seeds.Files(kind, 12000); len(files) > 0 && rapid.IntRange(0, 40).Draw(t, "usefile") == 0 {
			input = string(files[rapid.IntRange(0, len(files)-1).Draw(t, "file")].Data)
		}
		if len(input) > 6000 {
			input = input[:6000]
		}
		if len(input) > 1 && rapid.IntRange(0, 3).Draw(t, "truncate") == 0 {
			// a document cut off anywhere (inside a tag, a processing instruction, a string): if it is still accepted, the
			// writer faults apply to it as to any other input
			input = input[:rapid.IntRange(1, len(input)-1).Draw(t, "cut")]
			hx.C.Class("input-truncated")
		}
		params := ""
		if (kind == "css" || kind == "svg" || kind == "js") && rapid.IntRange(0, 3).Draw(t, "inline") == 0 {
			// the documented inline=1 parameter: CSS declarations of a style attribute, SVG inside HTML, JS of an event
			// handler attribute, minified directly by the caller
			params = ";inline=1"
			if kind == "css" {
				n := rapid.IntRange(1, 6).Draw(t, "ndecls")
				var ds []string
				for i := 0; i < n; i++ {
					ds = append(ds, rapid.SampledFrom(inlineDecls).Draw(t, "decl"))
				}
				input = strings.Join(ds, rapid.SampledFrom([]string{";", "; ", " ;\n "}).Draw(t, "declsep"))
			}
			hx.C.Class("params:inline=1:" + kind)
		}
		n, _ := enumerate(t, kind, params, input)
		inputs++
		hx.C.Class("input:" + kind)
		hx.C.AddExtra("fault_positions_run", int64(n))
		if len(input) <= 512 {
			hx.C.Class("input-exhaustive-positions")
		} else {
			hx.C.Class("input-stratified-positions")
		}
		if inputs%200 == 1 {
			hx.C.Sample(len(input), map[string]interface{}{"kind": kind, "input": input, "positions_run": n})
		}
	})
	hx.C.AddExtra("inputs", int64(inputs))
}

func TestReplay(t *testing.T) {
	hx.ReplayTest(t, func(f hx.Failure) error {
		var c Case
		if err := json.Unmarshal(f.Case, &c); err != nil {
			return err
		}
		done := make(chan error, 1)
		go func() { done <- run(c) }()
		select {
		case err := <-done:
			return err
		case <-time.After(120 * time.Second):
			return fmt.Errorf("hang: the call did not return within 120s")
		}
	})
}

var _ = minify.ErrNotExist
