package c09

import (
	"bytes"
	stdjson "encoding/json"
	"encoding/xml"
	"fmt"
	"os"
	"regexp"
	"strings"
	"testing"
	"unicode/utf8"

	"github.com/tdewolff/minify/v2"
	"golang.org/x/net/html"
	"pgregory.net/rapid"

	"verifharness/gen/cssgen"
	"verifharness/gen/htmlgen"
	"verifharness/gen/jsgen"
	"verifharness/gen/jsongen"
	"verifharness/gen/mutate"
	"verifharness/gen/seeds"
	"verifharness/gen/svggen"
	"verifharness/gen/xmlgen"
	"verifharness/hx"
	"verifharness/mk"
	"verifharness/oracle/cssval"
	"verifharness/oracle/htmlclean"
	"verifharness/oracle/jsrun"
	"verifharness/oracle/svgpath"
	"verifharness/oracle/xmlinfo"
)

func TestMain(m *testing.M) { hx.Main(m) }

type Case struct {
	Kind   string     `json:"kind"`
	Src    string     `json:"src,omitempty"`
	SrcH   string     `json:"src_hex,omitempty"`
	File   string     `json:"file,omitempty"`
	Module bool       `json:"module,omitempty"`
	Opts   mk.Options `json:"opts"`
	Source string     `json:"source"` // generated | corpus | mutated
}

const rule = "cases = (media type, input, options) with inputs from the grammar generators of C01..C07, the repository's fuzz corpora and benchmark documents (whole files, real-world sized, with embedded languages), and byte-level mutations/splices of repository snippets with a dictionary of hostile constants; full registry (all six minifiers, so embedded content is minified too); oracle = whenever Minify returns nil: (1) the same minifier with the same options accepts its own output (unconditional), (2) if the input is valid for the independent parser then so is the output: V8 (syntax only) for JS, encoding/json, encoding/xml strict (+ every path d valid) for XML/SVG, own CSS tokenizer (no bad-string/bad-url, bracket balance unchanged), x/net/html tokenizer for HTML (same raw-text element sequence; every embedded script that was valid JS stays valid); distinct by hash; non-trivial = input >= 64 bytes (or a corpus file), accepted, output differs"

func (c *Case) src() []byte {
	if c.File != "" {
		b, err := os.ReadFile(c.File)
		if err != nil {
			return nil
		}
		return b
	}
	if c.SrcH != "" {
		b := make([]byte, len(c.SrcH)/2)
		fmt.Sscanf(c.SrcH, "%x", &b)
		return b
	}
	return []byte(c.Src)
}

func setSrc(c *Case, b []byte) {
	if s := string(b); strings.ToValidUTF8(s, "") == s {
		c.Src = s
	} else {
		c.SrcH = fmt.Sprintf("%x", b)
	}
}

func jsValid(src string, module bool) (bool, error) {
	goal := "script"
	if module {
		goal = "module"
	}
	r, err := jsrun.Default.Run(jsrun.Req{Goal: goal, Src: src, SyntaxOnly: true})
	if err != nil {
		return false, err
	}
	return r.Status == "ok", nil
}

// xmlValid: strict encoding/xml plus the document-level rules of xmlinfo.Document (HTML entity names allowed).
func xmlValid(b []byte) error { return xmlinfo.Document(b, xml.HTMLEntity) }

// svgRoot: an SVG document has an svg root element; elements outside the SVG vocabulary (metadata, foreign
// namespaces) are removed by design, which would leave nothing of other roots.
func svgRoot(b []byte) bool {
	d := xml.NewDecoder(bytes.NewReader(b))
	d.Strict = false
	for {
		tok, err := d.RawToken()
		if err != nil {
			return false
		}
		if se, ok := tok.(xml.StartElement); ok {
			return se.Name.Local == "svg" && (se.Name.Space == "" || se.Name.Space == "svg")
		}
	}
}

var rePathD = regexp.MustCompile(`<path\b[^>]*?\sd=("[^"]*"|'[^']*')`)

func pathsValid(b []byte) (int, error) {
	n := 0
	for _, m := range rePathD.FindAllSubmatch(b, -1) {
		d := string(m[1][1 : len(m[1])-1])
		if strings.ContainsAny(d, "&") {
			continue
		}
		if _, err := svgpath.Parse(d); err != nil {
			return n, fmt.Errorf("path data %q: %v", clip(d), err)
		}
		n++
	}
	return n, nil
}

type rawEl struct {
	tag  string
	typ  string
	text string
}

// rawElements lists script/style/textarea/title elements and their text as the HTML tokenizer sees them.
func rawElements(b []byte) []rawEl {
	z := html.NewTokenizer(bytes.NewReader(b))
	var out []rawEl
	cur := -1
	for {
		tt := z.Next()
		if tt == html.ErrorToken {
			return out
		}
		switch tt {
		case html.StartTagToken, html.SelfClosingTagToken:
			// the self-closing flag is ignored on non-void HTML elements; the tokenizer also reports it for
			// <script title=/> where the slash belongs to the unquoted value
			name, hasAttr := z.TagName()
			n := string(name)
			if n == "script" || n == "style" || n == "textarea" || n == "title" {
				el := rawEl{tag: n}
				for hasAttr {
					var k, v []byte
					k, v, hasAttr = z.TagAttr()
					if string(k) == "type" {
						el.typ = strings.ToLower(strings.TrimSpace(string(v)))
					}
				}
				out = append(out, el)
				cur = len(out) - 1
			} else {
				cur = -1
			}
		case html.TextToken:
			if cur >= 0 {
				out[cur].text += string(z.Raw())
			}
		case html.EndTagToken:
			cur = -1
		}
	}
}

func isJSType(t string) bool {
	if i := strings.IndexByte(t, ';'); i >= 0 {
		t = strings.TrimSpace(t[:i])
	}
	return t == "" || t == "text/javascript" || t == "application/javascript" || t == "module" || t == "text/ecmascript" || t == "application/ecmascript" || t == "application/x-javascript"
}

func clip(s string) string {
	if len(s) > 300 {
		return s[:300] + "..."
	}
	return s
}

func check(c Case) (changed bool, accepted bool, err error) {
	in := c.src()
	if in == nil {
		return false, false, nil
	}
	m := mk.Full(c.Opts.Build())
	mt := seeds.Mediatype[c.Kind]
	if c.Kind == "js" && c.Module {
		mt = "application/javascript"
	}
	out, merr := mk.RunM(m, mt, in)
	if mk.IsPanic(merr) {
		return false, false, merr
	}
	if merr != nil {
		return false, false, nil
	}
	accepted = true
	changed = !bytes.Equal(in, out)
	// (1) re-acceptance
	out2, err2 := mk.RunM(m, mt, out)
	if err2 != nil {
		return changed, true, fmt.Errorf("the minifier rejects its own output: %v\n--- output (%d bytes):\n%s", firstLine(err2), len(out), clip(string(out)))
	}
	_ = out2
	// (2) conditional validity
	switch c.Kind {
	case "js":
		// the media type does not tell the goal: the output must stay valid for every goal the input is valid for.
		// A script that uses await as an identifier (await(a()).b) is excepted, it is read as a module's await.
		for _, module := range []bool{false, true} {
			if module != c.Module && c.Source != "mutated" {
				continue
			}
			if !module && reAwait.Match(in) && c.Source == "mutated" {
				continue
			}
			okIn, e := jsValid(string(in), module)
			if e != nil {
				return changed, true, fmt.Errorf("HARNESS: %v", e)
			}
			if okIn {
				okOut, e := jsValid(string(out), module)
				if e != nil {
					return changed, true, fmt.Errorf("HARNESS: %v", e)
				}
				if !okOut {
					return changed, true, fmt.Errorf("valid JS (module=%v) became invalid\n--- input:\n%s\n--- output:\n%s", module, clip(string(in)), clip(string(out)))
				}
			}
		}
	case "json":
		if stdjson.Valid(in) && !stdjson.Valid(out) {
			return changed, true, fmt.Errorf("valid JSON became invalid: %s -> %s", clip(string(in)), clip(string(out)))
		}
	case "xml", "svg":
		if xmlValid(in) == nil && (c.Kind == "xml" || svgRoot(in)) {
			if e := xmlValid(out); e != nil {
				return changed, true, fmt.Errorf("well-formed %s became malformed: %v\n--- input:\n%s\n--- output:\n%s", c.Kind, e, clip(string(in)), clip(string(out)))
			}
			if c.Kind == "svg" {
				if _, e := pathsValid(in); e == nil {
					if _, e2 := pathsValid(out); e2 != nil {
						return changed, true, fmt.Errorf("valid path data became invalid: %v\n--- input:\n%s\n--- output:\n%s", e2, clip(string(in)), clip(string(out)))
					}
				}
			}
		}
	case "css":
		bi, bali := cssval.BadTokens(string(in))
		bo, balo := cssval.BadTokens(string(out))
		if bi == 0 && bo > 0 {
			return changed, true, fmt.Errorf("CSS output has bad-string/bad-url tokens the input did not have\n--- input:\n%s\n--- output:\n%s", clip(string(in)), clip(string(out)))
		}
		if bi == 0 && bali && !balo {
			return changed, true, fmt.Errorf("CSS output has unbalanced brackets, those of the input nest properly\n--- input:\n%s\n--- output:\n%s", clip(string(in)), clip(string(out)))
		}
	case "html":
		if c.Source == "mutated" {
			// no independent notion of a valid HTML document for byte-mutated input (the tokenizer accepts
			// every byte string): re-acceptance only
			break
		}
		ri, ro := rawElements(in), rawElements(out)
		// script/style elements whose content is (or minifies to) nothing are left out of the comparison
		strip := func(rs []rawEl) []rawEl {
			var o []rawEl
			for _, r := range rs {
				if (r.tag == "script" || r.tag == "style") && (commentOnly(r.tag, r.text) || minifiesToNothing(m, r)) {
					continue
				}
				o = append(o, r)
			}
			return o
		}
		ri, ro = strip(ri), strip(ro)
		if len(ri) != len(ro) {
			return changed, true, fmt.Errorf("the sequence of script/style/textarea/title elements changed: %d -> %d (%s -> %s)", len(ri), len(ro), tags(ri), tags(ro))
		}
		for i := range ri {
			if ri[i].tag != ro[i].tag {
				return changed, true, fmt.Errorf("raw-text element %d changed: <%s> -> <%s>", i, ri[i].tag, ro[i].tag)
			}
			if ri[i].tag == "script" && isJSType(ri[i].typ) {
				mod := ri[i].typ == "module"
				okIn, e := jsValid(ri[i].text, mod)
				if e != nil {
					return changed, true, fmt.Errorf("HARNESS: %v", e)
				}
				if okIn {
					okOut, e := jsValid(ro[i].text, mod)
					if e != nil {
						return changed, true, fmt.Errorf("HARNESS: %v", e)
					}
					if !okOut {
						return changed, true, fmt.Errorf("embedded script %d was valid JS and is not any more\n--- input script:\n%s\n--- output script:\n%s", i, clip(ri[i].text), clip(ro[i].text))
					}
				}
			}
		}
	}
	return changed, true, nil
}

var reJSComments = regexp.MustCompile(`(?s)/\*.*?\*/|//[^\n]*|<!--[^\n]*|-->[^\n]*`)
var reCSSComments = regexp.MustCompile(`(?s)/\*.*?\*/|<!--|-->`)

// commentOnly: a script or style whose text holds nothing but comments, whitespace and semicolons may become empty.
func commentOnly(tag, s string) bool {
	if tag == "style" {
		s = reCSSComments.ReplaceAllString(s, "")
	} else {
		s = reJSComments.ReplaceAllString(s, "")
	}
	return strings.Trim(s, " \t\r\n\f;") == ""
}

// minifiesToNothing: the stand-alone minifier reduces the content to nothing (if(true);; or a{}); only used to
// align the two element sequences
func minifiesToNothing(m *minify.M, r rawEl) bool {
	mt := "text/css"
	if r.tag == "script" {
		if !isJSType(r.typ) {
			return false
		}
		mt = "application/javascript"
	}
	out, err := mk.RunM(m, mt, []byte(r.text))
	return err == nil && len(bytes.TrimSpace(out)) == 0
}

func tags(rs []rawEl) string {
	var s []string
	for _, r := range rs {
		s = append(s, r.tag)
	}
	return strings.Join(s, ",")
}

func firstLine(err error) string {
	s := err.Error()
	if i := strings.IndexByte(s, '\n'); i >= 0 {
		s = s[:i]
	}
	return s
}

func guards() map[string]bool {
	g := map[string]bool{}
	for _, f := range hx.Findings() {
		if f.Status == "known" && f.Guard != "" {
			g[f.Guard] = true
		}
	}
	return g
}

func genCase(t *rapid.T, g0 map[string]bool) Case {
	kind := rapid.SampledFrom(seeds.Kinds).Draw(t, "kind")
	c := Case{Kind: kind, Opts: mk.GenOptions(t, false), Source: "generated"}
	c.Opts.HTMLTemplateDelims = [2]string{}
	if rapid.IntRange(0, 2).Draw(t, "mutated") == 0 {
		c.Source = "mutated"
		other := seeds.Doc(t, rapid.SampledFrom(seeds.Kinds).Draw(t, "otherkind"))
		setSrc(&c, []byte(mutate.Mutate(t, seeds.Doc(t, kind), other, 3)))
		return c
	}
	switch kind {
	case "js":
		goal := rapid.SampledFrom([]string{"sloppy", "strict", "module"}).Draw(t, "goal")
		p := jsgen.Gen(t, jsgen.Config{Goal: goal, MaxStmts: 8, Guards: g0})
		c.Src, c.Module = p.Src, p.Goal == "module"
	case "css":
		c.Src = (&cssgen.G{T: t, Feats: map[string]int{}, Guards: g0}).Stylesheet()
	case "html":
		// with embedded script and style payloads from the other generators
		hg := &htmlgen.G{T: t, Feats: map[string]int{}, Guards: g0}
		hg.Script = func() string {
			p := jsgen.Gen(t, jsgen.Config{Goal: "sloppy", MaxStmts: 3, Guards: g0})
			return strings.ReplaceAll(p.Src, "</script", "<\\/script")
		}
		hg.Style = func() string { return (&cssgen.G{T: t, Feats: map[string]int{}, Guards: g0}).Stylesheet() }
		c.Src = hg.Gen().Src
	case "xml":
		c.Src = xmlgen.Gen(t).Src
	case "svg":
		c.Src = (&svggen.G{T: t, Feats: map[string]int{}}).Doc(false)
	case "json":
		c.Src = jsongen.Text(t, 50)
	}
	return c
}

func record(c Case, changed, accepted bool, n int) {
	b, _ := stdjson.Marshal(c)
	size := "size<64"
	switch {
	case n >= 1<<20:
		size = "size>=1MB"
	case n >= 1<<16:
		size = "size>=64KB"
	case n >= 1<<10:
		size = "size>=1KB"
	case n >= 64:
		size = "size>=64"
	}
	acc := "rejected"
	if accepted {
		acc = "accepted"
	}
	hx.C.Case(hx.Hash(string(b)), accepted && changed && (n >= 64 || c.Source == "corpus"), "kind:"+c.Kind, "source:"+c.Source, size, acc)
}

func TestCampaignGenerated(t *testing.T) {
	hx.C.SetRule(rule)
	hx.C.Assume("validity of the output is only demanded for inputs the independent parser accepts (the minifiers' lexers are deliberately lenient)", "V8, encoding/json, encoding/xml (with HTML entities allowed), x/net/html tokenizer and the own CSS tokenizer are the independent parsers")
	defer jsrun.Default.Close()
	hx.Setup("generated", 60000, 2000000)
	g0 := guards()
	rapid.Check(t, func(t *rapid.T) {
		c := genCase(t, g0)
		changed, accepted, err := check(c)
		record(c, changed, accepted, len(c.src()))
		if accepted && changed && len(c.Src) > 64 && len(c.Src) < 400 {
			hx.C.Sample(len(c.Src), c)
		}
		if err != nil && strings.HasPrefix(err.Error(), "HARNESS:") {
			t.Fatalf("%v", err)
		}
		hx.KnownOrFail(t, "generated", c, err, func() string { return matchKnown(c, err) })
	})
}

// whole corpus and benchmark files: real-world sized documents with embedded languages
func TestCampaignCorpus(t *testing.T) {
	hx.C.SetRule(rule)
	defer jsrun.Default.Close()
	idx := 0
	for _, kind := range seeds.Kinds {
		for _, f := range seeds.Files(kind, 0) {
			idx++
			if idx%hx.E.NShards != hx.E.Shard {
				continue
			}
			for _, o := range []mk.Options{{}, {JSKeepVars: true, HTMLKeepWhitespace: true, HTMLKeepEndTags: true, HTMLKeepQuotes: true, HTMLKeepDocTags: true, CSSKeepCSS2: true, XMLKeepWhitespace: true, JSONKeepNumbers: true, SVGKeepComments: true, JSVersion: 2015}} {
				c := Case{Kind: kind, File: f.Path, Opts: o, Source: "corpus"}
				changed, accepted, err := check(c)
				record(c, changed, accepted, len(f.Data))
				if err != nil && strings.HasPrefix(err.Error(), "HARNESS:") {
					t.Fatalf("%v", err)
				}
				if err != nil {
					if id := matchKnown(c, err); id != "" && hx.IsKnown(id) {
						hx.C.Known(id)
						continue
					}
					hx.Fail(t, "corpus", c, "%s: %v", f.Path, err)
				}
			}
		}
	}
}

var rePrefixUpdateExp = regexp.MustCompile(`(\+\+|--)[^;,(){}]*\*\*`)
var rePIWithGT = regexp.MustCompile(`<\?(?:[^?>]|\?+[^?>])*>`)
var reOptChainTemplate = regexp.MustCompile("\\?\\.[\\w$.]*`")
var reInfinityTarget = regexp.MustCompile(`\bInfinity\s*(=[^=]|\+\+|--|\bin\b|\bof\b|[\]},])|(\+\+|--)\s*Infinity\b`)

func firstOutput(c Case) []byte {
	mt := seeds.Mediatype[c.Kind]
	out, _ := mk.RunM(mk.Full(c.Opts.Build()), mt, c.src())
	return out
}

var reNulRef = regexp.MustCompile(`&#(0+|[xX]0+|[xX][0-9a-fA-F]{9,}|[0-9]{12,});`)
var reAwait = regexp.MustCompile(`\bawait\b`)
var reDelimBeforeBrace = regexp.MustCompile(`[{;](\s|/\*[^*]*\*+([^/*][^*]*\*+)*/)*\*(\s|/\*[^*]*\*+([^/*][^*]*\*+)*/)*\}`)
var reURLClosedByEOF = regexp.MustCompile(`(?is)url\([^)]*$`)
var reDashedFunctionDecl = regexp.MustCompile(`[{;]\s*--[-\w]*\(`)
var reElseLexical = regexp.MustCompile(`else\s*\{[^{}]*\b(let|const|class)\b`)

func matchKnown(c Case, err error) string {
	if err == nil {
		return ""
	}
	msg := err.Error()
	// the else branch after a jump is spliced into the enclosing block together with its lexical declarations
	if (c.Kind == "js" || c.Kind == "html") && strings.Contains(msg, "has already been declared") && reElseLexical.Match(c.src()) {
		return "C09-else-unscope-redeclaration"
	}
	// ++b**2 is valid JavaScript (V8 accepts it) but the parser of the minifier does not
	if (c.Kind == "js" || c.Kind == "html") && strings.Contains(msg, "rejects its own output: unexpected ** in expression") {
		// the message only shows the start of the output: look at all of it
		whole := msg
		mt := seeds.Mediatype[c.Kind]
		if o, e := mk.RunM(mk.Full(c.Opts.Build()), mt, c.src()); e == nil {
			whole = string(o)
		}
		if rePrefixUpdateExp.MatchString(whole) {
			return "C09-prefix-update-exp-reparse"
		}
	}
	// a url( that only the end of the input closes: the last two bytes are taken for the quote and the parenthesis
	if (c.Kind == "css" || c.Kind == "html" || c.Kind == "svg") && reURLClosedByEOF.Match(c.src()) && (strings.Contains(msg, "bad-string/bad-url") || strings.Contains(msg, "unbalanced brackets") || strings.Contains(msg, "rejects its own output")) {
		return "C09-css-url-closed-by-eof"
	}
	// ]]&gt; decoded to ]]> in character data
	if (c.Kind == "xml" || c.Kind == "svg") && strings.Contains(msg, "unescaped ]]> not in CDATA section") {
		return "C09-gt-after-brackets"
	}
	if c.Kind == "js" || c.Kind == "html" {
		out := firstOutput(c)
		// a?.b`tpl`
		if strings.Contains(msg, "valid JS") && reOptChainTemplate.Match(out) && bytes.Contains(c.src(), []byte("undefined")) {
			return "C09-optional-chain-tagged-template"
		}
		// (1/0)=..., (1/0)++, for((1/0)in
		if strings.Contains(msg, "valid JS") && reInfinityTarget.Match(c.src()) && bytes.Contains(out, []byte("1/0")) {
			return "C09-infinity-assignment-target"
		}
	}
	// HTML with tokenizer-level parse errors: where tags start and end is then a matter of error recovery,
	// in which the lexer of the dependency differs from the standard and from itself on rewritten markup
	if c.Kind == "html" && c.Source == "mutated" && strings.Contains(msg, "rejects its own output") {
		if ok, _ := htmlclean.Clean(c.src()); !ok {
			return "C09-html-tokenizer-parse-errors"
		}
	}
	// a lone delimiter right before the closing brace of a block
	if (c.Kind == "css" || c.Kind == "html" || c.Kind == "svg") && strings.Contains(msg, "unbalanced brackets") && reDelimBeforeBrace.Match(c.src()) {
		return "C09-css-delim-before-brace"
	}
	// &#0; decoded to a NUL byte
	if strings.Contains(msg, "unexpected NULL character") && reNulRef.Match(c.src()) {
		return "C09-numeric-reference-nul"
	}
	// a > inside a processing instruction ends it for the lexer of the dependency; the SVG minifier, which drops
	// processing instructions, then drops everything up to the next ?> or the end of the input
	if (c.Kind == "svg" || c.Kind == "xml") && strings.Contains(msg, "became malformed") && rePIWithGT.Match(c.src()) {
		return "C09-svg-pi-with-gt"
	}
	// a dashed function at the start of a declaration (--a(b)): taken for a custom property, its name is dropped
	if (c.Kind == "css" || c.Kind == "html" || c.Kind == "svg") && strings.Contains(msg, "unbalanced brackets") && reDashedFunctionDecl.Match(c.src()) {
		return "C09-css-dashed-function-declaration"
	}
	// input that is not a valid program (V8 rejects it for both goals) but is accepted by the lenient parser, e.g. an
	// invalid assignment target in parentheses: (a!=b)||=c
	if c.Kind == "js" && strings.Contains(msg, "rejects its own output") && utf8.Valid(c.src()) {
		s1, e1 := jsValid(string(c.src()), false)
		s2, e2 := jsValid(string(c.src()), true)
		if e1 == nil && e2 == nil && !s1 && !s2 {
			return "C09-js-invalid-program-accepted"
		}
	}
	// invalid UTF-8: the lexer of the dependency takes a lead byte plus the following byte as one identifier
	// character at one position and not at another
	if c.Kind == "js" && strings.Contains(msg, "rejects its own output") && !utf8.Valid(c.src()) {
		return "C09-js-invalid-utf8"
	}
	return ""
}

func TestReplay(t *testing.T) {
	defer jsrun.Default.Close()
	hx.ReplayTest(t, func(f hx.Failure) error {
		var g struct {
			GoFuzz string `json:"gofuzz"`
		}
		stdjson.Unmarshal(f.Case, &g)
		if g.GoFuzz != "" {
			args, err := hx.ParseGoFuzz(g.GoFuzz)
			if err != nil || len(args) < 2 {
				return fmt.Errorf("bad go fuzz file: %v", err)
			}
			kind := strings.ToLower(strings.TrimPrefix(strings.TrimPrefix(f.Check, "native-fuzz:"), "Fuzz"))
			b, _ := args[0].([]byte)
			o, _ := args[1].(uint8)
			_, _, err = check(fuzzCase(kind, b, o))
			return err
		}
		var c Case
		if err := stdjson.Unmarshal(f.Case, &c); err != nil {
			return err
		}
		_, _, err := check(c)
		return err
	})
}

// native fuzzing per media type, the same oracle inside the target; the option byte selects one of a few
// option sets. Known findings are excluded inside the target so that the campaign continues.
var fuzzOpts = []mk.Options{{}, {JSKeepVars: true, HTMLKeepWhitespace: true, HTMLKeepEndTags: true, HTMLKeepQuotes: true, HTMLKeepDocTags: true, CSSKeepCSS2: true, XMLKeepWhitespace: true, JSONKeepNumbers: true, SVGKeepComments: true, JSVersion: 2015}, {HTMLKeepComments: true, HTMLKeepDefaultAttrs: true, HTMLKeepSpecial: true, SVGPrecision: 2, CSSPrecision: 2, JSPrecision: 2, JSONPrecision: 2}}

func fuzzCase(kind string, b []byte, o uint8) Case {
	c := Case{Kind: kind, Opts: fuzzOpts[int(o)%len(fuzzOpts)], Source: "mutated"}
	setSrc(&c, b)
	return c
}

func fuzzKind(f *testing.F, kind string) {
	for i, s := range seeds.Snippets(kind) {
		if i < 400 && len(s) < 2048 {
			f.Add([]byte(s), uint8(i%3))
		}
	}
	for _, fl := range seeds.Files(kind, 16<<10) {
		f.Add(fl.Data, uint8(0))
	}
	for _, h := range []string{"</script>", "<!--", "]]>", "${", "\u2028", "0b1", "1e400", "\\0001", "<svg/>", "&#0;"} {
		f.Add([]byte(h), uint8(0))
	}
	f.Fuzz(func(t *testing.T, b []byte, o uint8) {
		if len(b) > 64<<10 {
			return
		}
		c := fuzzCase(kind, b, o)
		_, _, err := check(c)
		if err == nil {
			return
		}
		if strings.HasPrefix(err.Error(), "HARNESS:") {
			t.Skip(err.Error())
		}
		if id := matchKnown(c, err); id != "" && hx.IsKnown(id) {
			return
		}
		t.Fatal(err)
	})
}

func FuzzJS(f *testing.F)   { fuzzKind(f, "js") }
func FuzzHTML(f *testing.F) { fuzzKind(f, "html") }
func FuzzCSS(f *testing.F)  { fuzzKind(f, "css") }
func FuzzSVG(f *testing.F)  { fuzzKind(f, "svg") }
func FuzzXML(f *testing.F)  { fuzzKind(f, "xml") }
func FuzzJSON(f *testing.F) { fuzzKind(f, "json") }
