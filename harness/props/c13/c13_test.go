package c13

import (
	"bytes"
	"crypto/sha256"
	"encoding/hex"
	"encoding/json"
	"fmt"
	"io"
	"os"
	"os/exec"
	"reflect"
	"regexp"
	"runtime"
	"sort"
	"strings"
	"sync"
	"testing"
	"time"

	"github.com/tdewolff/minify/v2"
	mcss "github.com/tdewolff/minify/v2/css"
	mhtml "github.com/tdewolff/minify/v2/html"
	mjs "github.com/tdewolff/minify/v2/js"
	mjson "github.com/tdewolff/minify/v2/json"
	msvg "github.com/tdewolff/minify/v2/svg"
	mxml "github.com/tdewolff/minify/v2/xml"
	"pgregory.net/rapid"

	"verifharness/gen/seeds"
	"verifharness/hx"
	"verifharness/mk"
)

func TestMain(m *testing.M) {
	if os.Getenv("VERIF_C13_CHILD") == "1" {
		// determinism across processes: print the digest of the fixed work list and leave
		fmt.Println("DIGEST " + fixedDigest())
		os.Exit(0)
	}
	hx.Main(m)
}

type Item struct {
	Entry string `json:"entry"` // Minify Bytes String Reader Writer Match MinifyMimetype
	Kind  string `json:"kind"`
	Src   string `json:"src"`
}

type Case struct {
	Items      []Item `json:"items"`
	Goroutines int    `json:"goroutines"`
	Procs      int    `json:"gomaxprocs"`
	Repeat     int    `json:"repeat"` // every item is executed by this many goroutines
	Hotspot    bool   `json:"hotspot,omitempty"` // all items are documents that consist of one large data URI
	Yield      bool   `json:"yield"`
	Order      []int  `json:"order"` // permutation seed per goroutine
	Cold       bool   `json:"cold,omitempty"` // the concurrent calls are the first ones a freshly registered registry sees
}

const rule = "cases = work lists of (entry point, media type, input) executed by G goroutines (2..48) at GOMAXPROCS 1/2/4/16 on ONE registry with SHARED option structs (all six minifiers + a command minifier), every item by 1..3 goroutines in different orders, with Gosched pacing; inputs from the repository snippets of all media types plus re-entrant HTML/SVG/CSS documents (script, style, inline svg, style/on* attributes, data URIs); one work list in eight is a hot spot: 12..48 goroutines on documents that consist of one large data URI with an SVG image, so that many calls are inside the same helper at the same moment; oracle = (1) every concurrent result (bytes and error text) equals the sequential result computed before, (2) the race detector is silent (build with -race, halt on first report), (3) deep snapshots of all option structs and of the exec.Cmd are unchanged, (4) while one call is parked in a reader the harness controls, all other calls complete (non-blocking), (5) the digest of all outputs of a fixed work list is identical in this process, in a repeated run and in two fresh child processes; distinct by hash of the work list; non-trivial = >= 4 goroutines, >= 2 media types and >= 1 re-entrant document"

// the shared registry and its shared option structs
type world struct {
	m    *minify.M
	css  *mcss.Minifier
	html *mhtml.Minifier
	js   *mjs.Minifier
	json *mjson.Minifier
	svg  *msvg.Minifier
	xml  *mxml.Minifier
	cmd  *exec.Cmd
	snap []interface{}
}

func newWorld() *world {
	w := &world{css: &mcss.Minifier{Precision: 3}, html: &mhtml.Minifier{KeepDocumentTags: true, KeepConditionalComments: true, TemplateDelims: [2]string{"{{", "}}"}}, js: &mjs.Minifier{Version: 2019}, json: &mjson.Minifier{}, svg: &msvg.Minifier{Precision: 4}, xml: &mxml.Minifier{}}
	w.m = minify.New()
	w.m.Add("text/css", w.css)
	w.m.Add("text/html", w.html)
	w.m.Add("image/svg+xml", w.svg)
	w.m.AddRegexp(mk.JSRe, w.js)
	w.m.AddRegexp(mk.JSONRe, w.json)
	w.m.AddRegexp(mk.XMLRe, w.xml)
	if p, err := exec.LookPath("cat"); err == nil {
		w.cmd = exec.Command(p)
		w.m.AddCmd("text/x-cat", w.cmd)
	}
	w.snap = w.snapshot()
	return w
}

func (w *world) snapshot() []interface{} {
	s := []interface{}{*w.css, *w.html, *w.js, *w.json, *w.svg, *w.xml}
	if w.cmd != nil {
		s = append(s, w.cmd.Path, append([]string{}, w.cmd.Args...), append([]string{}, w.cmd.Env...), w.cmd.Dir, w.cmd.Stdin == nil, w.cmd.Stdout == nil, w.cmd.Stderr == nil, w.cmd.Process == nil, w.cmd.ProcessState == nil)
	}
	return s
}

var theWorld = newWorld()

var mediatypes = map[string]string{"js": "application/javascript", "css": "text/css", "html": "text/html", "svg": "image/svg+xml", "xml": "text/xml", "json": "application/json", "cat": "text/x-cat"}

type result struct {
	Out string
	Err string
}

func errText(err error) string {
	if err == nil {
		return ""
	}
	return err.Error()
}

func run(w *world, it Item, yield bool) (res result) {
	defer func() {
		if r := recover(); r != nil {
			res = result{Err: fmt.Sprintf("PANIC: %v", r)}
		}
	}()
	mt := mediatypes[it.Kind]
	switch it.Entry {
	case "Minify":
		var buf bytes.Buffer
		err := w.m.Minify(mt, &buf, strings.NewReader(it.Src))
		return result{buf.String(), errText(err)}
	case "MinifyMimetype":
		var buf bytes.Buffer
		err := w.m.MinifyMimetype([]byte(mt), &buf, strings.NewReader(it.Src), nil)
		return result{buf.String(), errText(err)}
	case "Bytes":
		b, err := w.m.Bytes(mt, []byte(it.Src)) // private copy
		return result{string(b), errText(err)}
	case "String":
		s, err := w.m.String(mt, it.Src) // shared string
		return result{s, errText(err)}
	case "Reader":
		r := w.m.Reader(mt, strings.NewReader(it.Src))
		var buf bytes.Buffer
		p := make([]byte, 97)
		var err error
		for {
			var n int
			n, err = r.Read(p)
			buf.Write(p[:n])
			if err != nil {
				break
			}
			if yield {
				runtime.Gosched()
			}
		}
		if err == io.EOF {
			err = nil
		}
		return result{buf.String(), errText(err)}
	case "Writer":
		var buf bytes.Buffer
		wr := w.m.Writer(mt, &buf)
		src := []byte(it.Src)
		var err error
		for i := 0; i < len(src) && err == nil; i += 61 {
			j := i + 61
			if j > len(src) {
				j = len(src)
			}
			_, err = wr.Write(src[i:j])
			if yield {
				runtime.Gosched()
			}
		}
		cerr := wr.Close()
		if err == nil {
			err = cerr
		}
		return result{buf.String(), errText(err)}
	case "Match":
		a, p, f := w.m.Match(mt + "; charset=utf-8")
		return result{fmt.Sprintf("%s|%v|%v", a, p, f != nil), ""}
	}
	return result{Err: "HARNESS: unknown entry " + it.Entry}
}

// the Writer/Reader wrappers return a closed-pipe style error text that may depend on timing; errors are compared by their first line
func normErr(s string) string {
	if i := strings.IndexByte(s, '\n'); i >= 0 {
		s = s[:i]
	}
	return s
}

func nontrivial(c Case) bool {
	kinds := map[string]bool{}
	reent := false
	for _, it := range c.Items {
		kinds[it.Kind] = true
		if it.Kind == "html" && (strings.Contains(it.Src, "<script") || strings.Contains(it.Src, "<style") || strings.Contains(it.Src, "style=") || strings.Contains(it.Src, "<svg")) || it.Kind == "svg" && strings.Contains(it.Src, "style") || it.Kind == "css" && strings.Contains(it.Src, "data:") {
			reent = true
		}
	}
	return c.Goroutines >= 4 && len(kinds) >= 2 && reent
}

func check(c Case) error {
	w := theWorld
	old := runtime.GOMAXPROCS(c.Procs)
	defer runtime.GOMAXPROCS(old)
	// sequential reference
	want := make([]result, len(c.Items))
	for i, it := range c.Items {
		want[i] = run(w, it, false)
		if strings.HasPrefix(want[i].Err, "HARNESS:") {
			return fmt.Errorf("%s", want[i].Err)
		}
	}
	// sequential repetition: same bytes
	for i, it := range c.Items {
		if it.Kind == "cat" {
			continue
		}
		if r := run(w, it, false); r.Out != want[i].Out || normErr(r.Err) != normErr(want[i].Err) {
			return fmt.Errorf("a repeated sequential call gives different bytes for item %d (%s %s)\n--- first:\n%s\n%s\n--- second:\n%s\n%s", i, it.Entry, it.Kind, clip(want[i].Out), want[i].Err, clip(r.Out), r.Err)
		}
	}
	// a registry with the same registrations that has not served a single call yet
	cw := w
	if c.Cold {
		cw = newWorld()
	}
	type diff struct {
		g, i int
		got  result
	}
	var mu sync.Mutex
	var diffs []diff
	start := make(chan struct{})
	var wg sync.WaitGroup
	for g := 0; g < c.Goroutines; g++ {
		// every item is executed by Repeat goroutines: goroutine g takes the items i with (i+g) % ceil(G/Repeat) == 0 ... simply i % G in a window
		var mine []int
		for i := range c.Items {
			for r := 0; r < c.Repeat; r++ {
				if (i+r)%c.Goroutines == g {
					mine = append(mine, i)
					break
				}
			}
		}
		// per-goroutine order
		if len(c.Order) > 0 {
			k := c.Order[g%len(c.Order)]
			if k%2 == 1 {
				for a, b := 0, len(mine)-1; a < b; a, b = a+1, b-1 {
					mine[a], mine[b] = mine[b], mine[a]
				}
			}
			if len(mine) > 1 {
				rot := k % len(mine)
				mine = append(mine[rot:], mine[:rot]...)
			}
		}
		wg.Add(1)
		go func(g int, mine []int) {
			defer wg.Done()
			<-start
			for _, i := range mine {
				r := run(cw, c.Items[i], c.Yield)
				if r.Out != want[i].Out || normErr(r.Err) != normErr(want[i].Err) {
					mu.Lock()
					diffs = append(diffs, diff{g, i, r})
					mu.Unlock()
				}
				if c.Yield {
					runtime.Gosched()
				}
			}
		}(g, mine)
	}
	close(start)
	done := make(chan struct{})
	go func() { wg.Wait(); close(done) }()
	select {
	case <-done:
	case <-time.After(120 * time.Second):
		return fmt.Errorf("the concurrent calls did not all return within 120 s (%d goroutines, %d items)", c.Goroutines, len(c.Items))
	}
	if len(diffs) > 0 {
		d := diffs[0]
		it := c.Items[d.i]
		return fmt.Errorf("%d concurrent results differ from the sequential ones; first: goroutine %d item %d (%s %s)\n--- input:\n%s\n--- sequential:\n%s\n%s\n--- concurrent:\n%s\n%s", len(diffs), d.g, d.i, it.Entry, it.Kind, clip(it.Src), clip(want[d.i].Out), want[d.i].Err, clip(d.got.Out), d.got.Err)
	}
	if now := w.snapshot(); !reflect.DeepEqual(now, w.snap) {
		return fmt.Errorf("an option struct passed in by the user was mutated:\n--- before: %+v\n--- after:  %+v", w.snap, now)
	}
	return nil
}

func clip(s string) string {
	if len(s) > 400 {
		return s[:400] + "..."
	}
	return s
}

// ---- generation ----

var reentrant = []Item{
	{Kind: "html", Src: "<!doctype html><html><head><style> a { color : #ff0000 ; margin : 0px } </style><script> var a = 1 + 2 ; function f ( x ) { return x * 2 } </script></head><body style=\" color : red ; \" onload=\" f ( 1 ) ; \"><svg width=\"10\" height=\"10\"><style> rect { fill : #00ff00 } </style><rect style=\"fill : blue\" width=\"5.000\" height=\"5.000\"/></svg><img src=\"data:image/svg+xml;base64,PHN2ZyB4bWxucz0iaHR0cDovL3d3dy53My5vcmcvMjAwMC9zdmciPjxwYXRoIGQ9Ik0gMCAwIEwgMTAgMTAiLz48L3N2Zz4=\"><p> a  b </p></body></html>"},
	{Kind: "html", Src: "<p style=\"margin: 0px 0px 0px 0px\" onclick=\"javascript: if ( a ) { b ( ) }\">x</p><script type=\"application/ld+json\">{ \"a\" : [ 1.0 , 2 ] }</script><script type=module>import x from \"./x.js\" ; x ( )</script>"},
	{Kind: "svg", Src: "<svg xmlns=\"http://www.w3.org/2000/svg\"><style><![CDATA[ path { stroke : #000000 ; } ]]></style><path style=\"fill : #ffffff\" d=\"M 10 10 L 20 20 L 30 30 Z\"/></svg>"},
	{Kind: "css", Src: "a { background : url(data:image/svg+xml;base64,PHN2ZyB4bWxucz0iaHR0cDovL3d3dy53My5vcmcvMjAwMC9zdmciPjxwYXRoIGQ9Ik0gMCAwIEwgMTAgMTAiLz48L3N2Zz4=) ; color : rgb( 255 , 0 , 0 ) }"},
	{Kind: "cat", Src: "text through the command minifier\n"},
	{Kind: "html", Src: "<div><script>var broken = ;</script></div>"},
	{Kind: "js", Src: "var a = 1, b = 2; function f(longname, other){ var inner = longname + other; return inner * a }"},
}

// dataURIDoc: a stylesheet or an HTML document that is almost nothing but one large data URI holding an SVG image, so
// that a call spends its time inside the data URI helper and the minifier it calls
func dataURIDoc(html bool, paths int, quoted bool) Item {
	var sb strings.Builder
	sb.WriteString("<svg xmlns='http://www.w3.org/2000/svg' viewBox='0 0 100 100'>")
	for i := 0; i < paths; i++ {
		fmt.Fprintf(&sb, "<path d='M %d 10 L 20.00 %d L 30 30 Z' fill='#ff0000' />", i, i+1)
	}
	sb.WriteString("</svg>")
	enc := strings.NewReplacer("<", "%3C", ">", "%3E", "#", "%23", " ", "%20").Replace(sb.String())
	if html {
		return Item{Kind: "html", Src: "<p> a  b </p><img alt=x src=\"data:image/svg+xml," + enc + "\">"}
	}
	q := ""
	if quoted {
		q = "\""
	}
	return Item{Kind: "css", Src: ".logo { background-image : url(" + q + "data:image/svg+xml," + enc + q + ") ; color : #ff0000 }"}
}

func genHotspot(t *rapid.T) Case {
	c := Case{Goroutines: rapid.SampledFrom([]int{12, 16, 32, 48}).Draw(t, "goroutines"), Procs: rapid.SampledFrom([]int{2, 4, 16, 16}).Draw(t, "procs"), Repeat: rapid.IntRange(1, 3).Draw(t, "repeat"), Yield: rapid.IntRange(0, 3).Draw(t, "yield") == 0, Hotspot: true}
	n := rapid.IntRange(c.Goroutines, 3*c.Goroutines).Draw(t, "items")
	for i := 0; i < n; i++ {
		it := dataURIDoc(rapid.IntRange(0, 3).Draw(t, "html") == 0, rapid.SampledFrom([]int{40, 150, 300}).Draw(t, "paths")+i%7, rapid.Bool().Draw(t, "quoted"))
		it.Entry = rapid.SampledFrom([]string{"String", "Bytes", "Minify"}).Draw(t, "entry")
		c.Items = append(c.Items, it)
	}
	for g := 0; g < 8; g++ {
		c.Order = append(c.Order, rapid.IntRange(0, 100).Draw(t, "order"))
	}
	c.Cold = rapid.IntRange(0, 2).Draw(t, "cold") == 0
	return c
}

func genCase(t *rapid.T) Case {
	if rapid.IntRange(0, 7).Draw(t, "hotspot") == 0 {
		// many goroutines inside the same helper at the same moment
		return genHotspot(t)
	}
	n := rapid.IntRange(4, 40).Draw(t, "items")
	c := Case{Goroutines: rapid.SampledFrom([]int{2, 3, 4, 8, 16, 32, 48}).Draw(t, "goroutines"), Procs: rapid.SampledFrom([]int{1, 2, 4, 16}).Draw(t, "procs"), Repeat: rapid.IntRange(1, 3).Draw(t, "repeat"), Yield: rapid.Bool().Draw(t, "yield")}
	entries := []string{"Minify", "Bytes", "String", "Reader", "Writer", "Match", "MinifyMimetype", "String", "Bytes"}
	for i := 0; i < n; i++ {
		var it Item
		if rapid.IntRange(0, 2).Draw(t, "reentrant") == 0 {
			it = reentrant[rapid.IntRange(0, len(reentrant)-1).Draw(t, "which")]
		} else {
			it.Kind = rapid.SampledFrom(seeds.Kinds).Draw(t, "kind")
			it.Src = seeds.Doc(t, it.Kind)
			if len(it.Src) > 8192 {
				it.Src = it.Src[:8192]
			}
		}
		it.Entry = rapid.SampledFrom(entries).Draw(t, "entry")
		if it.Kind == "cat" && (it.Entry == "Match") {
			it.Entry = "Minify"
		}
		c.Items = append(c.Items, it)
	}
	for g := 0; g < 8; g++ {
		c.Order = append(c.Order, rapid.IntRange(0, 100).Draw(t, "order"))
	}
	if c.Repeat > c.Goroutines {
		c.Repeat = c.Goroutines
	}
	c.Cold = rapid.IntRange(0, 2).Draw(t, "cold") == 0
	return c
}

func TestCampaignConcurrent(t *testing.T) {
	hx.C.SetRule(rule)
	hx.C.Assume("goroutine interleavings are sampled (pacing, goroutine counts, GOMAXPROCS), not enumerated: Go's scheduler cannot be owned by a test", "in-place minification of a caller's []byte makes sharing that slice a caller error: Bytes inputs are private copies, String inputs are shared", "registration concurrent with use is documented as unsupported and not exercised")
	hx.Setup("concurrent", 1600, 48000)
	hx.StartWatchdog(150 * time.Second) // a call that never returns (lock re-entrancy) is a violation with the work list as replay
	rapid.Check(t, func(t *rapid.T) {
		c := genCase(t)
		b, _ := json.Marshal(c)
		hx.InFlight("concurrent", c)
		clear := hx.InFlightOnDisk("concurrent", c, "the process died while this work list was running (data race reported by the race detector, or a fatal runtime error): see the driver output")
		err := check(c)
		clear()
		hx.Idle()
		kinds := map[string]bool{}
		for _, it := range c.Items {
			kinds[it.Kind] = true
		}
		hx.C.Case(hx.Hash(string(b)), err == nil && nontrivial(c), fmt.Sprintf("goroutines:%d", c.Goroutines), fmt.Sprintf("gomaxprocs:%d", c.Procs), fmt.Sprintf("kinds:%d", len(kinds)), fmt.Sprintf("yield:%v", c.Yield), fmt.Sprintf("hotspot:%v", c.Hotspot))
		hx.C.AddExtra("concurrent_calls", int64(len(c.Items)*c.Repeat))
		if err == nil && nontrivial(c) && len(c.Items) <= 8 {
			var desc []string
			for _, it := range c.Items {
				desc = append(desc, fmt.Sprintf("%s/%s/%dB", it.Entry, it.Kind, len(it.Src)))
			}
			hx.C.Sample(len(c.Items), map[string]interface{}{"goroutines": c.Goroutines, "gomaxprocs": c.Procs, "repeat": c.Repeat, "yield": c.Yield, "items": desc})
		}
		if err != nil && strings.HasPrefix(err.Error(), "HARNESS:") {
			t.Fatalf("%v", err)
		}
		hx.KnownOrFail(t, "concurrent", c, err, func() string { return "" })
	})
}

// blockingReader parks the call that reads from it until released.
type blockingReader struct {
	data    []byte
	pos     int
	entered chan struct{}
	release chan struct{}
	once    sync.Once
}

func (r *blockingReader) Read(p []byte) (int, error) {
	if r.pos == 0 {
		// hand out the first half, then park
		n := copy(p, r.data[:len(r.data)/2])
		r.pos = n
		return n, nil
	}
	r.once.Do(func() { close(r.entered) })
	<-r.release
	if r.pos >= len(r.data) {
		return 0, io.EOF
	}
	n := copy(p, r.data[r.pos:])
	r.pos += n
	return n, nil
}

// (4) no call blocks on another: while one call per media type is parked inside its reader, every other call completes
func TestCampaignNonBlocking(t *testing.T) {
	if hx.E.Shard != 0 {
		return
	}
	w := theWorld
	for round := 0; round < 3; round++ {
		for _, park := range reentrant {
			if park.Kind == "cat" {
				continue
			}
			br := &blockingReader{data: []byte(park.Src), entered: make(chan struct{}), release: make(chan struct{})}
			parked := make(chan result, 1)
			go func() {
				var buf bytes.Buffer
				err := w.m.Minify(mediatypes[park.Kind], &buf, br)
				parked <- result{buf.String(), errText(err)}
			}()
			select {
			case <-br.entered:
			case <-time.After(30 * time.Second):
				hx.Fail(t, "nonblocking", park, "the parked call never reached its reader")
				return
			}
			done := make(chan int, 1)
			go func() {
				n := 0
				for _, it := range reentrant {
					for _, e := range []string{"Minify", "Bytes", "String", "Reader", "Writer", "Match"} {
						it.Entry = e
						if it.Kind == "cat" && e == "Match" {
							continue
						}
						run(w, it, false)
						n++
					}
				}
				done <- n
			}()
			select {
			case n := <-done:
				hx.C.CaseEnum(true)
				hx.C.Class("nonblocking-round")
				hx.C.AddExtra("calls_completed_while_one_parked", int64(n))
			case <-time.After(30 * time.Second):
				close(br.release)
				hx.Fail(t, "nonblocking", park, "calls on the shared registry block while another call (%s) is parked in its reader", park.Kind)
				return
			}
			close(br.release)
			select {
			case r := <-parked:
				ref := run(w, Item{Entry: "Minify", Kind: park.Kind, Src: park.Src}, false)
				if r.Out != ref.Out || normErr(r.Err) != normErr(ref.Err) {
					hx.Fail(t, "nonblocking", park, "the parked call returned different bytes than an undisturbed call\n--- parked:\n%s\n%s\n--- reference:\n%s\n%s", clip(r.Out), r.Err, clip(ref.Out), ref.Err)
					return
				}
			case <-time.After(30 * time.Second):
				hx.Fail(t, "nonblocking", park, "the parked call did not return after release")
				return
			}
		}
	}
}

// (5) determinism across processes
func fixedItems() []Item {
	var items []Item
	for _, k := range seeds.Kinds {
		for i, s := range seeds.Snippets(k) {
			if i%3 == 0 && len(s) < 4096 {
				items = append(items, Item{Entry: "String", Kind: k, Src: s})
			}
		}
		for _, f := range seeds.Files(k, 256<<10) {
			items = append(items, Item{Entry: "String", Kind: k, Src: string(f.Data)})
		}
	}
	for _, it := range reentrant {
		if it.Kind != "cat" {
			it.Entry = "String"
			items = append(items, it)
		}
	}
	return items
}

func fixedDigest() string {
	w := newWorld()
	h := sha256.New()
	var lines []string
	for i, it := range fixedItems() {
		r := run(w, it, false)
		s := sha256.Sum256([]byte(r.Out + "\x00" + normErr(r.Err)))
		lines = append(lines, fmt.Sprintf("%06d %s", i, hex.EncodeToString(s[:8])))
	}
	sort.Strings(lines)
	for _, l := range lines {
		h.Write([]byte(l))
	}
	return fmt.Sprintf("%d:%s", len(lines), hex.EncodeToString(h.Sum(nil)))
}

var reDigest = regexp.MustCompile(`DIGEST (\S+)`)

func TestCampaignDeterminism(t *testing.T) {
	if hx.E.Shard != 0 {
		return
	}
	d0 := fixedDigest()
	d1 := fixedDigest()
	if d0 != d1 {
		hx.Fail(t, "determinism", map[string]string{"what": "repeated in-process run"}, "two runs over the fixed work list in one process give different output digests: %s vs %s", d0, d1)
		return
	}
	for i := 0; i < 2; i++ {
		cmd := exec.Command(os.Args[0])
		cmd.Env = append(os.Environ(), "VERIF_C13_CHILD=1", fmt.Sprintf("GOMAXPROCS=%d", 1+i*7))
		out, err := cmd.CombinedOutput()
		m := reDigest.FindSubmatch(out)
		if err != nil || m == nil {
			t.Fatalf("HARNESS: child process failed: %v\n%s", err, out)
		}
		if string(m[1]) != d0 {
			hx.Fail(t, "determinism", map[string]string{"what": "fresh process"}, "a fresh process gives a different output digest over the fixed work list: %s vs %s", m[1], d0)
			return
		}
	}
	n := len(fixedItems())
	hx.C.CaseEnum(true)
	hx.C.Class("determinism-4-runs")
	hx.C.AddExtra("determinism_items", int64(n))
}

func TestReplay(t *testing.T) {
	hx.ReplayTest(t, func(f hx.Failure) error {
		var c Case
		if err := json.Unmarshal(f.Case, &c); err != nil {
			return err
		}
		if len(c.Items) == 0 {
			return nil
		}
		for i := 0; i < 20; i++ {
			if err := check(c); err != nil {
				return err
			}
		}
		return nil
	})
}
