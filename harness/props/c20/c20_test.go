package c20

import (
	"bytes"
	"encoding/json"
	"fmt"
	"os"
	"os/exec"
	"path/filepath"
	"regexp"
	"sort"
	"strconv"
	"strings"
	"testing"
	"time"

	"pgregory.net/rapid"

	"verifharness/hx"
	"verifharness/mk"
)

func TestMain(m *testing.M) { hx.Main(m) }

type File struct {
	Path string `json:"path"`
	Kind string `json:"kind"` // content generator: js css html json svg xml txt bad-js empty
	Size int    `json:"size"` // approximate size in bytes
	Mode uint32 `json:"mode"`
}

type Scenario struct {
	Files []File      `json:"files"`
	Args  []string    `json:"args"`
	Shape string      `json:"shape"`
	Links [][2]string `json:"links,omitempty"`  // symbolic links (path, target) created after the files
	KillK int         `json:"kill_k,omitempty"` // set in replay files: the failing boundary
}

const rule = "cases = (scenario, k): scenarios are in-place file, in-place tree (sequential -v and the default worker pool), separate output file, output directory, bundle (also onto any one of its inputs: the result then equals the same bundle written elsewhere), in-place with a foreign <name>.bak already present (the run refuses, nothing changes) and --sync invocations over files of all types with sizes 0 B, small, 64 KB+1 and 1 MB, incl. files the minifier rejects; for every scenario the binary is traced once to count its K file-system syscalls (open with O_CREAT/O_TRUNC/O_WRONLY, write/pwrite/writev to fd > 2, close of fd > 2, rename*, unlink*, mkdir*, chmod/chown/utimens*, symlink*, link*, truncate, fsync, all threads and child processes in global order) and then EVERY k = 1..K is executed: the tree is restored, the run is repeated under ptrace and the whole process is killed (SIGKILL) at the entry of the k-th such syscall, i.e. with the disk in the state after the (k-1)-th; oracle = invariant over the frozen disk: for every input file either its path holds the complete original bytes, or <name>.bak holds them, or its path holds the complete new output; files that are only read are unchanged and have no .bak; no other pre-existing file changed; exhaustive over k per scenario; non-trivial = a kill strictly after the first and before the last file-system change of the run"

func content(kind string, size int) string {
	unit := map[string]string{
		"js":     "function f%d ( longName , other ) { var local = longName + other ; return local * 2 }\n",
		"css":    ".cls%d { color : #ff0000 ; margin : 0px 0px 0px 0px }\n",
		"html":   "<div class=\"c%d\"> <p> some  text </p> <span> more </span> </div>\n",
		"json":   "",
		"svg":    "",
		"xml":    "",
		"txt":    "plain text line %d\n",
		"bad-js": "function f%d ( a ) { return a }\n",
	}[kind]
	var sb strings.Builder
	switch kind {
	case "empty":
		return ""
	case "json":
		sb.WriteString("[ ")
		for i := 0; sb.Len() < size; i++ {
			if i > 0 {
				sb.WriteString(" , ")
			}
			fmt.Fprintf(&sb, "{ \"k%d\" : [ 1.0 , 2.50 , \"v\" ] }", i)
		}
		sb.WriteString(" ]\n")
		return sb.String()
	case "svg":
		sb.WriteString("<svg xmlns=\"http://www.w3.org/2000/svg\">\n")
		for i := 0; sb.Len() < size; i++ {
			fmt.Fprintf(&sb, "  <path d=\"M %d 0 L 10.0 10.0 L 20 20 Z\" fill=\"#ff0000\"/>\n", i)
		}
		sb.WriteString("</svg>\n")
		return sb.String()
	case "xml":
		sb.WriteString("<?xml version=\"1.0\"?>\n<root>\n")
		for i := 0; sb.Len() < size; i++ {
			fmt.Fprintf(&sb, "  <item id=\"%d\"> text </item>\n", i)
		}
		sb.WriteString("</root>\n")
		return sb.String()
	}
	for i := 0; sb.Len() < size || i == 0; i++ {
		fmt.Fprintf(&sb, unit, i)
	}
	if kind == "bad-js" {
		sb.WriteString("var = ;\n")
	}
	return sb.String()
}

var extOf = map[string]string{"js": "js", "css": "css", "html": "html", "json": "json", "svg": "svg", "xml": "xml", "txt": "txt", "bad-js": "js", "empty": "css"}

type fsState map[string][]byte

func materialise(root string, files []File) (fsState, error) {
	st := fsState{}
	for _, f := range files {
		p := filepath.Join(root, f.Path)
		if err := os.MkdirAll(filepath.Dir(p), 0o755); err != nil {
			return nil, err
		}
		c := []byte(content(f.Kind, f.Size))
		if err := os.WriteFile(p, c, os.FileMode(f.Mode)); err != nil {
			return nil, err
		}
		old := time.Date(2020, 1, 2, 3, 4, 5, 0, time.UTC)
		os.Chtimes(p, old, old)
		st[f.Path] = c
	}
	return st, nil
}

func snapshot(root string) (fsState, error) {
	st := fsState{}
	err := filepath.Walk(root, func(p string, info os.FileInfo, err error) error {
		if err != nil {
			return err
		}
		if info.Mode().IsRegular() {
			b, e := os.ReadFile(p)
			if e != nil {
				return e
			}
			rel, _ := filepath.Rel(root, p)
			st[rel] = b
		}
		return nil
	})
	return st, err
}

var reCount = regexp.MustCompile(`(?m)^(COUNT|COMPLETED|KILLED) (\d+)( \S+)?`)

type run struct {
	state  fsState
	n      int
	killed bool
	sys    string
	log    string
}

func execute(sc Scenario, k int) (run, fsState, error) {
	cli, pk := os.Getenv("VERIF_CLI"), os.Getenv("VERIF_PTKILL")
	if cli == "" || pk == "" {
		return run{}, nil, fmt.Errorf("HARNESS: VERIF_CLI / VERIF_PTKILL not set")
	}
	parent, err := os.MkdirTemp("", "c20-")
	if err != nil {
		return run{}, nil, fmt.Errorf("HARNESS: %v", err)
	}
	defer os.RemoveAll(parent)
	work := filepath.Join(parent, "work")
	os.Mkdir(work, 0o755)
	orig, err := materialise(work, sc.Files)
	if err != nil {
		return run{}, nil, fmt.Errorf("HARNESS: %v", err)
	}
	for _, l := range sc.Links {
		if err := os.Symlink(l[1], filepath.Join(work, l[0])); err != nil {
			return run{}, nil, fmt.Errorf("HARNESS: %v", err)
		}
	}
	report := filepath.Join(parent, "report")
	args := []string{"-report", report}
	if k == 0 {
		args = append(args, "-count")
	} else {
		args = append(args, "-kill", strconv.Itoa(k))
	}
	args = append(args, "--", cli)
	for _, a := range sc.Args {
		args = append(args, strings.ReplaceAll(a, "{{WD}}", work)) // the working directory spelled as an absolute path
	}
	cmd := exec.Command(pk, args...)
	cmd.Dir = work
	cmd.Env = append(os.Environ(), "HOME="+parent, "XDG_CONFIG_HOME="+parent)
	var so, se bytes.Buffer
	cmd.Stdout, cmd.Stderr = &so, &se
	done := make(chan error, 1)
	if err := cmd.Start(); err != nil {
		return run{}, nil, fmt.Errorf("HARNESS: %v", err)
	}
	go func() { done <- cmd.Wait() }()
	select {
	case err = <-done:
	case <-time.After(120 * time.Second):
		cmd.Process.Kill()
		return run{}, nil, fmt.Errorf("HARNESS: traced run did not finish within 120 s")
	}
	rep, _ := os.ReadFile(report)
	m := reCount.FindSubmatch(rep)
	if m == nil {
		return run{}, nil, fmt.Errorf("HARNESS: no report from ptkill (%v)\n%s\n%s", err, rep, se.String())
	}
	r := run{log: string(rep)}
	r.n, _ = strconv.Atoi(string(m[2]))
	r.killed = string(m[1]) == "KILLED"
	r.sys = strings.TrimSpace(string(m[3]))
	if r.state, err = snapshot(work); err != nil {
		return run{}, nil, fmt.Errorf("HARNESS: %v", err)
	}
	return r, orig, nil
}

// which files are written in place (destination == an input), from the arguments
func roles(sc Scenario) (inputs map[string]bool, inplace bool) {
	inputs = map[string]bool{}
	var out string
	var ins []string
	rec := false
	for i := 0; i < len(sc.Args); i++ {
		switch a := sc.Args[i]; a {
		case "-o":
			i++
			out = sc.Args[i]
		case "-r":
			rec = true
		case "-q", "-v", "-b", "-a", "--sync", "--":
		default:
			if !strings.HasPrefix(a, "-") {
				ins = append(ins, a)
			}
		}
	}
	for _, in := range ins {
		clean := filepath.Clean(in)
		for _, f := range sc.Files {
			if f.Path == clean || rec && strings.HasPrefix(f.Path, clean+"/") {
				inputs[f.Path] = true
			}
		}
	}
	_ = out
	return inputs, sc.Shape == "inplace-file" || sc.Shape == "inplace-file-abs" || sc.Shape == "inplace-long-name" || sc.Shape == "inplace-bak-exists" || sc.Shape == "sync-onto-self" || sc.Shape == "inplace-via-link" || sc.Shape == "inplace-tree" || sc.Shape == "inplace-tree-pool" || sc.Shape == "bundle-onto-input"
}

func invariant(sc Scenario, orig, final, frozen fsState) error {
	inputs, _ := roles(sc)
	for p, o := range orig {
		cur, ok := frozen[p]
		bak, okb := frozen[p+".bak"]
		n, hasNew := final[p]
		switch {
		case ok && bytes.Equal(cur, o):
			// the original is in place
		case okb && bytes.Equal(bak, o):
			// the backup holds it
		case ok && hasNew && inputs[p] && bytes.Equal(cur, n):
			// the complete new output
		default:
			what := "absent"
			if ok {
				what = fmt.Sprintf("%d bytes (original %d, new output %d)", len(cur), len(o), len(n))
			}
			bk := "absent"
			if okb {
				bk = fmt.Sprintf("%d bytes", len(bak))
			}
			return fmt.Errorf("the content of %s is nowhere on disk: the path holds %s, %s.bak is %s", p, what, p, bk)
		}
		if !inputs[p] {
			if !ok || !bytes.Equal(cur, o) {
				return fmt.Errorf("%s is not an input and was changed", p)
			}
		}
		// a file that is only read (its final content is the original) must never change nor get a backup
		if hasNew && bytes.Equal(n, o) && inputs[p] && finalIsRead(sc, p) {
			if !ok || !bytes.Equal(cur, o) {
				return fmt.Errorf("%s is only read by this invocation and was changed", p)
			}
			if okb {
				return fmt.Errorf("%s is only read by this invocation and has a backup %s.bak", p, p)
			}
		}
	}
	return nil
}

// finalIsRead: the invocation writes somewhere else
func finalIsRead(sc Scenario, p string) bool {
	switch sc.Shape {
	case "separate-file", "out-dir", "bundle", "sync":
		return true
	}
	return false
}

func checkScenario(sc Scenario) (boundaries int, interior int, err error) {
	full, orig, err := execute(sc, 0)
	if err != nil {
		return 0, 0, err
	}
	final := full.state
	K := full.n
	// the complete run itself: for a single file minified onto itself the result is the library's output (or the
	// original when the library rejects it); otherwise "the complete new output" would be whatever the run left
	if _, inplace := roles(sc); inplace && sc.Shape != "bundle-onto-input" {
		ins, _ := roles(sc)
		for p := range ins {
			want := orig[p]
			if mt, ok := map[string]string{".js": "application/javascript", ".css": "text/css", ".html": "text/html", ".json": "application/json", ".svg": "image/svg+xml", ".xml": "text/xml"}[filepath.Ext(p)]; ok {
				if w, lerr := mk.RunM(mk.Full(mk.Opts{}), mt, append([]byte{}, orig[p]...)); lerr == nil {
					want = w
				}
			}
			// a file the run could not process (a backup that cannot be made, say) keeps its original bytes
			strict := sc.Shape == "inplace-file" || sc.Shape == "inplace-via-link" || sc.Shape == "inplace-file-abs" // nothing stands in the way: the new content it is
			if !bytes.Equal(final[p], want) && (strict || !bytes.Equal(final[p], orig[p])) {
				return K, 0, fmt.Errorf("after the complete run %s holds %d bytes that are neither the library's output (%d bytes) nor the original (%d bytes)\n--- command: minify %s\n--- syscalls:\n%s", p, len(final[p]), len(want), len(orig[p]), strings.Join(sc.Args, " "), full.log)
			}
		}
	}
	if sc.Shape == "bundle-onto-input" {
		// a bundle written onto one of its sources holds what the same bundle holds when it is written somewhere else
		sc2 := sc
		sc2.Shape = "bundle"
		sc2.Args = append([]string{}, sc.Args...)
		dst := ""
		for i, a := range sc2.Args {
			if a == "-o" {
				dst = sc2.Args[i+1]
				sc2.Args[i+1] = "elsewhere" + filepath.Ext(dst)
			}
		}
		other, _, err := execute(sc2, 0)
		if err != nil {
			return K, 0, err
		}
		if want := other.state["elsewhere"+filepath.Ext(dst)]; !bytes.Equal(final[dst], want) {
			return K, 0, fmt.Errorf("after the complete run the bundle written onto its source %s holds %d bytes, the same bundle written to another file holds %d bytes\n--- command: minify %s\n--- onto the source:\n%.300q\n--- elsewhere:\n%.300q\n--- syscalls:\n%s", dst, len(final[dst]), len(want), strings.Join(sc.Args, " "), final[dst], want, full.log)
		}
	}
	// nothing lost
	if e := invariant(sc, orig, final, final); e != nil {
		return K, 0, fmt.Errorf("after the complete run: %v\n--- command: minify %s\n--- syscalls:\n%s", e, strings.Join(sc.Args, " "), full.log)
	}
	ks := make([]int, 0, K)
	for k := 1; k <= K; k++ {
		ks = append(ks, k)
	}
	if sc.KillK > 0 {
		ks = []int{sc.KillK}
	}
	for _, k := range ks {
		r, o2, err := execute(sc, k)
		if err != nil {
			return K, interior, err
		}
		if !r.killed {
			continue // the worker pool issued fewer calls this time
		}
		if e := invariant(sc, o2, final, r.state); e != nil {
			sc.KillK = k
			return K, interior, fmt.Errorf("killed at the entry of file-system syscall %d of %d (%s): %v\n--- command: minify %s\n--- syscalls of the complete run:\n%s", k, K, r.sys, e, strings.Join(sc.Args, " "), full.log)
		}
		if k > 1 && k < K {
			interior++
		}
	}
	return K, interior, nil
}

func genScenario(t *rapid.T) Scenario {
	kinds := []string{"js", "css", "html", "json", "svg", "xml", "bad-js", "empty", "js", "css", "txt"}
	sizes := []int{0, 200, 200, 3000, 64<<10 + 1, 1 << 20}
	n := rapid.IntRange(1, 4).Draw(t, "nfiles")
	var files []File
	seen := map[string]bool{}
	for i := 0; i < n; i++ {
		k := rapid.SampledFrom(kinds).Draw(t, "kind")
		sz := rapid.SampledFrom(sizes).Draw(t, "size")
		if sz == 1<<20 && i > 0 {
			sz = 3000
		}
		dir := rapid.SampledFrom([]string{"src", "src", "src/sub"}).Draw(t, "dir")
		p := filepath.Join(dir, fmt.Sprintf("f%d.%s", i, extOf[k]))
		if seen[p] {
			continue
		}
		seen[p] = true
		files = append(files, File{Path: p, Kind: k, Size: sz, Mode: rapid.SampledFrom([]uint32{0o644, 0o600}).Draw(t, "mode")})
	}
	// a bystander that no invocation touches
	files = append(files, File{Path: "bystander.txt", Kind: "txt", Size: 100, Mode: 0o644})
	sc := Scenario{Files: files}
	sc.Shape = rapid.SampledFrom([]string{"inplace-file", "inplace-file", "inplace-via-link", "inplace-tree", "inplace-tree-pool", "separate-file", "out-dir", "bundle", "bundle-onto-input", "sync", "sync-onto-self", "sync-onto-self", "inplace-file-abs", "inplace-long-name", "inplace-bak-exists", "bundle-onto-input"}).Draw(t, "shape")
	if sc.Shape == "inplace-long-name" {
		// <name>.bak is longer than a file name may be: the backup cannot be made, the run has to fail and leave the file alone
		files[0].Path = filepath.Join(filepath.Dir(files[0].Path), strings.Repeat("n", 255-len(filepath.Ext(files[0].Path))-rapid.IntRange(0, 3).Draw(t, "shorter"))+filepath.Ext(files[0].Path))
		sc.Files = files
	}
	if files[0].Kind == "txt" && sc.Shape != "sync" && sc.Shape != "sync-onto-self" && sc.Shape != "inplace-tree" && sc.Shape != "inplace-tree-pool" && sc.Shape != "out-dir" {
		files[0].Kind = "js"
		files[0].Path = strings.TrimSuffix(files[0].Path, ".txt") + ".js"
	}
	if sc.Shape == "sync-onto-self" {
		files = append(files, File{Path: "src/notes.txt", Kind: "txt", Size: 300, Mode: 0o644})
		sc.Files = files
	}
	if sc.Shape == "bundle-onto-input" && rapid.IntRange(0, 3).Draw(t, "extra") != 0 {
		// at least two sources of one type
		files = append(files, File{Path: "src/extra." + extOf[files[0].Kind], Kind: files[0].Kind, Size: rapid.SampledFrom([]int{200, 3000}).Draw(t, "extrasize"), Mode: 0o644})
		sc.Files = files
	}
	if sc.Shape == "inplace-bak-exists" {
		// somebody else's <name>.bak stands where the backup would go: the run refuses, both files stay as they are
		files = append(files, File{Path: files[0].Path + ".bak", Kind: "txt", Size: rapid.SampledFrom([]int{0, 120}).Draw(t, "baksize"), Mode: 0o644})
		sc.Files = files
	}
	first := files[0].Path
	switch sc.Shape {
	case "inplace-file", "inplace-bak-exists":
		sc.Args = []string{"-q", "-o", first, first}
	case "inplace-via-link":
		// the same file under another name: a symbolic link to its directory
		sc.Links = [][2]string{{"current", filepath.Dir(first)}}
		sc.Args = []string{"-q", "-o", filepath.Join("current", filepath.Base(first)), first}
	case "inplace-tree":
		sc.Args = []string{"-v", "-r", "-o", "src/", "src/"}
	case "inplace-tree-pool":
		sc.Args = []string{"-q", "-r", "-o", "src/", "src/"}
	case "separate-file":
		sc.Args = []string{"-q", "-o", "out/min." + extOf[files[0].Kind], first}
	case "out-dir":
		sc.Args = []string{"-v", "-r", "-o", "out/", "src"}
	case "bundle", "bundle-onto-input":
		var same []string
		for _, f := range files {
			if extOf[f.Kind] == extOf[files[0].Kind] && f.Path != "bystander.txt" {
				same = append(same, f.Path)
			}
		}
		dst := "bundle." + extOf[files[0].Kind]
		if sc.Shape == "bundle-onto-input" {
			// any of the sources, not only the first
			dst = same[rapid.IntRange(0, len(same)-1).Draw(t, "bundledst")]
		}
		sc.Args = append([]string{"-q", "-b", "-o", dst}, same...)
	case "sync":
		sc.Args = []string{"-v", "-r", "--sync", "-o", "mirror/", "src/"}
	case "sync-onto-self":
		// the tree synchronised onto itself, the output spelled as an absolute path
		sc.Args = []string{"-v", "-r", "--sync", "-o", "{{WD}}/src/", "src/"}
	case "inplace-file-abs":
		sc.Args = []string{"-q", "-o", "{{WD}}/" + first, first}
	case "inplace-long-name":
		sc.Args = []string{"-q", "-o", first, first}
	}
	return sc
}

func TestCampaignCrashPoints(t *testing.T) {
	hx.C.SetRule(rule)
	hx.C.Assume("SIGKILL at a syscall entry freezes the disk in the state after the previous syscall (the page cache is the disk: power loss and fsync ordering are outside the property)", "the default worker pool issues its syscalls in a scheduler dependent order: every k is still executed, with the invariant only")
	hx.Setup("crashpoints", 96, 5000)
	rapid.Check(t, func(t *rapid.T) {
		sc := genScenario(t)
		b, _ := json.Marshal(sc)
		clear := hx.InFlightOnDisk("crashpoints", sc, "the harness process died while this scenario was running")
		K, interior, err := checkScenario(sc)
		clear()
		hx.C.Case(hx.Hash(string(b)), err == nil && interior > 0, "shape:"+sc.Shape, fmt.Sprintf("boundaries:%d0s", K/10))
		hx.C.AddExtra("kill_runs", int64(K))
		hx.C.AddExtra("interior_kill_runs", int64(interior))
		if err == nil && len(sc.Files) <= 3 {
			hx.C.Sample(len(b), map[string]interface{}{"args": sc.Args, "shape": sc.Shape, "boundaries": K})
		}
		if err != nil && strings.HasPrefix(err.Error(), "HARNESS:") {
			t.Fatalf("%v", err)
		}
		if err != nil {
			// keep the failing boundary in the replay file
			if m := regexp.MustCompile(`file-system syscall (\d+) of`).FindStringSubmatch(err.Error()); m != nil {
				sc.KillK, _ = strconv.Atoi(m[1])
			}
		}
		hx.KnownOrFail(t, "crashpoints", sc, err, func() string { return "" })
	})
}

func TestReplay(t *testing.T) {
	hx.ReplayTest(t, func(f hx.Failure) error {
		var sc Scenario
		if err := json.Unmarshal(f.Case, &sc); err != nil {
			return err
		}
		_, _, err := checkScenario(sc)
		return err
	})
}

var _ = sort.Strings
