package c02

import (
	"encoding/json"
	"fmt"
	"regexp"
	"strings"
	"testing"

	"github.com/tdewolff/minify/v2/js"
	"pgregory.net/rapid"

	"verifharness/gen/jsgen"
	"verifharness/hx"
	"verifharness/mk"
	"verifharness/oracle/jslex"
	"verifharness/oracle/jsrun"
)

func TestMain(m *testing.M) { hx.Main(m) }

type Case struct {
	Src     string   `json:"src"`
	Goal    string   `json:"goal"`
	Probes  []string `json:"probes,omitempty"`
	Predef  []string `json:"predef,omitempty"`
	Version int      `json:"version"`
	// MustKeep: names that are live by construction and must be emitted unchanged
	// (locals of a function containing `with`, labels that are jumped to)
	MustKeep []string `json:"must_keep,omitempty"`
	Kind     string   `json:"kind"` // scope | with-function | big-scope
}

const rule = "cases = (scope-shaped JS program: nested function/arrow/method/class/block/for/switch/catch scopes with shadowing, closures, parameter defaults, destructuring, labels, free globals predefined in the V8 context under the names the renamer hands out first (e t n s o i a r ...), scopes with 60..28000 bindings so that generated names pass do/if/in/let/for/var); oracle = (1) V8 behaviour of the renamed text equals the input's, every binding holding a unique value and occurrences being logged, (2) the same with KeepVarNames, where additionally no identifier may appear that the input does not contain, (3) names that are live by construction in a function containing `with`, and jumped-to labels, appear unchanged, (4) no identifier after `.` is invented; distinct by hash of (source, version); non-trivial = the program has >= 2 nested function scopes with a shadowing declaration or references a colliding free global from inside a function, and at least one binding was actually renamed"

type result struct {
	out     string
	outKeep string
	skipped string
	renamed bool
}

func obs(c Case, src string) (jsrun.Resp, error) {
	return jsrun.Default.Run(jsrun.Req{Goal: c.Goal, Src: src, Probes: c.Probes, Predef: c.Predef})
}

func obsPatient(c Case, src string) (jsrun.Resp, error) {
	return jsrun.Default.RunPatient(jsrun.Req{Goal: c.Goal, Src: src, Probes: c.Probes, Predef: c.Predef})
}

func stringContents(toks []jslex.Token) map[string]bool {
	out := map[string]bool{}
	for _, t := range toks {
		if t.Kind == jslex.String && len(t.Text) >= 2 {
			out[t.Text[1:len(t.Text)-1]] = true
		}
	}
	return out
}

func check(c Case) (res result, err error) {
	in, e := obs(c, c.Src)
	if e != nil {
		return res, fmt.Errorf("HARNESS: %v", e)
	}
	switch in.Status {
	case "syntax":
		res.skipped = "input-rejected-by-v8"
		return res, nil
	case "timeout", "tdz":
		res.skipped = "input-" + in.Status
		return res, nil
	case "error":
		return res, fmt.Errorf("HARNESS: worker error: %s", in.Obs)
	}
	inToks := jslex.Significant(c.Src)
	inIdents := map[string]bool{}
	for _, t := range inToks {
		if t.Kind == jslex.Ident {
			inIdents[t.Text] = true
		}
	}
	inStrings := stringContents(inToks)
	// every identifier-like word anywhere in the input text (also inside regexes, templates,
	// strings): the allowed set for "no invented identifier" checks, immune to regex/division
	// ambiguities of the tokenizer
	for _, w := range wordRe.FindAllString(c.Src, -1) {
		inStrings[w] = true
	}
	for _, keep := range []bool{false, true} {
		out, merr := mk.Run(&js.Minifier{KeepVarNames: keep, Version: c.Version}, nil, []byte(c.Src), nil)
		if mk.IsPanic(merr) {
			return res, fmt.Errorf("minifier panicked: %v", merr)
		}
		if merr != nil {
			res.skipped = "input-rejected-by-minifier"
			return res, nil
		}
		text := string(out)
		if keep {
			res.outKeep = text
		} else {
			res.out = text
		}
		o, e := obsPatient(c, text)
		if e != nil {
			return res, fmt.Errorf("HARNESS: %v", e)
		}
		label := map[bool]string{false: "renamed", true: "KeepVarNames"}[keep]
		switch o.Status {
		case "syntax":
			return res, fmt.Errorf("%s text is rejected by V8 (%s)\n--- input:\n%s\n--- output:\n%s", label, o.Obs, clip(c.Src), clip(text))
		case "timeout":
			return res, fmt.Errorf("%s text does not terminate\n--- input:\n%s\n--- output:\n%s", label, clip(c.Src), clip(text))
		case "error":
			return res, fmt.Errorf("HARNESS: worker error: %s", o.Obs)
		}
		if o.Obs != in.Obs {
			return res, fmt.Errorf("%s text behaves differently (an occurrence resolves to another declaration, or a public name changed)\n--- input:\n%s\n--- output:\n%s\n--- observed (input):\n%s\n--- observed (output):\n%s", label, clip(c.Src), clip(text), clip(in.Obs), clip(o.Obs))
		}
		outToks := jslex.Significant(text)
		outIdents := map[string]bool{}
		for _, t := range outToks {
			if t.Kind != jslex.Ident {
				continue
			}
			outIdents[t.Text] = true
			if jslex.Keywords[t.Text] && !t.AfterDot || !plainIdent.MatchString(t.Text) {
				continue
			}
			if keep && !inIdents[t.Text] && !inStrings[t.Text] && !strings.Contains(c.Src, t.Text) {
				return res, fmt.Errorf("KeepVarNames: identifier %q appears in the output but not in the input\n--- input:\n%s\n--- output:\n%s", t.Text, clip(c.Src), clip(text))
			}
			if t.AfterDot && !inIdents[t.Text] && !inStrings[t.Text] && !strings.Contains(c.Src, t.Text) {
				return res, fmt.Errorf("%s: property name %q after '.' does not occur in the input\n--- input:\n%s\n--- output:\n%s", label, t.Text, clip(c.Src), clip(text))
			}
			if !keep && !inIdents[t.Text] {
				res.renamed = true
			}
		}
		for _, nm := range c.MustKeep {
			if !outIdents[nm] {
				return res, fmt.Errorf("%s: the name %q (live local of a function containing `with`, or a jumped-to label) is not emitted unchanged\n--- input:\n%s\n--- output:\n%s", label, nm, clip(c.Src), clip(text))
			}
		}
	}
	return res, nil
}

var plainIdent = regexp.MustCompile(`^[A-Za-z_$][A-Za-z0-9_$]*$`)
var wordRe = regexp.MustCompile(`[A-Za-z0-9_$]+`)

func clip(s string) string {
	if len(s) > 3000 {
		return s[:1500] + "\n...[" + fmt.Sprint(len(s)-3000) + " bytes]...\n" + s[len(s)-1500:]
	}
	return s
}

func guards() map[string]bool {
	g := map[string]bool{}
	for _, f := range hx.Findings() {
		if f.Status == "known" && f.Guard != "" {
			g[f.Guard] = true
		}
	}
	return g
}

var versions = []int{0, 0, 2022, 2020, 2017, 2015}

func TestCampaignScopes(t *testing.T) {
	hx.C.SetRule(rule)
	hx.C.Assume("V8 is the semantic reference; see C01", "labels renamed consistently would not be observable by behaviour: only jumped-to labels constructed by the dedicated generator are checked by name")
	defer jsrun.Default.Close()
	hx.Setup("scopes", 24000, 500000)
	rapid.Check(t, func(t *rapid.T) {
		goal := rapid.SampledFrom([]string{"sloppy", "sloppy", "strict", "module"}).Draw(t, "goal")
		p := jsgen.Gen(t, jsgen.Config{Goal: goal, MaxStmts: 8, ScopeMode: true, Guards: guards()})
		c := Case{Src: p.Src, Goal: p.Goal, Probes: p.Probes, Predef: p.Predef, Kind: "scope"}
		c.Version = rapid.SampledFrom(versions).Draw(t, "version")
		res, err := check(c)
		record(c, res, p.MaxDepth >= 2 && (p.Shadowing > 0 || p.FreeRefs > 0), p)
		fail(t, "scopes", c, res, err)
	})
}

func fail(t *rapid.T, name string, c Case, res result, err error) {
	if err != nil && strings.HasPrefix(err.Error(), "HARNESS:") {
		t.Fatalf("%v", err)
	}
	hx.KnownOrFail(t, name, c, err, func() string { return matchKnown(c, res, err) })
}

func record(c Case, res result, shape bool, p jsgen.Program) {
	if res.skipped != "" {
		hx.C.Skip(res.skipped)
	}
	nt := res.skipped == "" && shape && res.renamed
	cls := []string{"kind:" + c.Kind, "goal:" + c.Goal}
	if p.Shadowing > 0 {
		cls = append(cls, "has-shadowing")
	}
	if p.FreeRefs > 0 {
		cls = append(cls, "free-global-referenced-in-function")
	}
	if p.MaxDepth >= 3 {
		cls = append(cls, "function-depth>=3")
	}
	for _, f := range []string{"with", "closure", "class", "label", "destructuring", "param-default", "catch-without-binding", "named-function-expression", "shorthand-prop", "for", "switch"} {
		if p.Feats != nil && p.Feats[f] > 0 {
			cls = append(cls, "has:"+f)
		}
	}
	b, _ := json.Marshal(c)
	hx.C.Case(hx.Hash(string(b)), nt, cls...)
	if nt && len(c.Src) < 1500 {
		hx.C.Sample(len(c.Src), map[string]interface{}{"src": c.Src, "goal": c.Goal, "out": res.out})
	}
}

// renamer order (frequency alphabet) - only used to aim free globals at early names
const identStart = "etnsoiarclduhmfpgvbjy_wOxCEkASMFTzDNLRPHIBV$WUKqYGXQZJ"
const identContinue = "etnsoiarcldu14023hm8f6pg57v9bjy_wOxCEkASMFTzDNLRPHIBV$WUKqYGXQZJ"

func nthName(i int) string {
	if i < 54 {
		return string(identStart[i])
	}
	i -= 54
	return string(identStart[i%54]) + string(identContinue[(i/54)%64])
}

var jsReserved = map[string]bool{"do": true, "if": true, "in": true, "of": true, "as": true}

// with-function: all names of a function that contains `with` must survive.
func genWithFunction(t *rapid.T) Case {
	names := []string{"alpha", "beta", "gamma", "delta", "omega", "kappa"}
	n := rapid.IntRange(2, len(names)).Draw(t, "nlocals")
	var sb strings.Builder
	kind := rapid.SampledFrom([]string{"function fw(%s){%s}", "var fw=function(%s){%s}", "var fw=(%s)=>{%s}", "var ow={fw(%s){%s}},fw=ow.fw"}).Draw(t, "fnkind")
	params := []string{"pa", "pb"}
	var body strings.Builder
	val := 10
	var live []string
	for i := 0; i < n; i++ {
		decl := rapid.SampledFrom([]string{"var", "let", "const"}).Draw(t, "declk")
		val += 7
		fmt.Fprintf(&body, "%s %s=%d;", decl, names[i], val)
		live = append(live, names[i])
	}
	prop := rapid.SampledFrom(append([]string{"p", "e", "t"}, live...)).Draw(t, "withprop")
	nested := rapid.Bool().Draw(t, "nestedblock")
	with := fmt.Sprintf("with({%s:%d}){$(%s,pa,pb,%s)}", prop, val+100, strings.Join(live, ","), prop)
	if nested {
		with = "{let inner=" + live[0] + ";" + with + ";$(inner)}"
		live = append(live, "inner")
	}
	body.WriteString(with + ";")
	if rapid.Bool().Draw(t, "innerfn") {
		body.WriteString("var fin=function(q){return q+" + live[0] + "};$(fin(1));")
		live = append(live, "fin")
	}
	body.WriteString("return " + strings.Join(live[:n], "+"))
	fmt.Fprintf(&sb, kind, strings.Join(params, ","), body.String())
	// a sibling function without `with` whose locals may be renamed freely
	sb.WriteString(";function other(longname){var another=longname*2;return another+1}$(fw(1,2),other(3))")
	lbl := rapid.SampledFrom([]string{"outer", "e", "t", "loop1"}).Draw(t, "label")
	fmt.Fprintf(&sb, ";%s:for(var i1=0;i1<2;i1++){for(var i2=0;i2<2;i2++){if(i2==1)continue %s;$(i1,i2)}}", lbl, lbl)
	must := append(append([]string{}, live...), "pa", "pb", lbl)
	return Case{Src: sb.String(), Goal: "script", Kind: "with-function", MustKeep: must, Version: 0}
}

func TestCampaignWithFunctions(t *testing.T) {
	hx.C.SetRule(rule)
	defer jsrun.Default.Close()
	hx.Setup("with-functions", 3000, 60000)
	rapid.Check(t, func(t *rapid.T) {
		c := genWithFunction(t)
		res, err := check(c)
		record(c, res, true, jsgen.Program{Shadowing: 1, MaxDepth: 2, Feats: map[string]int{"with": 1, "label": 1}})
		fail(t, "with-functions", c, res, err)
	})
}

// big scopes: more bindings than there are one- and two-character names
func genBigScope(t *rapid.T, sizes []int) Case {
	n := rapid.SampledFrom(sizes).Draw(t, "nbindings")
	strict := rapid.Bool().Draw(t, "strict")
	kind := rapid.SampledFrom([]string{"var", "let", "mixed"}).Draw(t, "declkind")
	// free globals named like names the renamer would hand out inside the big scope
	var predef []string
	nfree := rapid.IntRange(1, 5).Draw(t, "nfree")
	for i := 0; i < nfree; i++ {
		idx := rapid.IntRange(0, 200).Draw(t, "freeidx")
		if idx >= n {
			idx = idx % n
		}
		nm := nthName(idx)
		if jsReserved[nm] || nm == "$" {
			continue
		}
		dup := false
		for _, p := range predef {
			dup = dup || p == nm
		}
		if !dup {
			predef = append(predef, nm)
		}
	}
	var sb strings.Builder
	if strict {
		sb.WriteString("\"use strict\";")
	}
	sb.WriteString("function big(pa,pb){")
	chunk := 0
	for i := 0; i < n; i++ {
		k := kind
		if k == "mixed" {
			k = []string{"var", "let", "const"}[i%3]
		}
		if chunk == 0 {
			sb.WriteString(k + " ")
		} else {
			sb.WriteString(",")
		}
		fmt.Fprintf(&sb, "w%d=%d", i, 1000+i)
		chunk++
		if chunk == 40 || kind == "mixed" {
			sb.WriteString(";")
			chunk = 0
		}
	}
	if chunk != 0 {
		sb.WriteString(";")
	}
	// use-count skew and a few observed bindings
	picks := []int{0, 1, n / 2, n - 1, n - 2, 53 % n, 54 % n, 167 % n, 280 % n, 1139 % n}
	for i := 0; i < 6; i++ {
		picks = append(picks, rapid.IntRange(0, n-1).Draw(t, "pick"))
	}
	sb.WriteString("$(")
	for i, p := range picks {
		if i > 0 {
			sb.WriteString(",")
		}
		fmt.Fprintf(&sb, "w%d", p)
	}
	sb.WriteString(");")
	// inner closure: captures locals and reads the free globals
	sb.WriteString("return function(qa){var qb=qa+w0;return[qb")
	for _, p := range predef {
		sb.WriteString("," + p)
	}
	fmt.Fprintf(&sb, ",w%d,pa,pb]}}", n-1)
	sb.WriteString("$(big(1,2)(3))")
	return Case{Src: sb.String(), Goal: "script", Predef: predef, Kind: "big-scope"}
}

func TestCampaignBigScopes(t *testing.T) {
	hx.C.SetRule(rule)
	defer jsrun.Default.Close()
	sizes := []int{60, 180, 300, 1200}
	hx.Setup("big-scopes", 160, 2400)
	if hx.Thorough() {
		sizes = []int{60, 180, 300, 1200, 3600, 7100, 28200}
	}
	rapid.Check(t, func(t *rapid.T) {
		c := genBigScope(t, sizes)
		res, err := check(c)
		b, _ := json.Marshal(c)
		cls := fmt.Sprintf("big-scope-bindings:%d", strings.Count(c.Src, "=")-1)
		hx.C.Case(hx.Hash(string(b)), res.skipped == "" && res.renamed, "kind:big-scope", cls)
		if res.skipped != "" {
			hx.C.Skip(res.skipped)
		}
		fail(t, "big-scopes", c, res, err)
	})
}

func TestReplay(t *testing.T) {
	defer jsrun.Default.Close()
	hx.ReplayTest(t, func(f hx.Failure) error {
		var c Case
		if err := json.Unmarshal(f.Case, &c); err != nil {
			return err
		}
		res, err := check(c)
		if res.skipped != "" {
			return fmt.Errorf("replay case is outside the domain: %s", res.skipped)
		}
		return err
	})
}

var reWith = regexp.MustCompile(`\bwith\s*(/\*.*?\*/\s*)*\(`)

// matchKnown: C02-with-nested-function needs a with statement, must fail only in the renamed
// variant and must vanish when names are kept.
func matchKnown(c Case, res result, err error) string {
	if err == nil {
		return ""
	}
	if reWith.MatchString(c.Src) && strings.HasPrefix(err.Error(), "renamed text behaves differently") {
		in, e1 := obs(c, c.Src)
		out, merr := mk.Run(&js.Minifier{KeepVarNames: true, Version: c.Version}, nil, []byte(c.Src), nil)
		if e1 == nil && merr == nil {
			if o, e2 := obs(c, string(out)); e2 == nil && o.Status == "ok" && o.Obs == in.Obs {
				return "C02-with-nested-function"
			}
		}
	}
	// names kept: a block after if(..){..jump}else{..jump} is dissolved into the enclosing scope with its let/const/class
	if strings.HasPrefix(err.Error(), "KeepVarNames text is rejected by V8 (Identifier") && strings.Contains(err.Error(), "has already been declared") && strings.Contains(c.Src, "else") {
		return "C02-else-unscope-keepnames"
	}
	return ""
}
