package c07

import (
	"bytes"
	stdjson "encoding/json"
	"fmt"
	"os"
	"path/filepath"
	"strings"
	"testing"

	mjson "github.com/tdewolff/minify/v2/json"
	"pgregory.net/rapid"

	"verifharness/gen/jsongen"
	"verifharness/hx"
	"verifharness/mk"
	"verifharness/oracle/decnum"
	"verifharness/oracle/jsonval"
)

func TestMain(m *testing.M) { hx.Main(m) }

type Case struct {
	Text        string `json:"text"`
	KeepNumbers bool   `json:"keep_numbers"`
}

const rule = "cases = (RFC 8259 text drawn from a grammar with every number/string/whitespace shape and nesting up to 200 (quick) / 10000 (thorough), KeepNumbers on/off, Precision 0); distinct by hash of (text, option); non-trivial = text has a container, at least one whitespace byte was removed and at least one number lexeme changed (or, under KeepNumbers, at least one number that Number() would have changed stayed identical)"

type info struct {
	out        string
	containers int
	numChanged int
	wsRemoved  int
	numbers    int
}

func checkCase(c Case) (inf info, err error) {
	in := []byte(c.Text)
	toksIn, wsIn, lexErr := jsonval.Lex(in)
	if lexErr != nil {
		return inf, nil // not in the domain
	}
	out, merr := mk.Run(&mjson.Minifier{KeepNumbers: c.KeepNumbers}, nil, in, nil)
	inf.out = string(out)
	if merr != nil {
		return inf, fmt.Errorf("valid JSON rejected: %v", merr)
	}
	toksOut, wsOut, oerr := jsonval.Lex(out)
	if oerr != nil {
		return inf, fmt.Errorf("output is not valid JSON (own lexer): %v; out=%s", oerr, clip(out))
	}
	if !deepFor(stdOK, toksOut) && !stdjson.Valid(out) { // encoding/json has its own nesting limit (10000)
		return inf, fmt.Errorf("output rejected by encoding/json: %s", clip(out))
	}
	if wsOut != 0 {
		return inf, fmt.Errorf("output contains %d whitespace bytes outside strings", wsOut)
	}
	if len(out) > len(in) {
		return inf, fmt.Errorf("output (%d bytes) longer than input (%d bytes): %s", len(out), len(in), clip(out))
	}
	if len(toksIn) != len(toksOut) {
		return inf, fmt.Errorf("token count changed: %d -> %d; out=%s", len(toksIn), len(toksOut), clip(out))
	}
	inf.wsRemoved = wsIn
	for i := range toksIn {
		a, b := toksIn[i], toksOut[i]
		if a.Kind != b.Kind {
			return inf, fmt.Errorf("token %d changed kind: %q -> %q", i, a.Raw, b.Raw)
		}
		switch a.Kind {
		case jsonval.LBrace, jsonval.LBrack:
			inf.containers++
		case jsonval.Number:
			inf.numbers++
			if c.KeepNumbers {
				if a.Raw != b.Raw {
					return inf, fmt.Errorf("KeepNumbers: number lexeme changed %q -> %q", a.Raw, b.Raw)
				}
				if canShorten(a.Raw) {
					inf.numChanged++
				}
				continue
			}
			if a.Raw != b.Raw {
				inf.numChanged++
				if !decnum.Equal(decnum.Parse([]byte(a.Raw)), decnum.Parse([]byte(b.Raw))) {
					return inf, fmt.Errorf("number value changed: %q -> %q", a.Raw, b.Raw)
				}
			}
		default:
			if a.Raw != b.Raw {
				return inf, fmt.Errorf("token %d changed: %q -> %q", i, a.Raw, b.Raw)
			}
		}
	}
	return inf, nil
}

const stdOK = 9000

func deepFor(limit int, toks []jsonval.Token) bool {
	d, max := 0, 0
	for _, t := range toks {
		switch t.Kind {
		case jsonval.LBrace, jsonval.LBrack:
			d++
			if d > max {
				max = d
			}
		case jsonval.RBrace, jsonval.RBrack:
			d--
		}
	}
	return max > limit
}

// canShorten: independent estimate of "Number() would change this lexeme":
// superfluous zeros, a plus sign, or an exponent/zero run that can be respelled.
func canShorten(raw string) bool {
	l := strings.ToLower(raw)
	return strings.Contains(l, "e+") || strings.HasPrefix(l, "0.") || strings.HasPrefix(l, "-0.") || strings.HasSuffix(l, "0") && strings.Contains(l, ".") || strings.Contains(l, "e0") || strings.HasSuffix(l, "000")
}

func clip(b []byte) string {
	if len(b) > 300 {
		return string(b[:300]) + "..."
	}
	return string(b)
}

func record(c Case, inf info) {
	nt := inf.containers > 0 && inf.numChanged > 0 && inf.wsRemoved > 0
	cls := []string{"keepnumbers=" + fmt.Sprint(c.KeepNumbers)}
	if inf.containers > 50 {
		cls = append(cls, "depth-or-size>50-containers")
	}
	if inf.numChanged > 0 {
		cls = append(cls, "number-respelled")
	}
	hx.C.Case(hx.Hash(c.Text, fmt.Sprint(c.KeepNumbers)), nt, cls...)
	if nt {
		hx.C.Sample(len(c.Text), map[string]interface{}{"text": c.Text, "keep_numbers": c.KeepNumbers, "out": inf.out})
	}
}

func TestCampaignGenerated(t *testing.T) {
	hx.C.SetRule(rule)
	hx.Setup("generated", 1200000, 20000000)
	deep := hx.Pick(200, 10000)
	rapid.Check(t, func(t *rapid.T) {
		c := Case{Text: jsongen.Text(t, deep), KeepNumbers: rapid.IntRange(0, 3).Draw(t, "keep") == 0}
		inf, err := checkCase(c)
		record(c, inf)
		hx.KnownOrFail(t, "generated", c, err, nil)
	})
}

// Corpus: the repository's JSON corpus and benchmark documents (real-world sized).
func TestCampaignCorpus(t *testing.T) {
	if hx.E.Shard != 0 {
		return
	}
	var files []string
	m1, _ := filepath.Glob(filepath.Join(hx.E.Repo, "tests/json/corpus/*"))
	m2, _ := filepath.Glob(filepath.Join(hx.E.Repo, "_benchmarks/*.json"))
	files = append(append(files, m1...), m2...)
	for _, f := range files {
		b, err := os.ReadFile(f)
		if err != nil || len(b) == 0 {
			continue
		}
		if _, _, e := jsonval.Lex(b); e != nil {
			hx.C.Skip("corpus-file-not-valid-json")
			continue
		}
		for _, keep := range []bool{false, true} {
			c := Case{Text: string(b), KeepNumbers: keep}
			inf, err := checkCase(c)
			hx.C.Case(hx.Hash(c.Text, fmt.Sprint(keep)), inf.containers > 0 && inf.wsRemoved > 0 && inf.numChanged > 0, "corpus")
			if err != nil {
				hx.Fail(t, "corpus", map[string]interface{}{"file": f, "keep_numbers": keep}, "%s: %v", f, err)
			}
		}
	}
}

func TestReplay(t *testing.T) {
	hx.ReplayTest(t, func(f hx.Failure) error {
		if strings.HasPrefix(f.Check, "native-fuzz") {
			return replayGoFuzz(f)
		}
		var c Case
		if err := stdjson.Unmarshal(f.Case, &c); err != nil {
			return err
		}
		if c.Text == "" {
			var fc struct {
				File string `json:"file"`
				Keep bool   `json:"keep_numbers"`
			}
			stdjson.Unmarshal(f.Case, &fc)
			b, err := os.ReadFile(fc.File)
			if err != nil {
				return nil
			}
			c = Case{string(b), fc.Keep}
		}
		_, err := checkCase(c)
		return err
	})
}

func replayGoFuzz(f hx.Failure) error {
	var g struct {
		GoFuzz string `json:"gofuzz"`
	}
	stdjson.Unmarshal(f.Case, &g)
	args, err := hx.ParseGoFuzz(g.GoFuzz)
	if err != nil || len(args) < 2 {
		return fmt.Errorf("bad go fuzz file: %v", err)
	}
	s, _ := args[0].(string)
	k, _ := args[1].(bool)
	_, err = checkCase(Case{s, k})
	return err
}

func FuzzJSON(f *testing.F) {
	for _, s := range []string{`{"a": 1.0e+2, "b": [0.50, -0.0, 1E400000000000000000000]}`, `[ ]`, `"\ud800"`, ` 100000 `, `{"":{"":[[[]]]}}`} {
		f.Add(s, false)
		f.Add(s, true)
	}
	m, _ := filepath.Glob(filepath.Join(hx.E.Repo, "tests/json/corpus/*"))
	for i, p := range m {
		if b, err := os.ReadFile(p); err == nil && len(b) < 4096 && i < 200 {
			f.Add(string(b), false)
		}
	}
	f.Fuzz(func(t *testing.T, s string, keep bool) {
		if _, err := checkCase(Case{s, keep}); err != nil {
			t.Fatal(err)
		}
	})
}

var _ = bytes.Equal
