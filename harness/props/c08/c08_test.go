package c08

import (
	"encoding/json"
	"fmt"
	"math"
	"strings"
	"testing"
	"unsafe"

	"github.com/tdewolff/minify/v2"
	"pgregory.net/rapid"

	"verifharness/hx"
	"verifharness/oracle/decnum"
)

func TestMain(m *testing.M) { hx.Main(m) }

// Case is the replayable unit: one call of Number or Decimal.
type Case struct {
	Func string `json:"func"` // Number | Decimal
	Num  string `json:"num"`
	Prec int    `json:"prec"`
}

const rule = "cases = (function, number string, precision); strings of the grammar [+-]?(d+.?d*|.d+)([eE][+-]?d+)? enumerated by construction up to length L over digits {0,1,4,5,9} for every precision in {-1,0..20} (never repeating, so distinct by construction) plus rapid-drawn long/extreme lexemes (distinct by hash); non-trivial = the helper's output differs from its input"

// checkCase runs the helper under memory discipline and compares with the exact reference.
func checkCase(c Case) (out string, err error) {
	defer func() {
		if r := recover(); r != nil {
			err = fmt.Errorf("panic: %v", r)
		}
	}()
	in := []byte(c.Num)
	if !decnum.Valid(in, c.Func == "Number") {
		return "", nil // outside the domain (only reachable from hand-written replay files)
	}
	call := func(b []byte) []byte {
		if c.Func == "Decimal" {
			return minify.Decimal(b, c.Prec)
		}
		return minify.Number(b, c.Prec)
	}
	// (a) exact-capacity slice: an append-style write past the end cannot stay hidden
	a := make([]byte, len(in))
	copy(a, in)
	a = a[:len(in):len(in)]
	ra := call(a)
	// (b) embedded in a larger buffer with canaries inside the capacity
	const pad = 24
	big := make([]byte, len(in)+2*pad)
	for i := range big {
		big[i] = 0xA5
	}
	copy(big[pad:], in)
	rb := call(big[pad : pad+len(in)])
	for i := 0; i < pad; i++ {
		if big[i] != 0xA5 || big[pad+len(in)+i] != 0xA5 {
			return string(rb), fmt.Errorf("bytes outside the given slice were written (canary at offset %d)", i)
		}
	}
	if string(ra) != string(rb) {
		return string(ra), fmt.Errorf("result depends on slice capacity: %q vs %q", ra, rb)
	}
	if len(rb) > 0 {
		p0 := uintptr(unsafe.Pointer(unsafe.SliceData(big))) + pad
		p := uintptr(unsafe.Pointer(unsafe.SliceData(rb)))
		if p < p0 || p+uintptr(len(rb)) > p0+uintptr(len(in)) {
			return string(rb), fmt.Errorf("returned slice does not lie inside the given slice")
		}
	}
	out = string(ra)
	if len(out) > len(in) {
		return out, fmt.Errorf("output %q longer than input", out)
	}
	if !decnum.Valid(ra, c.Func == "Number") {
		return out, fmt.Errorf("output %q is not a valid %s lexeme", out, map[bool]string{true: "number", false: "decimal (no exponent)"}[c.Func == "Number"])
	}
	vi, vo := decnum.Parse(in), decnum.Parse(ra)
	if decnum.Equal(vi, vo) {
		return out, nil
	}
	if c.Prec <= 0 {
		return out, fmt.Errorf("value changed at precision %d: %q (%v) -> %q (%v)", c.Prec, c.Num, vi, out, vo)
	}
	if c.Prec >= len(c.Num) {
		// more significant digits asked for than the lexeme has: nothing may be rounded away
		return out, fmt.Errorf("value changed at precision %d, which is not below the %d characters of the lexeme: %q (%v) -> %q (%v)", c.Prec, len(c.Num), c.Num, vi, out, vo)
	}
	prec := c.Prec
	if c.Func == "Decimal" && !vi.IsZero() && vi.Exp.IsInt64() && vi.Exp.Int64() > int64(prec) {
		// "Only digits after the dot can be removed": a decimal with more integer digits than prec keeps all of them,
		// the last retained digit is never left of the units digit
		prec = int(vi.Exp.Int64())
	}
	if !decnum.WithinHalfUnit(vi, vo, prec) {
		return out, fmt.Errorf("precision %d: %q -> %q is more than half a unit of the last retained digit away", c.Prec, c.Num, out)
	}
	return out, nil
}

var precisions = func() []int {
	p := []int{-1}
	for i := 0; i <= 20; i++ {
		p = append(p, i)
	}
	return p
}()

var alphabet = []byte{'0', '1', '4', '5', '9'}

// enumerate calls f for every string of the grammar with total length <= L
// (exponent marker 'e' and 'E' alternate deterministically by index parity to
// keep the space at one spelling per shape; both occur).
func enumerate(L int, f func(s []byte)) {
	buf := make([]byte, 0, L+2)
	var digits func(n int, next func())
	digits = func(n int, next func()) {
		if n == 0 {
			next()
			return
		}
		for _, d := range alphabet {
			buf = append(buf, d)
			digits(n-1, next)
			buf = buf[:len(buf)-1]
		}
	}
	cnt := 0
	for _, sign := range []string{"", "-", "+"} {
		for mlen := 1; mlen+len(sign) <= L; mlen++ {
			// mantissa shapes: k int digits, optional dot, m frac digits; k+m>=1
			for dot := -1; dot <= mlen-1; dot++ { // -1: no dot; else dot at position dot of mantissa
				nd := mlen
				if dot >= 0 {
					nd = mlen - 1
					if nd == 0 {
						continue
					}
				}
				for elen := 0; len(sign)+mlen+elen <= L; elen++ {
					// exponent part of length elen: e d+ | e[+-] d+
					type eshape struct {
						sign string
						nd   int
					}
					var shapes []eshape
					if elen == 0 {
						shapes = []eshape{{"", 0}}
					} else {
						if elen >= 2 {
							shapes = append(shapes, eshape{"", elen - 1})
						}
						if elen >= 3 {
							shapes = append(shapes, eshape{"-", elen - 2}, eshape{"+", elen - 2})
						}
						if len(shapes) == 0 {
							continue
						}
					}
					for _, es := range shapes {
						buf = append(buf[:0], sign...)
						emit := func() {
							cnt++
							if es.nd == 0 {
								f(buf)
								return
							}
							base := len(buf)
							if cnt%2 == 0 {
								buf = append(buf, 'e')
							} else {
								buf = append(buf, 'E')
							}
							buf = append(buf, es.sign...)
							digits(es.nd, func() { f(buf) })
							buf = buf[:base]
						}
						if dot < 0 {
							digits(nd, emit)
						} else {
							digits(dot, func() {
								buf = append(buf, '.')
								digits(nd-dot, emit)
								buf = buf[:len(buf)-1]
							})
						}
					}
				}
			}
		}
	}
}

func TestCampaignEnumerate(t *testing.T) {
	hx.C.SetRule(rule)
	L := hx.Pick(7, 9)
	hx.C.SetExtra("enumerated_length_bound_L", L)
	idx := 0
	failed := false
	samples := 0
	enumerate(L, func(s []byte) {
		idx++
		if failed || idx%hx.E.NShards != hx.E.Shard {
			return
		}
		hasExp := strings.ContainsAny(string(s), "eE")
		for _, fn := range []string{"Number", "Decimal"} {
			if fn == "Decimal" && hasExp {
				continue
			}
			for _, p := range precisions {
				c := Case{fn, string(s), p}
				out, err := checkCase(c)
				hx.C.CaseEnum(out != c.Num)
				if err != nil {
					if id := matchKnown(c, err); id != "" && hx.IsKnown(id) {
						hx.C.Known(id)
						continue
					}
					failed = true
					hx.Fail(t, "enumerate", c, "%s(%q,%d): %v", c.Func, c.Num, c.Prec, err)
					return
				}
				if out != c.Num && samples < 6 && idx%997 == hx.E.Shard {
					samples++
					hx.C.Sample(len(c.Num), map[string]interface{}{"func": fn, "num": c.Num, "prec": p, "out": out})
				}
			}
		}
	})
	hx.C.SetExhaustive(!failed)
	hx.C.SetExtra("enumerated_strings_total", idx)
}

// genLong draws lexemes beyond the enumeration bound: long mantissas, runs of
// 9s (carry chains), all-zero forms, exponents near the int limits and beyond.
func genLong(t *rapid.T) string {
	var sb strings.Builder
	sb.WriteString(rapid.SampledFrom([]string{"", "", "-", "+"}).Draw(t, "sign"))
	digs := func(label string, min, max int) string {
		kind := rapid.IntRange(0, 5).Draw(t, label+"kind")
		n := rapid.IntRange(min, max).Draw(t, label+"n")
		switch kind {
		case 0:
			return strings.Repeat("9", n)
		case 1:
			return strings.Repeat("0", n)
		case 2:
			if n == 0 {
				return ""
			}
			return strings.Repeat("9", n-1) + rapid.SampledFrom([]string{"4", "5", "9", "0"}).Draw(t, label+"last")
		default:
			b := make([]byte, n)
			for i := range b {
				b[i] = byte('0' + rapid.IntRange(0, 9).Draw(t, label+"d"))
			}
			return string(b)
		}
	}
	shape := rapid.IntRange(0, 3).Draw(t, "shape")
	switch shape {
	case 0:
		sb.WriteString(digs("i", 1, 30))
	case 1:
		sb.WriteString(digs("i", 1, 25))
		sb.WriteByte('.')
	case 2:
		sb.WriteString(digs("i", 1, 25))
		sb.WriteByte('.')
		sb.WriteString(digs("f", 1, 30))
	case 3:
		sb.WriteByte('.')
		sb.WriteString(digs("f", 1, 30))
	}
	if rapid.Bool().Draw(t, "hasExp") {
		sb.WriteString(rapid.SampledFrom([]string{"e", "E"}).Draw(t, "e"))
		sb.WriteString(rapid.SampledFrom([]string{"", "-", "+"}).Draw(t, "esign"))
		sb.WriteString(rapid.SampledFrom([]string{"", "", "0", "000"}).Draw(t, "ezeros"))
		switch rapid.IntRange(0, 5).Draw(t, "ekind") {
		case 0:
			sb.WriteString(rapid.SampledFrom([]string{"9223372036854775807", "9223372036854775808", "9223372036854775806", "9223372036854775800", "2147483647", "2147483648", "4294967296", "18446744073709551616", "922337203685477580", "400000000000000000000"}).Draw(t, "ebig"))
		case 1:
			// close to the limit minus something the mantissa normalisation adds
			sb.WriteString(fmt.Sprintf("%d", uint64(9223372036854775807)-uint64(rapid.IntRange(0, 80).Draw(t, "eoff"))))
		default:
			sb.WriteString(fmt.Sprintf("%d", rapid.IntRange(0, 400).Draw(t, "esmall")))
		}
	}
	return sb.String()
}

func TestCampaignLong(t *testing.T) {
	hx.C.SetRule(rule)
	hx.Setup("long", 400000, 8000000)
	rapid.Check(t, func(t *rapid.T) {
		num := genLong(t)
		hasExp := strings.ContainsAny(num, "eE")
		fn := "Number"
		if !hasExp && rapid.Bool().Draw(t, "decimal") {
			fn = "Decimal"
		}
		p := rapid.SampledFrom(precisions).Draw(t, "prec")
		if rapid.IntRange(0, 20).Draw(t, "bigprec") == 0 {
			p = rapid.SampledFrom([]int{21, 40, 100, 1 << 30, -5, -1 << 30, math.MaxInt, math.MaxInt - 1, math.MinInt}).Draw(t, "precx")
		}
		c := Case{fn, num, p}
		out, err := checkCase(c)
		cls := "long:" + fn
		if hasExp {
			cls += ":exp"
		}
		hx.C.Case(hx.Hash(fn, num, fmt.Sprint(p)), out != num, cls)
		if out != num {
			hx.C.Sample(len(num), map[string]interface{}{"func": fn, "num": num, "prec": p, "out": out})
		}
		hx.KnownOrFail(t, "long", c, wrap(c, err), func() string { return matchKnown(c, err) })
	})
}

func wrap(c Case, err error) error {
	if err == nil {
		return nil
	}
	return fmt.Errorf("%s(%q,%d): %v", c.Func, c.Num, c.Prec, err)
}

// matchKnown ties a failing case to a listed finding by its syntactic trigger.
func matchKnown(c Case, err error) string {
	return ""
}

func TestReplay(t *testing.T) {
	hx.ReplayTest(t, func(f hx.Failure) error {
		var c Case
		if err := json.Unmarshal(f.Case, &c); err != nil {
			return err
		}
		_, err := checkCase(c)
		return wrap(c, err)
	})
}

func FuzzNumber(f *testing.F) {
	for _, s := range []string{"0", "1.0e+2", "-.5", "99.5", "0.00001e-5", "9.9999e300", "1e9223372036854775807", "100E-2"} {
		f.Add(s, 0)
		f.Add(s, 2)
	}
	f.Fuzz(func(t *testing.T, s string, p int) {
		if !decnum.Valid([]byte(s), true) {
			t.Skip()
		}
		for _, fn := range []string{"Number", "Decimal"} {
			if fn == "Decimal" && strings.ContainsAny(s, "eE") {
				continue
			}
			c := Case{fn, s, p}
			if _, err := checkCase(c); err != nil {
				if id := matchKnown(c, err); id != "" && hx.IsKnown(id) {
					continue
				}
				t.Fatalf("%v", wrap(c, err))
			}
		}
	})
}
