package c15

import (
	"bytes"
	"encoding/json"
	"errors"
	"fmt"
	"io"
	"os/exec"
	"regexp"
	"sort"
	"strings"
	"testing"

	"github.com/tdewolff/minify/v2"
	"pgregory.net/rapid"

	"verifharness/hx"
)

func TestMain(m *testing.M) { hx.Main(m) }

// Op is one step of a registration/query history.
type Op struct {
	Op     string            `json:"op"`               // Add AddFunc AddRegexp AddFuncRegexp AddCmd AddCmdRegexp | Match Minify MinifyMimetype Bytes String
	Arg    string            `json:"arg"`              // media type, pattern, or query string
	Params map[string]string `json:"params,omitempty"` // MinifyMimetype only
	Input  string            `json:"input,omitempty"`
	Fail   string            `json:"fail,omitempty"` // registrations: the stub declines with ErrNotExist ("notexist") or fails with its own error ("other") without writing
}

type Case struct {
	Ops []Op `json:"ops"`
}

const rule = "cases = histories of up to 30 registrations (literal/func/pattern/command, overlapping patterns, re-registration) interleaved with queries (Match/Minify/MinifyMimetype/Bytes/String) over media type strings with case changes, spaces and parameters; oracle = reference model (literal map, ordered pattern list, split at first ';') with recording stubs that prove which registration served and with which params; a third of the stubs fail without writing, with ErrNotExist (a delegating minifier whose nested call found nothing) or with their own error, and that error is then the result of the call; distinct by hash of the history; non-trivial = some query in the history had at least two registrations able to serve it"

var types = []string{"text/html", "text/css", "text/x-tmpl", "application/json", "application/ld+json", "image/svg+xml", "text/plain", "TEXT/HTML", "text/*", "*/*", "application/x-javascript", "a/b", "js", "*", "", "a", "md", "x/", "css"}
var patterns = []string{"^text/", "/x-.*$", "[/+]json$", ".*", "^text/(html|css)$", "xml$", "^application/", "^TEXT/", "/\\*$", "html", "^[a-z]*$", "^\\*$", "^.?.?$"}

func genQuery(t *rapid.T) string {
	var sb strings.Builder
	sb.WriteString(rapid.SampledFrom([]string{"", "", "", " ", "  "}).Draw(t, "lead"))
	ty := rapid.SampledFrom(types).Draw(t, "qtype")
	if len(ty) < 3 {
		// names shorter than any type/subtype can be registered and asked for as they are; the media type syntax
		// (parameters, padding) is only defined for the longer form
		return ty
	}
	sb.WriteString(ty)
	np := rapid.IntRange(0, 3).Draw(t, "nparams")
	if np == 0 && rapid.IntRange(0, 5).Draw(t, "trail") == 0 {
		sb.WriteString(rapid.SampledFrom([]string{" ", "  "}).Draw(t, "trailsp"))
	}
	used := map[string]bool{}
	for i := 0; i < np; i++ {
		k := rapid.SampledFrom([]string{"charset", "q", "version", "inline", "K"}).Draw(t, "pk")
		if used[k] {
			continue
		}
		used[k] = true
		sp := func(l string) string { return rapid.SampledFrom([]string{"", "", " ", "  "}).Draw(t, l) }
		sb.WriteString(sp("s1") + ";" + sp("s2") + k + sp("s3") + "=" + sp("s4") + rapid.SampledFrom([]string{"utf-8", "1", "2.0", "UTF-8", "a/b", "x,y"}).Draw(t, "pv") + sp("s5"))
	}
	return sb.String()
}

// modelSplit: the documented shape "type/subtype; k=v; k2=v2" with optional
// spaces around separators; leading spaces ignored.
func modelSplit(q string) (string, map[string]string) {
	q = strings.TrimLeft(q, " ")
	i := strings.IndexByte(q, ';')
	if i < 0 {
		return strings.TrimRight(q, " "), nil
	}
	mt := strings.TrimRight(q[:i], " ")
	params := map[string]string{}
	for _, kv := range strings.Split(q[i+1:], ";") {
		j := strings.IndexByte(kv, '=')
		if j < 0 {
			params[strings.TrimSpace(kv)] = ""
			continue
		}
		params[strings.Trim(kv[:j], " ")] = strings.Trim(kv[j+1:], " ")
	}
	return mt, params
}

func fmtParams(p map[string]string) string {
	keys := make([]string, 0, len(p))
	for k := range p {
		keys = append(keys, k)
	}
	sort.Strings(keys)
	var sb strings.Builder
	for _, k := range keys {
		fmt.Fprintf(&sb, "%s=%s;", k, p[k])
	}
	return sb.String()
}

type stub struct {
	id   int
	fail string
}

var errStub = errors.New("stub failed")

func (s stub) err() error {
	switch s.fail {
	case "notexist":
		// what a delegating minifier returns when the nested call finds nothing
		return minify.ErrNotExist
	case "other":
		return errStub
	}
	return nil
}

func stubOut(id int, params map[string]string, in []byte) string {
	return fmt.Sprintf("[%d|%s|%s]", id, fmtParams(params), in)
}
func (s stub) Minify(m *minify.M, w io.Writer, r io.Reader, params map[string]string) error {
	if e := s.err(); e != nil {
		return e
	}
	b, _ := io.ReadAll(r)
	_, err := io.WriteString(w, stubOut(s.id, params, b))
	return err
}

type countWriter struct {
	bytes.Buffer
	calls int
}

func (c *countWriter) Write(p []byte) (int, error) { c.calls++; return c.Buffer.Write(p) }

type mreg struct {
	id    int
	isCmd bool
	re    *regexp.Regexp
	src   string
	fail  string
}

func checkCase(c Case) (nontrivial bool, err error) {
	defer func() {
		if r := recover(); r != nil {
			err = fmt.Errorf("panic: %v", r)
		}
	}()
	m := minify.New()
	literal := map[string]mreg{}
	var pats []mreg
	expect := func(reg mreg, params map[string]string, in string) string {
		if reg.isCmd {
			return fmt.Sprintf("cmd%d:%s", reg.id, in)
		}
		return stubOut(reg.id, params, []byte(in))
	}
	for i, op := range c.Ops {
		id := i + 1
		switch op.Op {
		case "Add":
			m.Add(op.Arg, stub{id, op.Fail})
			literal[op.Arg] = mreg{id: id, fail: op.Fail}
		case "AddFunc":
			m.AddFunc(op.Arg, stub{id, op.Fail}.Minify)
			literal[op.Arg] = mreg{id: id, fail: op.Fail}
		case "AddCmd":
			m.AddCmd(op.Arg, exec.Command("/bin/sh", "-c", fmt.Sprintf("printf cmd%d:; cat", id)))
			literal[op.Arg] = mreg{id: id, isCmd: true}
		case "AddRegexp", "AddFuncRegexp", "AddCmdRegexp":
			re, e := regexp.Compile(op.Arg)
			if e != nil {
				continue
			}
			switch op.Op {
			case "AddRegexp":
				m.AddRegexp(re, stub{id, op.Fail})
			case "AddFuncRegexp":
				m.AddFuncRegexp(re, stub{id, op.Fail}.Minify)
			default:
				m.AddCmdRegexp(re, exec.Command("/bin/sh", "-c", fmt.Sprintf("printf cmd%d:; cat", id)))
			}
			pats = append(pats, mreg{id: id, re: re, src: op.Arg, isCmd: op.Op == "AddCmdRegexp", fail: map[bool]string{false: op.Fail}[op.Op == "AddCmdRegexp"]})
		default:
			// query
			var mt string
			var params map[string]string
			if op.Op == "MinifyMimetype" {
				mt, params = op.Arg, op.Params
			} else {
				mt, params = modelSplit(op.Arg)
			}
			var served *mreg
			servedName := mt
			cands := 0
			if r, ok := literal[mt]; ok {
				rr := r
				served = &rr
				cands++
			}
			for k := range pats {
				if pats[k].re.MatchString(mt) {
					cands++
					if served == nil {
						served = &pats[k]
						servedName = pats[k].src
					}
				}
			}
			if cands >= 2 {
				nontrivial = true
			}
			in := op.Input
			where := fmt.Sprintf("step %d %s(%q)", i, op.Op, op.Arg)
			switch op.Op {
			case "Match":
				name, gotParams, f := m.Match(op.Arg)
				if served == nil {
					if f != nil {
						return nontrivial, fmt.Errorf("%s: returned a minifier although none is registered for %q", where, mt)
					}
					continue
				}
				if f == nil {
					return nontrivial, fmt.Errorf("%s: returned nil, model says registration #%d serves %q", where, served.id, mt)
				}
				if name != servedName {
					return nontrivial, fmt.Errorf("%s: returned name %q, want %q", where, name, servedName)
				}
				if fmtParams(gotParams) != fmtParams(params) {
					return nontrivial, fmt.Errorf("%s: returned params %q, want %q", where, fmtParams(gotParams), fmtParams(params))
				}
				var w bytes.Buffer
				if e := f(m, &w, strings.NewReader(in), gotParams); e != (stub{fail: served.fail}).err() {
					return nontrivial, fmt.Errorf("%s: matched minifier returned %v, registration #%d returns %v", where, e, served.id, (stub{fail: served.fail}).err())
				} else if e != nil {
					continue
				}
				if want := expect(*served, params, in); w.String() != want {
					return nontrivial, fmt.Errorf("%s: matched minifier produced %q, a call would use %q", where, w.String(), want)
				}
			case "Minify", "MinifyMimetype":
				w := &countWriter{}
				var e error
				if op.Op == "Minify" {
					e = m.Minify(op.Arg, w, strings.NewReader(in))
				} else {
					e = m.MinifyMimetype([]byte(op.Arg), w, strings.NewReader(in), op.Params)
				}
				if served == nil {
					if !errors.Is(e, minify.ErrNotExist) {
						return nontrivial, fmt.Errorf("%s: want ErrNotExist, got %v (output %q)", where, e, w.String())
					}
					if w.calls != 0 {
						return nontrivial, fmt.Errorf("%s: wrote %q although no minifier exists", where, w.String())
					}
					continue
				}
				if want := (stub{fail: served.fail}).err(); want != nil {
					// the registration that serves the type failed: its error is the result, nobody else is asked
					if !errors.Is(e, want) || w.calls != 0 {
						return nontrivial, fmt.Errorf("%s: registration #%d serves it and returns %v without writing; got error %v, output %q", where, served.id, want, e, w.String())
					}
					continue
				}
				if e != nil {
					return nontrivial, fmt.Errorf("%s: unexpected error %v, model says #%d serves it", where, e, served.id)
				}
				if want := expect(*served, params, in); w.String() != want {
					return nontrivial, fmt.Errorf("%s: got %q want %q", where, w.String(), want)
				}
			case "Bytes", "String":
				var got string
				var e error
				if op.Op == "Bytes" {
					var b []byte
					b, e = m.Bytes(op.Arg, []byte(in))
					got = string(b)
				} else {
					got, e = m.String(op.Arg, in)
				}
				if served == nil {
					if !errors.Is(e, minify.ErrNotExist) || got != in {
						return nontrivial, fmt.Errorf("%s: want (original, ErrNotExist), got (%q, %v)", where, got, e)
					}
					continue
				}
				if want := (stub{fail: served.fail}).err(); want != nil {
					if !errors.Is(e, want) || got != in {
						return nontrivial, fmt.Errorf("%s: registration #%d serves it and returns %v; want (original, that error), got (%q, %v)", where, served.id, want, got, e)
					}
					continue
				}
				if e != nil {
					return nontrivial, fmt.Errorf("%s: unexpected error %v", where, e)
				}
				if want := expect(*served, params, in); got != want {
					return nontrivial, fmt.Errorf("%s: got %q want %q", where, got, want)
				}
			}
		}
	}
	return nontrivial, nil
}

var opKinds = []string{"Minify", "AddRegexp", "Add", "Add", "AddFunc", "AddFunc", "AddRegexp", "AddRegexp", "AddRegexp", "AddFuncRegexp", "AddFuncRegexp", "AddFuncRegexp", "AddCmdRegexp",
	"Match", "Match", "Match", "Match", "Minify", "Minify", "Minify", "Minify", "Minify", "MinifyMimetype", "MinifyMimetype", "Bytes", "Bytes", "String", "String", "AddCmd"}

func genFail(t *rapid.T, k string) string {
	if strings.Contains(k, "Cmd") {
		return ""
	}
	return rapid.SampledFrom([]string{"", "", "", "", "notexist", "other"}).Draw(t, "fail")
}

func genOp(t *rapid.T) Op {
	k := rapid.SampledFrom(opKinds).Draw(t, "opkind")
	in := rapid.SampledFrom([]string{"", "x", "in put", "<a> b"}).Draw(t, "input")
	switch k {
	case "Add", "AddFunc", "AddCmd":
		return Op{Op: k, Arg: rapid.SampledFrom(types).Draw(t, "type"), Fail: genFail(t, k)}
	case "AddRegexp", "AddFuncRegexp", "AddCmdRegexp":
		return Op{Op: k, Arg: rapid.SampledFrom(patterns).Draw(t, "pat"), Fail: genFail(t, k)}
	case "MinifyMimetype":
		var p map[string]string
		if rapid.Bool().Draw(t, "hasparams") {
			p = map[string]string{rapid.SampledFrom([]string{"inline", "charset"}).Draw(t, "mk"): rapid.SampledFrom([]string{"1", "utf-8"}).Draw(t, "mv")}
		}
		return Op{Op: k, Arg: rapid.SampledFrom(types).Draw(t, "type"), Params: p, Input: in}
	default:
		return Op{Op: k, Arg: genQuery(t), Input: in}
	}
}

func TestCampaignHistories(t *testing.T) {
	hx.C.SetRule(rule)
	hx.C.Assume("media type strings are restricted to the documented shape 'type/subtype; key=value' (tokens without spaces, ';' or '='; optional spaces around separators; at least 3 bytes) so the reference split is not guessing", "matching is on the exact bytes of type/subtype (no case folding is documented)")
	hx.Setup("histories", 60000, 2000000)
	rapid.Check(t, func(t *rapid.T) {
		n := rapid.SampledFrom([]int{3, 6, 10, 16, 24, 30}).Draw(t, "nops")
		c := Case{}
		for i := 0; i < n; i++ {
			c.Ops = append(c.Ops, genOp(t))
		}
		nt, err := checkCase(c)
		b, _ := json.Marshal(c)
		cls := []string{}
		for _, op := range c.Ops {
			cls = append(cls, "op:"+op.Op)
		}
		hx.C.Case(hx.Hash(string(b)), nt, cls...)
		if nt && len(c.Ops) < 8 {
			hx.C.Sample(len(b), c)
		}
		hx.KnownOrFail(t, "histories", c, err, nil)
	})
}

func TestReplay(t *testing.T) {
	hx.ReplayTest(t, func(f hx.Failure) error {
		var c Case
		if err := json.Unmarshal(f.Case, &c); err != nil {
			return err
		}
		_, err := checkCase(c)
		return err
	})
}
