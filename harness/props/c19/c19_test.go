package c19

import (
	"bytes"
	"encoding/json"
	"fmt"
	"os"
	"os/exec"
	"path/filepath"
	"regexp"
	"sort"
	"strings"
	"testing"
	"time"

	"pgregory.net/rapid"

	"verifharness/hx"
	"verifharness/mk"
)

func TestMain(m *testing.M) { hx.Main(m) }

// ---------------------------------------------------------------------------
// scenario

type File struct {
	Path    string `json:"path"` // relative to the working directory
	Content string `json:"content,omitempty"`
	Mode    uint32 `json:"mode,omitempty"`
	Link    string `json:"link,omitempty"` // symlink target (relative), Content unused
	Dir     bool   `json:"dir,omitempty"`
}

type Scenario struct {
	Files []File   `json:"files"`
	Args  []string `json:"args"`
	Stdin *string  `json:"stdin,omitempty"`
	Shape string   `json:"shape"`
}

const rule = "cases = (directory tree with nesting, hidden files and directories, known (incl. the seven HTML template types php asp ejs tmpl gohtml mustache handlebars, whose model is the HTML minifier with that type's delimiters) / unknown / upper-case / missing extensions, same base name with different types, pre-existing .bak neighbours, symlinks to files, empty files and files the minifier rejects, different permission bits) x (invocation shape: file->file, file->stdout, stdin->stdout/file, files->dir/, -r dir and -r dir/ mirroring, in-place file and in-place tree, bundles to file and stdout, --sync, --match/--include/--exclude globs and regexps, --type override, -a, -q/-v, minifier option flags); oracle = reference model of cmd/minify/README.md computing the expected tree, stdout and exit status (content = library output for the type or the original bytes when the library fails), compared with full before/after snapshots (path, kind, bytes, permission bits, link target) of the working directory AND its parent; distinct by hash; non-trivial = >= 2 files selected, or in-place, or a failing file, or a filter that excludes something, or sync copies"

var extMap = map[string]string{"css": "text/css", "htm": "text/html", "html": "text/html", "js": "application/javascript", "json": "application/json", "mjs": "application/javascript", "rss": "application/rss+xml", "svg": "image/svg+xml", "webmanifest": "application/manifest+json", "xhtml": "application/xhtml+xml", "xml": "text/xml",
	"asp": "text/asp", "ejs": "text/x-ejs-template", "gohtml": "text/x-go-template", "handlebars": "text/x-handlebars-template", "mustache": "text/x-mustache-template", "php": "application/x-httpd-php", "tmpl": "text/x-go-template"}

// the HTML template types: HTML with the template code between these delimiters kept as it is, all --html-* options
// apply to them (README: "template languages")
var templateDelims = map[string][2]string{"text/asp": {"<%", "%>"}, "text/x-ejs-template": {"<%", "%>"}, "application/x-httpd-php": {"<?", "?>"}, "text/x-go-template": {"{{", "}}"}, "text/x-mustache-template": {"{{", "}}"}, "text/x-handlebars-template": {"{{", "}}"}}

// ---------------------------------------------------------------------------
// reference model

type flags struct {
	output    string
	hasOutput bool
	typ       string
	recursive bool
	all       bool
	sync      bool
	bundle    bool
	quiet     bool
	verbose   int
	matches   []string
	filters   []string // +pattern / -pattern
	inputs    []string
	opts      mk.Options
}

func parseArgs(args []string) (f flags, err error) {
	for i := 0; i < len(args); i++ {
		a := args[i]
		val := func() string {
			i++
			if i < len(args) {
				return args[i]
			}
			return ""
		}
		switch a {
		case "-o":
			f.output, f.hasOutput = val(), true
		case "--type":
			f.typ = val()
		case "-r":
			f.recursive = true
		case "-a":
			f.all = true
		case "-s", "--sync":
			f.sync = true
		case "-b":
			f.bundle = true
		case "-q":
			f.quiet = true
		case "-v":
			f.verbose++
		case "--match":
			f.matches = append(f.matches, val())
		case "--include":
			f.filters = append(f.filters, "+"+val())
		case "--exclude":
			f.filters = append(f.filters, "-"+val())
		case "--html-keep-end-tags":
			f.opts.HTMLKeepEndTags = true
		case "--html-keep-whitespace":
			f.opts.HTMLKeepWhitespace = true
		case "--html-keep-comments":
			f.opts.HTMLKeepComments = true
		case "--html-keep-quotes":
			f.opts.HTMLKeepQuotes = true
		case "--html-keep-document-tags":
			f.opts.HTMLKeepDocTags = true
		case "--html-keep-default-attrvals":
			f.opts.HTMLKeepDefaultAttrs = true
		case "--js-keep-var-names":
			f.opts.JSKeepVars = true
		case "--json-keep-numbers":
			f.opts.JSONKeepNumbers = true
		case "--":
		default:
			if strings.HasPrefix(a, "-") && a != "-" {
				return f, fmt.Errorf("model: unknown flag %s", a)
			}
			f.inputs = append(f.inputs, a)
		}
	}
	return f, nil
}

var reJSType = regexp.MustCompile(`^(application|text)/(x-)?(java|ecma|j|live)script(1\.[0-5])?$|^module$`)

func compilePattern(p string) *regexp.Regexp {
	if len(p) == 0 || p[0] != '~' {
		p = strings.TrimPrefix(p, `\`)
		q := regexp.QuoteMeta(p)
		q = strings.ReplaceAll(q, `\*\*`, `.*`)
		q = strings.ReplaceAll(q, `\*`, `[^/]*`)
		q = strings.ReplaceAll(q, `\?`, `[^/]`) // a glob: exactly one character
		return regexp.MustCompile("^" + q + "$")
	}
	return regexp.MustCompile(p[1:])
}

type fsState map[string]File // by clean relative path

func (s fsState) clone() fsState {
	c := fsState{}
	for k, v := range s {
		c[k] = v
	}
	return c
}

type task struct {
	srcs []string
	dst  string
	sync bool
}

type expectation struct {
	fs       fsState
	stdout   *string // exact stdout (stdout destination), nil = not compared
	exit     int
	selected int
	inplace  bool
	failing  bool
	filtered bool
	synced   bool
	undef    string // the model does not define this scenario
}

func ext(p string) string {
	e := filepath.Ext(p)
	if len(e) > 0 {
		e = e[1:]
	}
	return e
}

// resolve follows symlinks to files (one level is all the generator makes)
func (s fsState) resolve(p string) (File, string, bool) {
	f, ok := s[p]
	if !ok {
		return File{}, p, false
	}
	if f.Link != "" {
		t := filepath.Clean(filepath.Join(filepath.Dir(p), f.Link))
		g, ok := s[t]
		return g, t, ok
	}
	return f, p, true
}

func libMinify(mt string, in []byte, o mk.Options) ([]byte, error) {
	opts := o.Build()
	m := mk.Full(opts)
	if d, ok := templateDelims[mt]; ok {
		// as the command registers it: the HTML minifier with the delimiters under the template type, text/html (where
		// the text of an iframe goes, C11) without
		h := *opts.HTML
		h.TemplateDelims = d
		m.Add(mt, &h)
	}
	return mk.RunM(m, mt, append([]byte{}, in...))
}

func model(sc Scenario) expectation {
	ex := expectation{fs: fsState{}}
	for _, f := range sc.Files {
		ex.fs[filepath.Clean(f.Path)] = f
	}
	before := ex.fs.clone()
	margs := make([]string, len(sc.Args))
	for i, a := range sc.Args {
		margs[i] = strings.ReplaceAll(a, "{{WD}}/", "") // the model lives in the working directory
	}
	f, err := parseArgs(margs)
	if err != nil {
		ex.undef = err.Error()
		return ex
	}
	useStdin := len(f.inputs) == 0 || len(f.inputs) == 1 && f.inputs[0] == "-"
	if useStdin {
		f.inputs = nil
	}
	output := f.output
	if output == "-" {
		output = ""
	}
	mimetype := f.typ
	if mimetype != "" && !strings.Contains(mimetype, "/") {
		mt, ok := extMap[mimetype]
		if !ok {
			ex.exit = 1
			return ex
		}
		mimetype = mt
	}
	fail := func() expectation { ex.exit = 1; return ex }
	if (useStdin || output == "") && f.sync {
		return fail()
	}
	if useStdin && (f.bundle || f.recursive) {
		return fail()
	}
	if output == "" && f.recursive && !f.bundle {
		return fail()
	}
	if mimetype == "" && useStdin {
		return fail()
	}
	if mimetype != "" && f.sync {
		return fail()
	}
	isDir := func(p string) bool { x, ok := before[filepath.Clean(p)]; return ok && x.Dir }
	dirDst := false
	if output != "" {
		if strings.HasSuffix(output, "/") {
			dirDst = true
		} else if !f.bundle && len(f.inputs) > 1 {
			dirDst = true
		} else if !f.bundle && len(f.inputs) == 1 && isDir(f.inputs[0]) {
			dirDst = true
		}
		if dirDst && f.bundle {
			return fail()
		}
		output = filepath.Clean(output)
		if dirDst {
			output += "/"
		}
	} else if !f.bundle && len(f.inputs) > 1 {
		return fail()
	}
	var matchRe, filterRe []*regexp.Regexp
	for _, p := range f.matches {
		matchRe = append(matchRe, compilePattern(p))
	}
	for _, p := range f.filters {
		filterRe = append(filterRe, compilePattern(p[1:]))
	}
	fileFilter := func(name string) bool {
		if len(matchRe) > 0 {
			ok := false
			for _, re := range matchRe {
				if re.MatchString(filepath.Base(name)) {
					ok = true
				}
			}
			if !ok {
				return false
			}
		}
		m := true
		for i, re := range filterRe {
			if re.MatchString(name) {
				m = f.filters[i][0] == '+'
			}
		}
		return m
	}
	fileMatches := func(name string) bool {
		if !fileFilter(name) {
			return false
		}
		if mimetype != "" {
			return true
		}
		_, ok := extMap[ext(name)]
		return ok
	}
	newTask := func(root, input string, sync bool) task {
		out := output
		if out != "" && (out == "." || strings.HasSuffix(out, "/")) {
			rel, _ := filepath.Rel(root, input)
			out = filepath.Join(out, rel)
		}
		return task{[]string{input}, out, sync}
	}
	var tasks []task
	if useStdin {
		tasks = append(tasks, task{[]string{""}, output, false})
	}
	for _, input := range f.inputs {
		root := filepath.Clean(filepath.Dir(input))
		trailing := strings.HasSuffix(input, "/")
		clean := filepath.Clean(input)
		if trailing {
			root = clean
		}
		x, _, ok := before.resolve(clean)
		if !ok {
			return fail() // no such file: the run stops before any task
		}
		if !x.Dir {
			valid := fileFilter(clean)
			if !valid {
				ex.filtered = true
			}
			if _, known := extMap[ext(clean)]; f.sync && valid && mimetype == "" && !known {
				valid = false // --sync: "copy all files ... and minify when filetype matches", also a file that is named directly
			}
			if valid || f.sync {
				if mimetype == "" && !f.sync {
					if _, ok := extMap[ext(clean)]; !ok {
						return fail()
					}
				}
				tasks = append(tasks, newTask(root, clean, !valid))
			}
			continue
		}
		if !f.recursive {
			continue // warning only
		}
		// walk in lexical order
		var paths []string
		for p := range before {
			if p == clean || strings.HasPrefix(p, clean+"/") {
				paths = append(paths, p)
			}
		}
		sort.Slice(paths, func(i, j int) bool {
			// fs.WalkDir order: lexical per directory level
			a, b := strings.Split(paths[i], "/"), strings.Split(paths[j], "/")
			for k := 0; k < len(a) && k < len(b); k++ {
				if a[k] != b[k] {
					return a[k] < b[k]
				}
			}
			return len(a) < len(b)
		})
		for _, p := range paths {
			if p == clean {
				continue
			}
			rel := strings.TrimPrefix(p, clean+"/")
			hiddenPart := false
			for _, part := range strings.Split(rel, "/") {
				if strings.HasPrefix(part, ".") {
					hiddenPart = true
				}
			}
			if hiddenPart && !f.all {
				ex.filtered = true
				continue
			}
			y, _, ok := before.resolve(p)
			if !ok || y.Dir {
				if before[p].Link != "" && ok && y.Dir {
					ex.undef = "symlink to a directory inside a walked tree"
				}
				continue
			}
			valid := fileMatches(p)
			if !valid {
				ex.filtered = true
			}
			if valid || f.sync {
				tasks = append(tasks, newTask(root, p, !valid))
			}
		}
	}
	if f.bundle && len(tasks) > 1 {
		for _, t := range tasks[1:] {
			tasks[0].srcs = append(tasks[0].srcs, t.srcs[0])
		}
		tasks = tasks[:1]
	}
	// destinations must be distinct and must not be inputs of other tasks: otherwise the result depends on the order of the worker pool
	seenDst := map[string]bool{}
	allSrc := map[string]bool{}
	for _, t := range tasks {
		for _, s := range t.srcs {
			_, rp, _ := before.resolve(s)
			allSrc[rp] = true
		}
	}
	for _, t := range tasks {
		if t.dst == "" {
			continue
		}
		if seenDst[t.dst] {
			ex.undef = "two inputs map to the same destination " + t.dst
			return ex
		}
		seenDst[t.dst] = true
		_, rd, _ := before.resolve(t.dst)
		own := false
		for _, s := range t.srcs {
			_, rp, _ := before.resolve(s)
			if rp == rd {
				own = true
			}
		}
		if allSrc[rd] && !own {
			ex.undef = "a destination is the input of another task"
			return ex
		}
		if x, ok := before[t.dst]; ok && x.Dir {
			ex.undef = "destination file is an existing directory"
			return ex
		}
		// a parent of the destination that exists as a file
		for d := filepath.Dir(t.dst); d != "." && d != "/"; d = filepath.Dir(d) {
			if x, ok := before[d]; ok && !x.Dir {
				ex.undef = "a parent of the destination is a file"
				return ex
			}
		}
	}
	for _, t := range tasks {
		for _, s := range t.srcs {
			if before[s].Link != "" && t.dst != "" {
				_, rs, _ := before.resolve(s)
				_, rd, _ := before.resolve(t.dst)
				if rs == rd {
					n := 0
					for _, t2 := range tasks {
						for _, s2 := range t2.srcs {
							if _, r2, _ := before.resolve(s2); r2 == rs {
								n++
							}
						}
					}
					if n > 1 {
						ex.undef = "symlink and its target are both minified in place in one run"
						return ex
					}
				}
			}
		}
	}
	if dirDst {
		mkdirAll(ex.fs, strings.TrimSuffix(output, "/"))
	}
	var stdout bytes.Buffer
	toStdout := false
	for _, t := range tasks {
		ex.selected += len(t.srcs)
		ok := runTask(&ex, before, t, mimetype, f, sc, &stdout)
		if !ok {
			ex.exit = 1
		}
		if t.dst == "" {
			toStdout = true
		}
	}
	if toStdout || len(tasks) == 0 && output == "" {
		s := stdout.String()
		ex.stdout = &s
	}
	return ex
}

func mkdirAll(s fsState, dir string) {
	for d := filepath.Clean(dir); d != "." && d != "/" && d != ""; d = filepath.Dir(d) {
		if _, ok := s[d]; !ok {
			s[d] = File{Path: d, Dir: true}
		}
	}
}

func runTask(ex *expectation, before fsState, t task, mimetype string, f flags, sc Scenario, stdout *bytes.Buffer) bool {
	read := func(p string) ([]byte, string, os.FileMode) {
		if p == "" {
			if sc.Stdin != nil {
				return []byte(*sc.Stdin), "", 0
			}
			return nil, "", 0
		}
		x, rp, _ := before.resolve(p)
		return []byte(x.Content), rp, os.FileMode(x.Mode)
	}
	write := func(dst string, b []byte, perm os.FileMode) {
		if dst == "" {
			stdout.Write(b)
			return
		}
		mkdirAll(ex.fs, filepath.Dir(dst))
		// writing through a symlink writes the target
		if x, ok := ex.fs[dst]; ok && x.Link != "" {
			dst = filepath.Clean(filepath.Join(filepath.Dir(dst), x.Link))
		}
		old, existed := ex.fs[dst]
		nf := File{Path: dst, Content: string(b), Mode: uint32(perm)}
		if perm == 0 {
			nf.Mode = 0 // unknown: not compared
			if existed {
				nf.Mode = old.Mode
			}
		}
		ex.fs[dst] = nf
	}
	if t.sync {
		ex.synced = true
		_, rs, _ := before.resolve(t.srcs[0])
		_, rd, okd := before.resolve(t.dst)
		if okd && rs == rd || t.srcs[0] == t.dst {
			return true
		}
		b, _, perm := read(t.srcs[0])
		write(t.dst, b, perm)
		return true
	}
	mt := mimetype
	if mt == "" {
		for _, s := range t.srcs {
			m, ok := extMap[ext(s)]
			if !ok {
				return false
			}
			if mt == "" {
				mt = m
			} else if m != mt {
				return false
			}
		}
	}
	var in []byte
	perm := os.FileMode(0)
	samePerm := true
	for i, s := range t.srcs {
		b, rs, p := read(s)
		if i > 0 && reJSType.MatchString(strings.TrimSpace(strings.SplitN(mt, ";", 2)[0])) { // scripts are joined with a semicolon, whatever script type was asked for
			in = append(in, ";\n"...)
		}
		in = append(in, b...)
		if i == 0 {
			perm = p
		} else if p != perm {
			samePerm = false
		}
		if t.dst != "" {
			if _, rd, ok := before.resolve(t.dst); ok && rd == rs {
				ex.inplace = true
			}
		}
	}
	if !samePerm {
		perm = 0
	}
	if ex.inplace && t.dst != "" {
		// the original is parked as <name>.bak: an existing file of that name must not be touched, the task fails
		if _, exists := before[t.dst+".bak"]; exists {
			ex.failing = true
			return false
		}
		// a symbolic link minified onto itself is dereferenced: the link is replaced by a regular file, the target stays
		if x, ok := ex.fs[t.dst]; ok && x.Link != "" {
			delete(ex.fs, t.dst)
		}
	}
	out, err := libMinify(mt, in, f.opts)
	if err != nil {
		ex.failing = true
		write(t.dst, in, perm)
		return false
	}
	write(t.dst, out, perm)
	return true
}

// ---------------------------------------------------------------------------
// running the real thing

func snapshot(root string) (fsState, error) {
	s := fsState{}
	err := filepath.Walk(root, func(p string, info os.FileInfo, err error) error {
		if err != nil {
			return err
		}
		rel, _ := filepath.Rel(root, p)
		if rel == "." {
			return nil
		}
		f := File{Path: rel}
		switch {
		case info.Mode()&os.ModeSymlink != 0:
			f.Link, _ = os.Readlink(p)
		case info.IsDir():
			f.Dir = true
		default:
			b, e := os.ReadFile(p)
			if e != nil {
				return e
			}
			f.Content = string(b)
			f.Mode = uint32(info.Mode().Perm())
		}
		s[rel] = f
		return nil
	})
	return s, err
}

func materialise(root string, files []File) error {
	// directories first, then files, then links
	for _, f := range files {
		if f.Dir {
			if err := os.MkdirAll(filepath.Join(root, f.Path), 0o755); err != nil {
				return err
			}
		}
	}
	for _, f := range files {
		if f.Dir || f.Link != "" {
			continue
		}
		p := filepath.Join(root, f.Path)
		os.MkdirAll(filepath.Dir(p), 0o755)
		if err := os.WriteFile(p, []byte(f.Content), os.FileMode(f.Mode)); err != nil {
			return err
		}
		os.Chmod(p, os.FileMode(f.Mode))
		old := time.Date(2020, 1, 2, 3, 4, 5, 0, time.UTC)
		os.Chtimes(p, old, old)
	}
	for _, f := range files {
		if f.Link != "" {
			p := filepath.Join(root, f.Path)
			os.MkdirAll(filepath.Dir(p), 0o755)
			if err := os.Symlink(f.Link, p); err != nil {
				return err
			}
		}
	}
	return nil
}

type outcome struct {
	fs     fsState
	parent fsState
	stdout string
	stderr string
	exit   int
}

func execute(sc Scenario) (outcome, error) {
	cli := os.Getenv("VERIF_CLI")
	if cli == "" {
		return outcome{}, fmt.Errorf("HARNESS: VERIF_CLI not set")
	}
	parent, err := os.MkdirTemp("", "c19-")
	if err != nil {
		return outcome{}, fmt.Errorf("HARNESS: %v", err)
	}
	defer func() {
		filepath.Walk(parent, func(p string, info os.FileInfo, err error) error {
			if err == nil && info.IsDir() {
				os.Chmod(p, 0o755)
			}
			return nil
		})
		os.RemoveAll(parent)
	}()
	work := filepath.Join(parent, "work")
	os.Mkdir(work, 0o755)
	// a bystander next to the working directory
	os.WriteFile(filepath.Join(parent, "bystander.js"), []byte("var bystander = 1 ;\n"), 0o644)
	if err := materialise(work, sc.Files); err != nil {
		return outcome{}, fmt.Errorf("HARNESS: %v", err)
	}
	// {{WD}} in an argument is the absolute path of the working directory: another spelling of the same place
	args := make([]string, len(sc.Args))
	for i, a := range sc.Args {
		args[i] = strings.ReplaceAll(a, "{{WD}}", work)
	}
	cmd := exec.Command(cli, args...)
	cmd.Dir = work
	cmd.Env = append(os.Environ(), "HOME="+parent, "XDG_CONFIG_HOME="+parent)
	if sc.Stdin != nil {
		cmd.Stdin = strings.NewReader(*sc.Stdin)
	}
	var so, se bytes.Buffer
	cmd.Stdout, cmd.Stderr = &so, &se
	done := make(chan error, 1)
	if err := cmd.Start(); err != nil {
		return outcome{}, fmt.Errorf("HARNESS: %v", err)
	}
	go func() { done <- cmd.Wait() }()
	var rerr error
	select {
	case rerr = <-done:
	case <-time.After(60 * time.Second):
		cmd.Process.Kill()
		return outcome{}, fmt.Errorf("the command did not finish within 60 s")
	}
	o := outcome{stdout: so.String(), stderr: se.String()}
	if rerr != nil {
		if ee, ok := rerr.(*exec.ExitError); ok {
			o.exit = ee.ExitCode()
		} else {
			return outcome{}, fmt.Errorf("HARNESS: %v", rerr)
		}
	}
	if o.fs, err = snapshot(work); err != nil {
		return outcome{}, fmt.Errorf("HARNESS: %v", err)
	}
	if o.parent, err = snapshot(parent); err != nil {
		return outcome{}, fmt.Errorf("HARNESS: %v", err)
	}
	return o, nil
}

func describe(f File, ok bool) string {
	if !ok {
		return "absent"
	}
	if f.Dir {
		return "directory"
	}
	if f.Link != "" {
		return "symlink -> " + f.Link
	}
	c := f.Content
	if len(c) > 200 {
		c = c[:200] + "..."
	}
	return fmt.Sprintf("file mode %o %q", f.Mode, c)
}

func check(sc Scenario) (expectation, error) {
	ex := model(sc)
	if ex.undef != "" {
		return ex, nil
	}
	o, err := execute(sc)
	if err != nil {
		return ex, err
	}
	show := func(format string, a ...interface{}) error {
		var tree []string
		for _, f := range sc.Files {
			tree = append(tree, "  "+describe(f, true)+"  "+f.Path)
		}
		return fmt.Errorf(format+"\n--- command: minify %s\n--- exit status %d (expected %d)\n--- stderr:\n%s\n--- tree before:\n%s", append(a, strings.Join(sc.Args, " "), o.exit, ex.exit, clip(o.stderr), strings.Join(tree, "\n"))...)
	}
	// the parent holds the bystander and the working directory only
	for p, f := range o.parent {
		if strings.HasPrefix(p, "work") {
			continue
		}
		if p != "bystander.js" || f.Content != "var bystander = 1 ;\n" {
			return ex, show("a file outside the working directory was created or changed: %s is %s", p, describe(f, true))
		}
	}
	var paths []string
	for p := range o.fs {
		paths = append(paths, p)
	}
	for p := range ex.fs {
		if _, ok := o.fs[p]; !ok {
			paths = append(paths, p)
		}
	}
	sort.Strings(paths)
	for _, p := range paths {
		got, okg := o.fs[p]
		want, okw := ex.fs[p]
		if okg != okw {
			return ex, show("%s: is %s, expected %s", p, describe(got, okg), describe(want, okw))
		}
		if got.Dir != want.Dir || got.Link != want.Link {
			return ex, show("%s: is %s, expected %s", p, describe(got, okg), describe(want, okw))
		}
		if !got.Dir && got.Link == "" {
			if got.Content != want.Content {
				return ex, show("%s: is %s, expected %s", p, describe(got, okg), describe(want, okw))
			}
			if want.Mode != 0 && got.Mode != want.Mode {
				return ex, show("%s: has mode %o, expected %o (mode is preserved by default)", p, got.Mode, want.Mode)
			}
		}
	}
	if (o.exit != 0) != (ex.exit != 0) {
		return ex, show("exit status is %d, expected %d", o.exit, ex.exit)
	}
	if ex.stdout != nil && o.stdout != *ex.stdout {
		return ex, show("standard output is %q, expected %q", clip(o.stdout), clip(*ex.stdout))
	}
	return ex, nil
}

func clip(s string) string {
	if len(s) > 600 {
		return s[:600] + "..."
	}
	return s
}

// ---------------------------------------------------------------------------
// generation

var contents = map[string][]string{
	"js":          {"var a = 1 ;\nfunction f ( x ) { return x + 1 }\n", "let longName = 2 ; console.log( longName )", "", "var = ;", "if (a) { b() } else { c() }"},
	"mjs":         {"export default function ( ) { return 1 }\n", "import a from './a.js' ; a ( )"},
	"css":         {"a { color : #ff0000 ; margin : 0px }\n", "@media screen { b { top : 0.50em } }", "", "a{b:c}"},
	"html":        {"<html><head><title> t </title></head><body><p> a </p><script> var x = 1 ; </script></body></html>", "<p>x</p>\n", "", "<div><script>var = ;</script></div>", "<P CLASS=\"x\">  a   b  </P>\n\n<UL> <LI> one </LI> </UL>\n<script>var = ;</script>\n"},
	"htm":         {"<p> a  b </p>"},
	"json":        {"{ \"a\" : [ 1.0 , 2 ] }\n", "[ ]", "{\"a\":}", "", "{ \"name\" : \"demo\" ,  \"list\" : [ 1 , 2 , 3 ] ,  \"broken\" : }\n"},
	"svg":         {"<svg xmlns=\"http://www.w3.org/2000/svg\"><path d=\"M 0 0 L 10 10\"/></svg>", "<svg><!-- c --><g></g></svg>"},
	"xml":         {"<?xml version=\"1.0\"?>\n<root>\n  <a> x </a>\n</root>\n", "<a/>"},
	"rss":         {"<rss><channel>  <title>t</title> </channel></rss>"},
	"xhtml":       {"<?xml version=\"1.0\"?>\n<html xmlns=\"http://www.w3.org/1999/xhtml\">\n  <body> <p> a </p> </body>\n</html>\n"},
	"webmanifest": {"{ \"name\" : \"app\" , \"icons\" : [ ] }\n"},
	"php":         {"<html><body><p class=\"a\"> a  <?php echo  $x ; ?>  b </p><!-- c -->\n<ul> <li> one </li> </ul><script type=\"text/javascript\"> var x = 1 ; </script></body></html>\n", "<?php  if ( $a ) { ?> <b> x </b> <?php } ?>"},
	"asp":         {"<p id=\"p\"> a  <%= x  %>  b </p> <!-- c --> <form method=\"get\"> <input type=\"text\"> </form>"},
	"ejs":         {"<ul> <% items.forEach( function ( i ) { %> <li> <%= i  %> </li> <% } ) %> </ul><!-- c -->"},
	"tmpl":        {"<html><head><title> {{ .Title }} </title></head><body> <p class=\"x\"> {{ if .A }}  a  {{ end }} </p> <!-- c --> </body></html>"},
	"gohtml":      {"<div class=\"d\"> {{ range .Items }} <span> {{ . }} </span> {{ end }} </div> <!-- c -->"},
	"mustache":    {"<p> {{ name }}  </p> <!-- c --> <ul> <li> {{#items}} x {{/items}} </li> </ul>"},
	"handlebars":  {"<div id=\"e\"> {{#each list}}  <i> {{this}} </i>  {{/each}} </div> <!-- c -->"},
	"txt":         {"plain  text\n", ""},
	"":            {"no extension\n"},
	"JS":          {"var upper = 1 ;"},
	"bak":         {"PRECIOUS BACKUP\n"},
	"md":          {"# readme\n"},
}

var baseNames = []string{"a", "b", "index", "sp ace", "x.min", "dup", ".hidden", "UP", "main"}
var dirNames = []string{"src", "src/sub", "src/.git", "lib", "src/sub/deep", "assets"}

func genFiles(t *rapid.T) []File {
	var files []File
	seen := map[string]bool{}
	addDir := func(d string) {
		for p := d; p != "." && p != ""; p = filepath.Dir(p) {
			if !seen[p] {
				seen[p] = true
				files = append(files, File{Path: p, Dir: true})
			}
		}
	}
	n := rapid.IntRange(1, 9).Draw(t, "nfiles")
	exts := []string{"js", "css", "html", "json", "svg", "xml", "txt", "mjs", "htm", "rss", "", "JS", "md", "xhtml", "webmanifest", "php", "tmpl", "asp", "ejs", "gohtml", "mustache", "handlebars"}
	for i := 0; i < n; i++ {
		dir := rapid.SampledFrom([]string{".", ".", "src", "src", "src/sub", "src/.git", "lib", "src/sub/deep", "assets"}).Draw(t, "dir")
		e := rapid.SampledFrom(exts).Draw(t, "ext")
		name := rapid.SampledFrom(baseNames).Draw(t, "base")
		if e != "" {
			name += "." + e
		}
		p := filepath.Join(dir, name)
		if seen[p] {
			continue
		}
		seen[p] = true
		if dir != "." {
			addDir(dir)
		}
		cs := contents[e]
		c := cs[rapid.IntRange(0, len(cs)-1).Draw(t, "content")]
		mode := rapid.SampledFrom([]uint32{0o644, 0o644, 0o600, 0o755, 0o664}).Draw(t, "mode")
		files = append(files, File{Path: p, Content: c, Mode: mode})
		if rapid.IntRange(0, 7).Draw(t, "bak") == 0 && !seen[p+".bak"] {
			seen[p+".bak"] = true
			files = append(files, File{Path: p + ".bak", Content: "PRECIOUS BACKUP of " + name + "\n", Mode: 0o644})
		}
	}
	// a dangling symbolic link in a directory now and then: it is left out, everything else is processed
	if rapid.IntRange(0, 9).Draw(t, "dangling") == 0 && seen["src"] && !seen["src/dangling.css"] {
		seen["src/dangling.css"] = true
		files = append(files, File{Path: "src/dangling.css", Link: "nowhere.css"})
	}
	// a symlink to a file now and then
	if rapid.IntRange(0, 5).Draw(t, "symlink") == 0 {
		var regs []File
		for _, f := range files {
			if !f.Dir && f.Link == "" && strings.HasSuffix(f.Path, ".js") {
				regs = append(regs, f)
			}
		}
		if len(regs) > 0 {
			target := regs[rapid.IntRange(0, len(regs)-1).Draw(t, "linktarget")]
			lp := filepath.Join(filepath.Dir(target.Path), "link.js")
			if !seen[lp] {
				seen[lp] = true
				files = append(files, File{Path: lp, Link: filepath.Base(target.Path)})
			}
		}
	}
	return files
}

func regularFiles(files []File) []string {
	var r []string
	for _, f := range files {
		if !f.Dir {
			r = append(r, f.Path)
		}
	}
	sort.Strings(r)
	return r
}

func dirsOf(files []File) []string {
	var r []string
	for _, f := range files {
		if f.Dir && !strings.Contains(f.Path, "/.") {
			r = append(r, f.Path)
		}
	}
	sort.Strings(r)
	return r
}

func genScenario(t *rapid.T) Scenario {
	sc := Scenario{Files: genFiles(t)}
	regs := regularFiles(sc.Files)
	dirs := dirsOf(sc.Files)
	pick := func(l string, xs []string) string { return xs[rapid.IntRange(0, len(xs)-1).Draw(t, l)] }
	shapes := []string{"file-file", "file-stdout", "stdin", "files-dir", "recursive", "recursive", "inplace-file", "inplace-tree", "bundle", "sync", "filters", "type-override"}
	sc.Shape = rapid.SampledFrom(shapes).Draw(t, "shape")
	var args []string
	common := func() {
		if rapid.IntRange(0, 3).Draw(t, "quiet") == 0 {
			args = append(args, "-q")
		} else if rapid.IntRange(0, 3).Draw(t, "verbose") == 0 {
			args = append(args, "-v")
		}
		if rapid.IntRange(0, 3).Draw(t, "optflag") == 0 {
			args = append(args, rapid.SampledFrom([]string{"--html-keep-end-tags", "--html-keep-whitespace", "--js-keep-var-names", "--json-keep-numbers", "--html-keep-comments", "--html-keep-quotes", "--html-keep-document-tags", "--html-keep-default-attrvals"}).Draw(t, "flag"))
		}
	}
	needDir := func() bool {
		if len(dirs) == 0 {
			sc.Shape = "file-file"
			return false
		}
		return true
	}
	switch sc.Shape {
	case "recursive", "inplace-tree", "sync", "filters":
		needDir()
	}
	common()
	switch sc.Shape {
	case "file-file":
		src := pick("src", regs)
		dst := rapid.SampledFrom([]string{"out.min" + filepath.Ext(src), "out/new/o" + filepath.Ext(src), "existing.txt"}).Draw(t, "dst")
		if dst == "existing.txt" {
			sc.Files = append(sc.Files, File{Path: "existing.txt", Content: "old content\n", Mode: 0o644})
		}
		args = append(args, "-o", dst, src)
	case "file-stdout":
		args = append(args, pick("src", regs))
	case "stdin":
		e := rapid.SampledFrom([]string{"js", "css", "html", "json", "svg", "xml"}).Draw(t, "stdintype")
		c := contents[e][rapid.IntRange(0, len(contents[e])-1).Draw(t, "stdincontent")]
		sc.Stdin = &c
		typ := e
		if rapid.Bool().Draw(t, "fulltype") {
			typ = extMap[e]
		}
		args = append(args, "--type", typ)
		if rapid.Bool().Draw(t, "stdinfile") {
			args = append(args, "-o", "from-stdin."+e)
		}
	case "files-dir":
		args = append(args, "-o", "out/")
		k := rapid.IntRange(1, 4).Draw(t, "nsrc")
		for i := 0; i < k; i++ {
			args = append(args, pick("src", regs))
		}
	case "recursive":
		d := pick("dir", dirs)
		if rapid.Bool().Draw(t, "trailing") {
			d += "/"
		}
		args = append(args, "-r")
		if rapid.IntRange(0, 3).Draw(t, "all") == 0 {
			args = append(args, "-a")
		}
		args = append(args, "-o", rapid.SampledFrom([]string{"out/", "out/nested/", "out"}).Draw(t, "outdir"), d)
	case "inplace-file":
		src := pick("src", regs)
		args = append(args, "-o", src, src)
	case "inplace-tree":
		d := pick("dir", dirs)
		args = append(args, "-r", "-o", d+"/", d+"/")
	case "bundle":
		e := rapid.SampledFrom([]string{".js", ".css", ".html"}).Draw(t, "bundleext")
		var same []string
		for _, r := range regs {
			if strings.HasSuffix(r, e) {
				same = append(same, r)
			}
		}
		if len(same) == 0 {
			same = regs
		}
		args = append(args, "-b")
		if e == ".js" && rapid.IntRange(0, 2).Draw(t, "bundletype") == 0 {
			// the type spelled out: every script type is bundled alike
			args = append(args, "--type", rapid.SampledFrom([]string{"js", "text/javascript", "application/javascript", "application/x-javascript"}).Draw(t, "bundletypev"))
		}
		if rapid.Bool().Draw(t, "bundlefile") {
			args = append(args, "-o", "bundle"+e)
		}
		k := rapid.IntRange(1, 3).Draw(t, "nsrc")
		for i := 0; i < k; i++ {
			args = append(args, pick("src", same))
		}
	case "sync":
		d := pick("dir", dirs)
		if rapid.Bool().Draw(t, "trailing") {
			d += "/"
		}
		args = append(args, "-r", "--sync")
		if rapid.IntRange(0, 3).Draw(t, "all") == 0 {
			args = append(args, "-a")
		}
		if rapid.IntRange(0, 4).Draw(t, "syncfiles") == 0 && len(regs) > 0 {
			// files named one by one: those without a minifier are copied as well
			args = []string{"--sync", "-o", "mirror/"}
			for i, k := 0, rapid.IntRange(1, 3).Draw(t, "nsyncfiles"); i < k; i++ {
				args = append(args, pick("syncfile", regs))
			}
			break
		}
		switch rapid.IntRange(0, 5).Draw(t, "syncdst") {
		case 0:
			// onto itself, spelled alike: matching files are minified in place, the others stay
			args = append(args, "-o", strings.TrimSuffix(d, "/")+"/", d)
		case 1:
			// onto itself under another spelling
			args = append(args, "-o", "{{WD}}/"+strings.TrimSuffix(d, "/")+"/", d)
		default:
			args = append(args, "-o", "mirror/", d)
		}
	case "filters":
		d := pick("dir", dirs)
		args = append(args, "-r", "-o", "out/")
		switch rapid.IntRange(0, 4).Draw(t, "filterkind") {
		case 0:
			args = append(args, "--match", "*.js")
		case 1:
			args = append(args, "--match", "~^(a|index)\\.")
		case 2:
			args = append(args, "--exclude", d+"/sub/**")
		case 3:
			args = append(args, "--exclude", "**/*.css", "--include", "**/a.css")
		case 4:
			args = append(args, "--match", "*.css", "--exclude", "**/dup.*")
		}
		args = append(args, "--", d+"/")
	case "type-override":
		src := pick("src", regs)
		args = append(args, "--type", rapid.SampledFrom([]string{"html", "text/css", "js"}).Draw(t, "type"), "-o", "typed.out", src)
	}
	sc.Args = args
	return sc
}

func TestCampaignScenarios(t *testing.T) {
	hx.C.SetRule(rule)
	hx.C.Assume("shapes the README leaves undefined are not generated or are skipped by the model (counted): two inputs mapping to one destination, a destination that is the input of another task, a destination below a file, symlinks to directories inside a walked tree, --ext, --watch, --preserve variations, --url", "timestamps and ownership are not compared; permission bits of written files are (mode is preserved by default)")
	hx.Setup("scenarios", 4000, 150000)
	rapid.Check(t, func(t *rapid.T) {
		sc := genScenario(t)
		ex, err := check(sc)
		b, _ := json.Marshal(sc)
		if ex.undef != "" {
			hx.C.Skip("model-undefined: " + strings.SplitN(ex.undef, " ", 4)[0])
			return
		}
		nt := err == nil && (ex.selected >= 2 || ex.inplace || ex.failing || ex.filtered || ex.synced)
		cls := []string{"shape:" + sc.Shape}
		if ex.inplace {
			cls = append(cls, "in-place")
		}
		if ex.failing {
			cls = append(cls, "failing-file")
		}
		if ex.filtered {
			cls = append(cls, "filter-excludes")
		}
		if ex.synced {
			cls = append(cls, "sync-copy")
		}
		if ex.exit != 0 {
			cls = append(cls, "exit-nonzero")
		}
		hx.C.Case(hx.Hash(string(b)), nt, cls...)
		if nt && len(b) < 1500 {
			hx.C.Sample(len(b), map[string]interface{}{"args": sc.Args, "files": regularFiles(sc.Files), "shape": sc.Shape})
		}
		if err != nil && strings.HasPrefix(err.Error(), "HARNESS:") {
			t.Fatalf("%v", err)
		}
		hx.KnownOrFail(t, "scenarios", sc, err, func() string { return matchKnown(sc, err) })
	})
}

// the same file under two names: through a symbolic link to its directory, and through a hard link. The command must see
// that source and destination are one file (or treat the hard link's other name as an input that is only read).
type Alias struct {
	Kind    string `json:"kind"` // symlinked-dir | hard-link
	Ext     string `json:"ext"`
	Content string `json:"content"`
	Quiet   bool   `json:"quiet"`
}

func checkAlias(a Alias) (nontrivial bool, err error) {
	cli := os.Getenv("VERIF_CLI")
	parent, e := os.MkdirTemp("", "c19a-")
	if e != nil {
		return false, fmt.Errorf("HARNESS: %v", e)
	}
	defer os.RemoveAll(parent)
	work := filepath.Join(parent, "work")
	os.MkdirAll(filepath.Join(work, "site"), 0o755)
	src := filepath.Join("site", "f."+a.Ext)
	os.WriteFile(filepath.Join(work, src), []byte(a.Content), 0o644)
	dst := ""
	if a.Kind == "symlinked-dir" {
		os.Symlink("site", filepath.Join(work, "current"))
		dst = filepath.Join("current", "f."+a.Ext)
	} else {
		dst = "other." + a.Ext
		os.Link(filepath.Join(work, src), filepath.Join(work, dst))
	}
	args := []string{"-o", dst, src}
	if a.Quiet {
		args = append([]string{"-q"}, args...)
	}
	cmd := exec.Command(cli, args...)
	cmd.Dir = work
	cmd.Env = append(os.Environ(), "HOME="+parent)
	out, _ := cmd.CombinedOutput()
	want, lerr := libMinify(extMap[a.Ext], []byte(a.Content), mk.Options{})
	if lerr != nil {
		want = []byte(a.Content)
	}
	gotSrc, e1 := os.ReadFile(filepath.Join(work, src))
	gotDst, e2 := os.ReadFile(filepath.Join(work, dst))
	_, bak1 := os.Lstat(filepath.Join(work, src+".bak"))
	_, bak2 := os.Lstat(filepath.Join(work, dst+".bak"))
	nontrivial = string(want) != a.Content
	fail := func(format string, x ...interface{}) error {
		return fmt.Errorf("minify %s (%s): "+format+"\n--- output of the command:\n%s", append([]interface{}{strings.Join(args, " "), a.Kind}, append(x, clip(string(out)))...)...)
	}
	switch {
	case e1 != nil || e2 != nil:
		return nontrivial, fail("source or destination is gone (%v, %v)", e1, e2)
	case string(gotDst) != string(want):
		return nontrivial, fail("the destination holds %q, expected %q", clip(string(gotDst)), clip(string(want)))
	case a.Kind == "symlinked-dir" && string(gotSrc) != string(want):
		return nontrivial, fail("source and destination are one file, it holds %q, expected %q", clip(string(gotSrc)), clip(string(want)))
	case a.Kind == "hard-link" && string(gotSrc) != a.Content && string(gotSrc) != string(want):
		return nontrivial, fail("the source holds %q: neither the original nor the output", clip(string(gotSrc)))
	case bak1 == nil || bak2 == nil:
		return nontrivial, fail("a .bak file is left behind")
	}
	return nontrivial, nil
}

func TestCampaignAliases(t *testing.T) {
	if hx.E.Shard != 0 {
		return
	}
	for _, kind := range []string{"symlinked-dir", "hard-link"} {
		for _, e := range []string{"js", "css", "html", "json", "svg", "xml"} {
			for _, content := range contents[e] {
				for _, quiet := range []bool{true, false} {
					a := Alias{kind, e, content, quiet}
					nt, err := checkAlias(a)
					hx.C.CaseEnum(nt && err == nil)
					hx.C.Class("alias:" + kind)
					if err != nil && strings.HasPrefix(err.Error(), "HARNESS:") {
						t.Fatalf("%v", err)
					}
					if err != nil {
						hx.Fail(t, "aliases", a, "%v", err)
						return
					}
				}
			}
		}
	}
}

func matchKnown(sc Scenario, err error) string { return "" }

func TestReplay(t *testing.T) {
	hx.ReplayTest(t, func(f hx.Failure) error {
		if f.Check == "aliases" {
			var a Alias
			if err := json.Unmarshal(f.Case, &a); err != nil {
				return err
			}
			_, err := checkAlias(a)
			return err
		}
		var sc Scenario
		if err := json.Unmarshal(f.Case, &sc); err != nil {
			return err
		}
		_, err := check(sc)
		return err
	})
}
