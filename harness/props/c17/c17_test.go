package c17

import (
	"bytes"
	"encoding/json"
	"fmt"
	stdhtml "html"
	"image/color"
	"regexp"
	"sort"
	"strings"
	"testing"

	"github.com/tdewolff/minify/v2"
	mcss "github.com/tdewolff/minify/v2/css"
	mhtml "github.com/tdewolff/minify/v2/html"
	msvg "github.com/tdewolff/minify/v2/svg"
	mxml "github.com/tdewolff/minify/v2/xml"
	"golang.org/x/image/colornames"
	xhtml "golang.org/x/net/html"
	"golang.org/x/net/html/atom"

	"verifharness/hx"
	"verifharness/mk"
)

func TestMain(m *testing.M) { hx.Main(m) }

const rule = "exhaustive: every entry of html.EntitiesMap / TextRevEntitiesMap, xml.EntitiesMap / TextRevEntitiesMap, css.ShortenColorHex / ShortenColorName is a case (checked directly against independent references: Go's std html entity table, golang.org/x/image/colornames, and through the public html.Minify with x/net/html as parser), plus behavioural probes for the unexported trait tables: every element name of x/net/html/atom x {whitespace probe, raw-text probe}, every attribute name x {boolean probe, URL probe}, every SVG presentation attribute x colour probe, every CSS unit x zero probe, judged against lists transcribed from the HTML / CSS standards; each (table, entry) is one case, distinct by construction; non-trivial = the entry actually changes minifier output in its probe (for the direct table checks: every entry)"

type Case struct {
	Table string `json:"table"`
	Entry string `json:"entry"`
	Probe string `json:"probe,omitempty"`
}

type failure struct {
	c   Case
	msg string
}

var fails []failure

func bad(c Case, format string, args ...interface{}) {
	fails = append(fails, failure{c, fmt.Sprintf(format, args...)})
}

func htmlMin(in string) string {
	out, err := mk.Run(&mhtml.Minifier{}, minify.New(), []byte(in), nil)
	if err != nil {
		return "ERROR: " + err.Error()
	}
	return string(out)
}

func parseFrag(s string) *xhtml.Node {
	ctx := &xhtml.Node{Type: xhtml.ElementNode, Data: "div", DataAtom: atom.Div}
	nodes, err := xhtml.ParseFragment(strings.NewReader(s), ctx)
	if err != nil || len(nodes) == 0 {
		return nil
	}
	return nodes[0]
}

func textOf(n *xhtml.Node) string {
	var sb strings.Builder
	var walk func(*xhtml.Node)
	walk = func(n *xhtml.Node) {
		if n.Type == xhtml.TextNode {
			sb.WriteString(n.Data)
		}
		for c := n.FirstChild; c != nil; c = c.NextSibling {
			walk(c)
		}
	}
	walk(n)
	return sb.String()
}

func sortedKeys(m map[string][]byte) []string {
	ks := make([]string, 0, len(m))
	for k := range m {
		ks = append(ks, k)
	}
	sort.Strings(ks)
	return ks
}

// ---------------------------------------------------------------------------

func entities() {
	for _, name := range sortedKeys(mhtml.EntitiesMap) {
		repl := string(mhtml.EntitiesMap[name])
		c := Case{Table: "html.EntitiesMap", Entry: name}
		ref := "&" + name + ";"
		want := stdhtml.UnescapeString(ref)
		hx.C.CaseEnum(true)
		if want == ref {
			bad(c, "%q is not a named character reference known to Go's html package", ref)
			continue
		}
		if got := stdhtml.UnescapeString(repl); got != want {
			bad(c, "replacement %q decodes to %q, the reference %q decodes to %q", repl, got, ref, want)
			continue
		}
		if len(repl) > len(ref) {
			bad(c, "replacement %q is longer than %q", repl, ref)
		}
		// through the public minifier, in text and in an attribute value
		in := "<p>a" + ref + "b</p><a title=\"x" + ref + "y\">z</a>"
		out := htmlMin(in)
		c.Probe = in
		nin, nout := parseFrag("<div>"+in+"</div>"), parseFrag("<div>"+out+"</div>")
		if nin == nil || nout == nil {
			bad(c, "cannot parse probe or output %q", out)
			continue
		}
		if textOf(nin) != textOf(nout) {
			bad(c, "text changed through html.Minify: %q -> %q (%q -> %q)", textOf(nin), textOf(nout), in, out)
		}
		ti, to := attrOf(nin, "title"), attrOf(nout, "title")
		if ti != to {
			bad(c, "attribute value changed through html.Minify: %q -> %q (%q -> %q)", ti, to, in, out)
		}
	}
	for ch, repl := range mhtml.TextRevEntitiesMap {
		c := Case{Table: "html.TextRevEntitiesMap", Entry: string(ch)}
		hx.C.CaseEnum(true)
		if got := stdhtml.UnescapeString(string(repl)); got != string(ch) {
			bad(c, "%q decodes to %q, not %q", repl, got, string(ch))
		}
	}
	xmlPredefined := map[string]string{"lt": "<", "gt": ">", "amp": "&", "apos": "'", "quot": "\""}
	for _, name := range sortedKeys(mxml.EntitiesMap) {
		c := Case{Table: "xml.EntitiesMap", Entry: name}
		hx.C.CaseEnum(true)
		if xmlPredefined[name] != string(mxml.EntitiesMap[name]) {
			bad(c, "XML predefined entity %q is %q, table says %q", name, xmlPredefined[name], mxml.EntitiesMap[name])
		}
	}
	for ch, repl := range mxml.TextRevEntitiesMap {
		c := Case{Table: "xml.TextRevEntitiesMap", Entry: string(ch)}
		hx.C.CaseEnum(true)
		name := strings.TrimSuffix(strings.TrimPrefix(string(repl), "&"), ";")
		if xmlPredefined[name] != string(ch) {
			bad(c, "%q does not decode to %q", repl, string(ch))
		}
	}
}

func attrOf(n *xhtml.Node, key string) string {
	var found string
	var walk func(*xhtml.Node)
	walk = func(n *xhtml.Node) {
		for _, a := range n.Attr {
			if a.Key == key {
				found = a.Val
			}
		}
		for c := n.FirstChild; c != nil; c = c.NextSibling {
			walk(c)
		}
	}
	walk(n)
	return found
}

func hexOf(c color.RGBA) string { return fmt.Sprintf("%02x%02x%02x", c.R, c.G, c.B) }

func normHex(h string) string {
	h = strings.ToLower(strings.TrimPrefix(h, "#"))
	if len(h) == 3 {
		return string([]byte{h[0], h[0], h[1], h[1], h[2], h[2]})
	}
	return h
}

func colours() {
	ref := map[string]string{}
	for name, c := range colornames.Map {
		ref[name] = hexOf(c)
	}
	ref["rebeccapurple"] = "663399" // CSS Color 4, newer than the SVG 1.1 list
	hexKeys := make([]string, 0)
	for k := range mcss.ShortenColorHex {
		hexKeys = append(hexKeys, k)
	}
	sort.Strings(hexKeys)
	for _, hex := range hexKeys {
		name := string(mcss.ShortenColorHex[hex])
		c := Case{Table: "css.ShortenColorHex", Entry: hex}
		hx.C.CaseEnum(true)
		want, ok := ref[strings.ToLower(name)]
		if !ok {
			bad(c, "%q is not a CSS colour keyword", name)
		} else if want != normHex(hex) {
			bad(c, "%s -> %s, but %s is #%s", hex, name, name, want)
		}
		if len(name) > len(hex) {
			bad(c, "name %q is longer than %q", name, hex)
		}
		// through the public minifier
		in := "a{color:" + hex + "}"
		out, _ := mk.Run(&mcss.Minifier{}, nil, []byte(in), nil)
		if got := cssColorOf(string(out)); ref[got] != normHex(hex) && normHex(got) != normHex(hex) {
			bad(c, "css.Minify(%q) = %q: colour changed", in, out)
		}
	}
	type nh struct{ name, hex string }
	var list []nh
	for h, hex := range mcss.ShortenColorName {
		list = append(list, nh{h.String(), string(hex)})
	}
	sort.Slice(list, func(i, j int) bool { return list[i].name < list[j].name })
	for _, e := range list {
		c := Case{Table: "css.ShortenColorName", Entry: e.name}
		hx.C.CaseEnum(true)
		want, ok := ref[strings.ToLower(e.name)]
		if !ok {
			bad(c, "%q is not a CSS colour keyword", e.name)
		} else if want != normHex(e.hex) {
			bad(c, "%s -> %s, but %s is #%s", e.name, e.hex, e.name, want)
		}
		if len(e.hex) > len(e.name) {
			bad(c, "hex %q is longer than name %q", e.hex, e.name)
		}
		in := "a{color:" + e.name + "}"
		out, _ := mk.Run(&mcss.Minifier{}, nil, []byte(in), nil)
		got := cssColorOf(string(out))
		if ref[got] != want && normHex(got) != want {
			bad(c, "css.Minify(%q) = %q: colour changed", in, out)
		}
	}
}

var reColorVal = regexp.MustCompile(`color:([^;}]+)`)

func cssColorOf(s string) string {
	m := reColorVal.FindStringSubmatch(s)
	if m == nil {
		return ""
	}
	return strings.ToLower(strings.TrimSpace(m[1]))
}

// --- behavioural probes of the unexported trait tables ---------------------------

// elements next to which a space may be dropped: display block / list-item / table parts / line break / not rendered
var spaceInsignificant = setOf(`address article aside blockquote body center details dialog dd dir div dl dt fieldset figcaption figure footer form frame frameset
 h1 h2 h3 h4 h5 h6 head header hgroup hr html legend li listing main menu nav ol optgroup option p plaintext pre search section summary ul xmp
 table caption colgroup col thead tbody tfoot tr td th
 br
 area base basefont bgsound datalist link meta noembed noframes noscript param rp script source style template title track`)

// elements whose content the HTML minifier may leave untouched (raw text, escapable raw text, preformatted, foreign content handed to other minifiers)
var rawish = setOf(`script style textarea title iframe xmp noembed noframes noscript plaintext pre listing svg math`)

var booleanAttrs = setOf(`allowfullscreen async autofocus autoplay checked controls default defer disabled formnovalidate inert ismap itemscope loop multiple muted nomodule novalidate open playsinline readonly required reversed selected
 shadowrootclonable shadowrootdelegatesfocus shadowrootserializable compact declare nohref noresize noshade nowrap scoped seamless sortable truespeed typemustmatch allowpaymentrequest`)

var urlAttrs = setOf(`action archive background cite classid codebase data formaction href icon itemid itemtype longdesc manifest ping poster profile src usemap xmlns`)

var colourAttrs = setOf(`fill stroke stop-color flood-color lighting-color color solid-color`)

var lengthOrAngleUnits = setOf(`px mm q cm in pt pc ch em ex rem vh vw vmin vmax vi vb lh rlh cap ic rex rch rlh svh svw lvh lvw dvh dvw svmin svmax lvmin lvmax dvmin dvmax svi svb lvi lvb dvi dvb cqw cqh cqi cqb cqmin cqmax deg grad rad turn`)

func setOf(s string) map[string]bool {
	m := map[string]bool{}
	for _, f := range strings.Fields(s) {
		m[f] = true
	}
	return m
}

var voidElements = setOf(`area base br col embed hr img input link meta param source track wbr basefont bgsound frame keygen`)

func elementNames() []string {
	seen := map[string]bool{}
	var out []string
	for i := 0; i < 1<<20; i++ {
		_ = i
		break
	}
	// all atoms that are element names according to x/net/html's parser tables are not exported; use a
	// transcription of the HTML element index (living standard + obsolete elements)
	for _, n := range strings.Fields(`a abbr acronym address applet area article aside audio b base basefont bdi bdo bgsound big blink blockquote body br button canvas caption center cite code col colgroup command content data datalist dd del details dfn dialog dir div dl dt element em embed fieldset figcaption figure font footer form frame frameset h1 h2 h3 h4 h5 h6 head header hgroup hr html i iframe image img input ins isindex kbd label legend li link listing main map mark marquee math menu menuitem meta meter multicol nav nextid nobr noembed noframes noscript object ol optgroup option output p param picture plaintext portal pre progress q rb rp rt rtc ruby s samp script search section select shadow slot small source spacer span strike strong style sub summary sup svg table tbody td template textarea tfoot th thead time title tr track tt u ul var video wbr xmp`) {
		if !seen[n] {
			seen[n] = true
			out = append(out, n)
		}
	}
	sort.Strings(out)
	return out
}

func attrNames() []string {
	seen := map[string]bool{}
	var out []string
	add := func(n string) {
		if !seen[n] {
			seen[n] = true
			out = append(out, n)
		}
	}
	for _, n := range strings.Fields(`abbr accept accept-charset accesskey action align alink allow allowfullscreen alt archive as async autocapitalize autocomplete autofocus autoplay axis background bgcolor blocking border capture cellpadding cellspacing challenge char charoff charset checked cite class classid clear code codebase codetype color cols colspan compact content contenteditable controls coords crossorigin data datetime declare decoding default defer dir dirname disabled download draggable enctype enterkeyhint face fetchpriority for form formaction formenctype formmethod formnovalidate formtarget frame frameborder headers height hidden high href hreflang hspace http-equiv icon id imagesizes imagesrcset inert inputmode integrity is ismap itemid itemprop itemref itemscope itemtype keytype kind label lang language link list loading longdesc loop low manifest marginheight marginwidth max maxlength media method min minlength multiple muted name nohref nomodule nonce noresize noshade novalidate nowrap object open optimum pattern ping placeholder playsinline popover popovertarget popovertargetaction poster preload profile prompt readonly referrerpolicy rel required rev reversed rows rowspan rules sandbox scheme scope scoped scrolling seamless selected shadowrootclonable shadowrootdelegatesfocus shadowrootmode shape size sizes slot sortable span spellcheck src srcdoc srclang srcset standby start step style summary tabindex target text title translate truespeed type typemustmatch usemap valign value valuetype version vlink vspace width wrap xmlns`) {
		add(n)
	}
	sort.Strings(out)
	return out
}

func probes() {
	for _, el := range elementNames() {
		// whitespace probe
		var in string
		if voidElements[el] {
			in = "<div>a <" + el + "> c</div>"
		} else {
			in = "<div>a <" + el + ">b</" + el + "> c</div>"
		}
		out := htmlMin(in)
		c := Case{Table: "html element traits (whitespace)", Entry: el, Probe: in}
		lostBefore := strings.Contains(out, "a<"+el)
		lostAfter := strings.Contains(out, "</"+el+">c") || voidElements[el] && strings.Contains(out, "<"+el+">c")
		hx.C.CaseEnum(lostBefore || lostAfter)
		if (lostBefore || lostAfter) && !spaceInsignificant[el] {
			if id := "C17-marquee-block"; el == "marquee" && hx.IsKnown(id) && hx.E.Replay == "" {
				hx.C.Known(id)
			} else {
				bad(c, "whitespace next to <%s> was dropped (%q -> %q) but %s is not block-level, a table part, a line break or unrendered", el, in, out, el)
			}
		}
		// raw-text probe
		if !voidElements[el] {
			in = "<div><" + el + ">x  <i>  y</i>  z</" + el + "></div>"
			out = htmlMin(in)
			c = Case{Table: "html element traits (raw text)", Entry: el, Probe: in}
			raw := strings.Contains(out, "x  <i>  y</i>  z")
			hx.C.CaseEnum(raw)
			if raw && !rawish[el] {
				bad(c, "content of <%s> is left untouched like raw text (%q -> %q) but it is not a raw-text / escapable raw-text / preformatted / foreign element", el, in, out)
			}
		}
	}
	for _, at := range attrNames() {
		in := "<div " + at + "=\"qq\">x</div>"
		out := htmlMin(in)
		c := Case{Table: "html attribute traits (boolean)", Entry: at, Probe: in}
		isBool := strings.Contains(out, "<div "+at+">")
		hx.C.CaseEnum(isBool)
		if isBool && !booleanAttrs[at] {
			bad(c, "the value of %s was dropped like a boolean attribute (%q -> %q) but the HTML standard does not define it as boolean", at, in, out)
		}
		in = "<div " + at + "=\"data:text/plain;charset=us-ascii;base64,YWJj\">x</div>"
		out = htmlMin(in)
		c = Case{Table: "html attribute traits (URL)", Entry: at, Probe: in}
		isURL := strings.Contains(out, "data:,abc")
		hx.C.CaseEnum(isURL)
		if isURL && !urlAttrs[at] {
			bad(c, "the value of %s was minified as a URL (%q -> %q) but the HTML standard does not define it as URL-valued", at, in, out)
		}
	}
	for _, at := range strings.Fields(`fill stroke stop-color flood-color lighting-color color solid-color id class d x y width height transform opacity fill-opacity stroke-width font-family font-size points viewBox offset href style clip-path mask filter cx cy r rx ry x1 y1 x2 y2 marker-start text-anchor display visibility`) {
		in := "<svg><rect " + at + "=\"#ff0000\"/></svg>"
		out, _ := mk.Run(&msvg.Minifier{}, minify.New(), []byte(in), nil)
		c := Case{Table: "svg colour attributes", Entry: at, Probe: in}
		rewritten := bytes.Contains(out, []byte(at+"=\"red\""))
		hx.C.CaseEnum(rewritten)
		if rewritten && !colourAttrs[at] {
			bad(c, "the value of %s was rewritten as a colour (%q -> %q) but it is not a colour-valued SVG attribute", at, in, out)
		}
	}
	for _, unit := range strings.Fields(`px mm q cm in pt pc ch em ex rem vh vw vmin vmax vi vb lh rlh cap ic svh lvh dvh cqw deg grad rad turn s ms hz khz dpi dpcm dppx x fr %`) {
		in := "a{width:0" + unit + ";margin-top:0" + unit + "}"
		out, _ := mk.Run(&mcss.Minifier{}, nil, []byte(in), nil)
		c := Case{Table: "css zero units", Entry: unit, Probe: in}
		dropped := bytes.Contains(out, []byte("width:0;")) || bytes.Contains(out, []byte("margin-top:0}"))
		hx.C.CaseEnum(dropped)
		if dropped && !lengthOrAngleUnits[unit] {
			bad(c, "the unit of 0%s was dropped (%q -> %q) but %s is not a length or angle unit", unit, in, out, unit)
		}
	}
}

func TestCampaignTables(t *testing.T) {
	hx.C.SetRule(rule)
	hx.C.Assume("references: Go std html entity table, golang.org/x/image/colornames (+rebeccapurple), x/net/html as HTML parser, element/attribute/unit lists transcribed from the HTML and CSS standards in props/c17")
	entities()
	colours()
	probes()
	hx.C.SetExhaustive(true)
	hx.C.Sample(1, map[string]string{"table": "html.EntitiesMap", "entry": "ApplyFunction", "replacement": string(mhtml.EntitiesMap["ApplyFunction"])})
	hx.C.Sample(2, map[string]string{"table": "css.ShortenColorHex", "entry": "#ffa500", "name": string(mcss.ShortenColorHex["#ffa500"])})
	hx.C.Sample(3, map[string]string{"table": "html element traits (whitespace)", "entry": "li", "probe": "<div>a <li>b</li> c</div>", "out": htmlMin("<div>a <li>b</li> c</div>")})
	for i, f := range fails {
		if i < 40 {
			t.Logf("%s [%s]: %s", f.c.Table, f.c.Entry, f.msg)
		}
	}
	if len(fails) > 0 {
		f := fails[0]
		hx.Fail(t, "tables", f.c, "%s [%s]: %s (%d table entries fail in total)", f.c.Table, f.c.Entry, f.msg, len(fails))
	}
}

func TestReplay(t *testing.T) {
	hx.ReplayTest(t, func(f hx.Failure) error {
		var c Case
		if err := json.Unmarshal(f.Case, &c); err != nil {
			return err
		}
		fails = nil
		entities()
		colours()
		probes()
		for _, fl := range fails {
			if fl.c.Table == c.Table && fl.c.Entry == c.Entry {
				return fmt.Errorf("%s", fl.msg)
			}
		}
		return nil
	})
}
