package c06

import (
	"encoding/json"
	"fmt"
	"os"
	"regexp"
	"strings"
	"testing"

	mxml "github.com/tdewolff/minify/v2/xml"
	"pgregory.net/rapid"

	"verifharness/gen/seeds"
	"verifharness/gen/xmlgen"
	"verifharness/hx"
	"verifharness/mk"
	"verifharness/oracle/xmlinfo"
)

func TestMain(m *testing.M) { hx.Main(m) }

type Case struct {
	Src            string            `json:"src"`
	Entities       map[string]string `json:"entities,omitempty"`
	KeepWhitespace bool              `json:"keep_whitespace"`
}

const rule = "cases = (well-formed XML 1.0 document drawn from a grammar: prolog, doctype with/without internal subset and entity declarations, PIs and comments anywhere, namespaced elements, attributes in both quote kinds over \" ' > & TAB LF CR literally or as named/decimal/hex references, mixed content with whitespace runs, CDATA with markup characters, ]] fragments and leading/trailing/only whitespace, empty elements in all three spellings; KeepWhitespace on/off); oracle = output accepted by encoding/xml (strict) + own scanner on both sides: same element/PI/doctype sequence, same attributes with equal XML 1.0 section 3.3.3 normalised values, per text run equal character data up to whitespace collapsing/trimming, CDATA contents kept exactly, comments the only removed nodes, KeepWhitespace keeps a boundary space; distinct by hash; non-trivial = a CDATA section was converted, an attribute was re-quoted or a reference rewritten, whitespace next to a tag was removed, or an empty element was collapsed"

type info struct {
	out     string
	skipped string
	nt      bool
	cls     []string
}

func check(c Case) (inf info, err error) {
	if e := xmlinfo.Document([]byte(c.Src), c.Entities); e != nil {
		// encoding/xml alone is more lenient than XML 1.0 (text outside the root, <! + anything as a directive, ...)
		inf.skipped = "input-not-well-formed"
		return inf, nil
	}
	out, merr := mk.Run(&mxml.Minifier{KeepWhitespace: c.KeepWhitespace}, nil, []byte(c.Src), nil)
	if mk.IsPanic(merr) {
		return inf, merr
	}
	inf.out = string(out)
	if merr != nil {
		return inf, fmt.Errorf("well-formed XML rejected: %v", merr)
	}
	if e := xmlinfo.WellFormed(out, c.Entities); e != nil {
		return inf, fmt.Errorf("output is not well-formed: %v\n--- input:\n%s\n--- output:\n%s", e, c.Src, out)
	}
	evIn, e1 := xmlinfo.Scan(c.Src, c.Entities)
	evOut, e2 := xmlinfo.Scan(inf.out, c.Entities)
	if e1 != nil {
		inf.skipped = "scanner-rejects-input"
		return inf, nil
	}
	if e2 != nil {
		return inf, fmt.Errorf("output cannot be scanned: %v\n--- input:\n%s\n--- output:\n%s", e2, c.Src, out)
	}
	strip := func(evs []xmlinfo.Event) ([]xmlinfo.Event, int) {
		var o []xmlinfo.Event
		comments := 0
		depth := 0
		for _, e := range evs {
			if e.Kind == "comment" {
				comments++
				continue
			}
			if e.Kind == "start" {
				depth++
			} else if e.Kind == "end" {
				depth--
			}
			if e.Kind == "text" && strings.TrimSpace(xmlinfo.Collapse(e.Data)) == "" {
				if c.KeepWhitespace && depth > 0 && e.Data != "" {
					e.Data = " " // with KeepWhitespace a whitespace-only run inside the root must survive (as whitespace)
					e.CDATA = nil
					o = append(o, e)
				}
				continue // otherwise whitespace-only runs may be dropped
			}
			o = append(o, e)
		}
		return o, comments
	}
	a, _ := strip(evIn)
	b, commentsOut := strip(evOut)
	if commentsOut > 0 {
		// comments may be kept? the XML minifier always drops them; kept comments are fine for the infoset
	}
	fail := func(format string, args ...interface{}) error {
		return fmt.Errorf("%s\n--- input:\n%s\n--- output:\n%s", fmt.Sprintf(format, args...), c.Src, inf.out)
	}
	if len(a) != len(b) {
		return inf, fail("node sequence differs: %d vs %d nodes (%s vs %s)", len(a), len(b), kinds(a), kinds(b))
	}
	for i := range a {
		x, y := a[i], b[i]
		if x.Kind != y.Kind || x.Name != y.Name {
			return inf, fail("node %d differs: %s %q vs %s %q", i, x.Kind, x.Name, y.Kind, y.Name)
		}
		switch x.Kind {
		case "pi":
			if x.Name == "xml" && strings.Join(strings.Fields(strings.ReplaceAll(x.Data, "=", " = ")), "") == strings.Join(strings.Fields(strings.ReplaceAll(y.Data, "=", " = ")), "") {
				continue // XML declaration: pseudo-attributes, whitespace around = is free
			}
			if strings.TrimSpace(xmlinfo.Collapse(x.Data)) != strings.TrimSpace(xmlinfo.Collapse(y.Data)) {
				return inf, fail("processing instruction %q data changed: %q -> %q", x.Name, x.Data, y.Data)
			}
		case "doctype":
			if x.Data != y.Data {
				return inf, fail("DOCTYPE changed: %q -> %q", x.Data, y.Data)
			}
		case "start":
			if len(x.Attrs) != len(y.Attrs) {
				return inf, fail("<%s>: attribute count %d -> %d", x.Name, len(x.Attrs), len(y.Attrs))
			}
			for k := range x.Attrs {
				if x.Attrs[k].Name != y.Attrs[k].Name {
					return inf, fail("<%s>: attribute %q became %q", x.Name, x.Attrs[k].Name, y.Attrs[k].Name)
				}
				if x.Attrs[k].Value != y.Attrs[k].Value {
					return inf, fail("<%s %s>: normalised attribute value changed: %q -> %q", x.Name, x.Attrs[k].Name, x.Attrs[k].Value, y.Attrs[k].Value)
				}
			}
		case "text":
			ti, to := strings.TrimSpace(xmlinfo.Collapse(x.Data)), strings.TrimSpace(xmlinfo.Collapse(y.Data))
			if ti != to {
				return inf, fail("character data of a text run changed (beyond whitespace collapsing/trimming): %q -> %q", x.Data, y.Data)
			}
			for _, cd := range x.CDATA {
				if strings.TrimSpace(xmlinfo.Collapse(cd)) == "" {
					continue
				}
				if !strings.Contains(y.Data, strings.TrimRight(strings.TrimLeft(cd, " \t\n"), " \t\n")) {
					return inf, fail("CDATA content %q is not kept exactly in the output run %q", cd, y.Data)
				}
			}
			if c.KeepWhitespace {
				isWS := func(ch byte) bool { return ch == ' ' || ch == '\t' || ch == '\n' || ch == '\r' }
				if isWS(x.Data[0]) && !isWS(y.Data[0]) {
					return inf, fail("KeepWhitespace: leading whitespace of run %q was removed entirely: %q", x.Data, y.Data)
				}
				if isWS(x.Data[len(x.Data)-1]) && !isWS(y.Data[len(y.Data)-1]) {
					return inf, fail("KeepWhitespace: trailing whitespace of run %q was removed entirely: %q", x.Data, y.Data)
				}
			}
		}
	}
	// non-triviality classes
	if strings.Count(c.Src, "<![CDATA[") > strings.Count(inf.out, "<![CDATA[") {
		inf.cls = append(inf.cls, "cdata-converted")
	}
	if strings.Count(inf.out, "/>") > strings.Count(c.Src, "/>") {
		inf.cls = append(inf.cls, "empty-element-collapsed")
	}
	if attrSpelling(c.Src) != attrSpelling(inf.out) {
		inf.cls = append(inf.cls, "attribute-respelled")
	}
	if len(inf.out) < len(c.Src) && strings.Count(inf.out, " ")+strings.Count(inf.out, "\n") < strings.Count(c.Src, " ")+strings.Count(c.Src, "\n") {
		inf.cls = append(inf.cls, "whitespace-removed")
	}
	inf.nt = len(inf.cls) > 0
	return inf, nil
}

func attrSpelling(s string) string {
	var sb strings.Builder
	inTag := false
	for i := 0; i < len(s); i++ {
		if s[i] == '<' && i+1 < len(s) && s[i+1] != '!' && s[i+1] != '?' && s[i+1] != '/' {
			inTag = true
		} else if s[i] == '>' {
			inTag = false
		}
		if inTag && (s[i] == '"' || s[i] == '\'' || s[i] == '&') {
			j := i
			for j < len(s) && j < i+8 && s[j] != ';' && s[j] != ' ' {
				j++
			}
			sb.WriteString(s[i:j])
		}
	}
	return sb.String()
}

func kinds(evs []xmlinfo.Event) string {
	var parts []string
	for _, e := range evs {
		parts = append(parts, e.Kind+":"+e.Name)
	}
	s := strings.Join(parts, " ")
	if len(s) > 300 {
		s = s[:300] + "..."
	}
	return s
}

func record(c Case, inf info, feats map[string]int) {
	if inf.skipped != "" {
		hx.C.Skip(inf.skipped)
	}
	cls := []string{fmt.Sprintf("keepwhitespace:%v", c.KeepWhitespace)}
	cls = append(cls, inf.cls...)
	for f := range feats {
		cls = append(cls, "has:"+f)
	}
	b, _ := json.Marshal(c)
	hx.C.Case(hx.Hash(string(b)), inf.nt && inf.skipped == "", cls...)
	if inf.nt && len(c.Src) < 600 {
		hx.C.Sample(len(c.Src), map[string]interface{}{"src": c.Src, "keep_whitespace": c.KeepWhitespace, "out": inf.out})
	}
}

func TestCampaignGenerated(t *testing.T) {
	hx.C.SetRule(rule)
	hx.C.Assume("encoding/xml (strict) decides well-formedness", "attribute values are treated as CDATA-typed for section 3.3.3 normalisation (no ATTLIST declarations are generated)", "whitespace-only text runs may disappear (trimming next to tags) unless KeepWhitespace is set", "processing instruction data is compared up to whitespace collapsing: the lexer of the dependency splits it into words")
	xmlgen.NoBracketsBeforeGT = hx.IsKnown("C06-gt-after-brackets")
	hx.Setup("generated", 300000, 8000000)
	rapid.Check(t, func(t *rapid.T) {
		d := xmlgen.Gen(t)
		c := Case{Src: strings.ReplaceAll(d.Src, "]]>]]>", "]]>"), Entities: d.Entities, KeepWhitespace: rapid.Bool().Draw(t, "keepws")}
		inf, err := check(c)
		record(c, inf, d.Feats)
		hx.KnownOrFail(t, "generated", c, err, func() string { return matchKnown(c, err) })
	})
}

// corpus: repository XML corpus and benchmark files (those encoding/xml accepts)
func TestCampaignCorpus(t *testing.T) {
	if hx.E.Shard != 0 {
		return
	}
	for _, f := range seeds.Files("xml", 0) {
		for _, keep := range []bool{false, true} {
			c := Case{Src: string(f.Data), KeepWhitespace: keep}
			inf, err := check(c)
			if inf.skipped != "" {
				hx.C.Skip("corpus:" + inf.skipped)
				continue
			}
			hx.C.Case(hx.Hash(f.Path, fmt.Sprint(keep)), inf.nt, "corpus")
			if err != nil {
				if id := matchKnown(c, err); id != "" && hx.IsKnown(id) {
					hx.C.Known(id)
					continue
				}
				hx.Fail(t, "corpus", map[string]interface{}{"file": f.Path, "keep_whitespace": keep}, "%s: %v", f.Path, clipErr(err))
			}
		}
	}
}

func clipErr(err error) string {
	s := err.Error()
	if len(s) > 1500 {
		s = s[:1500] + "..."
	}
	return s
}

var reAttrCR = regexp.MustCompile(`=\s*("[^"<]*\r[^"<]*"|'[^'<]*\r[^'<]*')`)

// matchKnown: C06-attr-literal-crlf needs a literal carriage return inside an attribute value.
var rePIWithGT = regexp.MustCompile(`<\?(?:[^?>]|\?+[^?>])*>`)

func matchKnown(c Case, err error) string {
	// a > inside the data of a processing instruction ends it for the lexer of the dependency
	if err != nil && rePIWithGT.MatchString(c.Src) && (strings.Contains(err.Error(), "pi ") || strings.Contains(err.Error(), "not well-formed") || strings.Contains(err.Error(), "node ")) {
		return "C06-pi-with-gt"
	}
	if err != nil && strings.Contains(c.Src, "]]") && strings.Contains(err.Error(), "unescaped ]]> not in CDATA") {
		return "C06-gt-after-brackets"
	}
	if err != nil && reAttrCR.MatchString(c.Src) && strings.Contains(err.Error(), "normalised attribute value changed") {
		return "C06-attr-literal-crlf"
	}
	return ""
}

func TestReplay(t *testing.T) {
	hx.ReplayTest(t, func(f hx.Failure) error {
		var c Case
		if err := json.Unmarshal(f.Case, &c); err != nil {
			return err
		}
		if c.Src == "" {
			var fc struct {
				File string `json:"file"`
				Keep bool   `json:"keep_whitespace"`
			}
			json.Unmarshal(f.Case, &fc)
			b, err := os.ReadFile(fc.File)
			if err != nil {
				return nil
			}
			c = Case{Src: string(b), KeepWhitespace: fc.Keep}
		}
		_, err := check(c)
		return err
	})
}

func FuzzXML(f *testing.F) {
	for _, s := range seeds.Snippets("xml") {
		f.Add(s, false)
		f.Add(s, true)
	}
	f.Fuzz(func(t *testing.T, s string, keep bool) {
		c := Case{Src: s, KeepWhitespace: keep}
		if _, err := check(c); err != nil {
			if id := matchKnown(c, err); id != "" && hx.IsKnown(id) {
				return
			}
			t.Fatal(err)
		}
	})
}
