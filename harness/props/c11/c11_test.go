package c11

import (
	"bytes"
	"encoding/json"
	"encoding/xml"
	"errors"
	"fmt"
	stdhtml "html"
	"io"
	"mime"
	"regexp"
	"sort"
	"strings"
	"testing"
	"verifharness/oracle/rfc2397"

	"github.com/tdewolff/minify/v2"
	mcss "github.com/tdewolff/minify/v2/css"
	mhtml "github.com/tdewolff/minify/v2/html"
	mjs "github.com/tdewolff/minify/v2/js"
	mjson "github.com/tdewolff/minify/v2/json"
	msvg "github.com/tdewolff/minify/v2/svg"
	mxml "github.com/tdewolff/minify/v2/xml"
	"github.com/tdewolff/parse/v2"
	"golang.org/x/net/html"
	"pgregory.net/rapid"

	"verifharness/gen/cssgen"
	"verifharness/gen/jsgen"
	"verifharness/hx"
	"verifharness/mk"
)

func TestMain(m *testing.M) { hx.Main(m) }

// Case is one embedded site in one host document under one registry configuration.
type Case struct {
	Host      string `json:"host"`                // html-script html-style html-iframe html-svg html-math html-style-attr html-on-attr html-data-uri svg-style-text svg-style-cdata svg-style-attr css-data-uri
	TypeAttr  string `json:"type_attr,omitempty"` // type attribute (script/style), contentStyleType (svg hosts)
	Payload   string `json:"payload"`             // the embedded content as the embedded minifier should see it (before documented trimming)
	Quote     string `json:"quote,omitempty"`     // attribute hosts: " ' or empty (the generator's choice of delimiter)
	Encode    int    `json:"encode,omitempty"`    // attribute hosts: spelling of character references
	Reg       string `json:"reg"`                 // absent stub stub-pattern fail-plain fail-parse real
	StubOut   string `json:"stub_out,omitempty"`
	FailOff   int    `json:"fail_off,omitempty"` // offset of the reported error inside the payload (fail-parse)
	Pre       string `json:"pre,omitempty"`
	Post      string `json:"post,omitempty"`
	Others    bool   `json:"others"`                // the other real minifiers are registered too
	KeepQ     bool   `json:"keep_quotes,omitempty"` // html KeepQuotes
	ExtraAttr string `json:"extra_attr,omitempty"`  // further attributes on the script/style element of raw hosts
	Attr      string `json:"attr,omitempty"`        // attribute name for attribute hosts
	Tag       string `json:"tag,omitempty"`         // element name for attribute hosts
}

const rule = "cases = (host construct, type attribute, payload, attribute spelling, registry configuration: embedded minifier absent / recording stub (literal or pattern registered) with a drawn output / failing stub (plain error, *parse.Error at a drawn offset) / the real minifier, other minifiers present or not, surrounding markup); decoy stubs are registered for the media types a wrong default would pick; for registries of real minifier objects the same host is also run on a registry that has served other documents before (inline <svg>, style and on* attributes, data URIs, calls with inline=1) and must give the same bytes; oracle = commutation law checked through an independent parse of the host output (x/net/html tokenizer, encoding/xml, data URI decoding via the reference call): the stub saw exactly the decoded payload (documented trimming), was chosen by the media type from the type attribute or the documented default, got inline=1 in attribute contexts and for inline SVG, and its output stands at that place correctly re-escaped; absent => content unchanged; failing => the outer call fails with the stub's error, a *parse.Error pointing into the embedded region of the outer document; distinct by hash; non-trivial = payload non-empty and (a stub or real minifier ran or was bypassed) and the host output differs from the input or an error came back"

type call struct {
	Name   string
	Params map[string]string
	In     string
}

type setup struct {
	m        *minify.M
	calls    *[]call
	stubErr  error
	expectMT string
	expectP  map[string]string
}

var decoyTypes = []string{"text/css", "application/javascript", "text/javascript", "text/html", "image/svg+xml", "application/mathml+xml", "application/json", "application/ld+json", "module", "text/template", "text/x-unknown", "text/plain", "text/xml"}

var errStub = errors.New("stub minifier failed")

// expected media type and params per host
func expected(c Case) (string, map[string]string) {
	inline := map[string]string{"inline": "1"}
	switch c.Host {
	case "html-script", "html-style":
		if strings.TrimSpace(c.TypeAttr) == "" {
			if c.Host == "html-script" {
				return "application/javascript", nil
			}
			return "text/css", nil
		}
		mt, params, err := mime.ParseMediaType(c.TypeAttr)
		if err != nil {
			mt = strings.ToLower(strings.TrimSpace(c.TypeAttr))
			params = nil
		}
		if len(params) == 0 {
			params = nil
		}
		return mt, params
	case "html-iframe":
		return "text/html", nil
	case "html-svg":
		return "image/svg+xml", inline
	case "html-math":
		return "application/mathml+xml", nil
	case "html-style-attr":
		return "text/css", inline
	case "html-on-attr":
		return "application/javascript", inline
	case "svg-style-text", "svg-style-cdata":
		if c.TypeAttr != "" {
			return c.TypeAttr, nil
		}
		return "text/css", nil
	case "svg-style-attr":
		if c.TypeAttr != "" {
			return c.TypeAttr, inline
		}
		return "text/css", inline
	case "html-data-uri", "css-data-uri":
		mt := strings.TrimPrefix(trimWS(c.Payload), "data:")
		if i := strings.IndexAny(mt, ";,"); i >= 0 {
			mt = mt[:i]
		}
		if mt == "" {
			mt = "text/plain"
		}
		return strings.ToLower(mt), nil
	}
	return "", nil
}

func build(c Case) *setup {
	s := &setup{m: minify.New(), calls: &[]call{}}
	s.expectMT, s.expectP = expected(c)
	want := expectedInput(c)
	mkStub := func(name string, target bool) minify.MinifierFunc {
		return func(_ *minify.M, w io.Writer, r io.Reader, params map[string]string) error {
			b, _ := io.ReadAll(r)
			cp := map[string]string{}
			for k, v := range params {
				cp[k] = v
			}
			*s.calls = append(*s.calls, call{Name: name, Params: cp, In: string(b)})
			if !target {
				w.Write(b) // decoys are identity
				return nil
			}
			if string(b) != want {
				// other embedded content of the same type (surrounding markup): identity
				(*s.calls)[len(*s.calls)-1].Name = "target-other"
				w.Write(b)
				return nil
			}
			switch c.Reg {
			case "fail-plain":
				return errStub
			case "fail-parse":
				off := c.FailOff
				if off > len(b) {
					off = len(b)
				}
				e := parse.NewError(bytes.NewReader(b), off, "stub parse error")
				s.stubErr = e
				return e
			}
			w.Write([]byte(c.StubOut))
			return nil
		}
	}
	if c.Others {
		s.m.Add("text/css", &mcss.Minifier{})
		s.m.Add("text/html", &mhtml.Minifier{KeepQuotes: c.KeepQ})
		s.m.Add("image/svg+xml", &msvg.Minifier{})
		s.m.AddRegexp(mk.JSRe, &mjs.Minifier{})
		s.m.AddRegexp(mk.JSONRe, &mjson.Minifier{})
		s.m.AddRegexp(mk.XMLRe, &mxml.Minifier{})
	} else {
		// decoys (identity, recording) for every type but the expected one: a wrong choice becomes visible
		for _, d := range decoyTypes {
			if d != s.expectMT {
				s.m.AddFunc(d, mkStub("decoy:"+d, false))
			}
		}
	}
	switch c.Reg {
	case "absent":
		// literal registrations take precedence over patterns: make sure nothing matches the expected type
		if c.Others {
			s.m = minify.New()
			for _, d := range decoyTypes {
				if d != s.expectMT {
					s.m.AddFunc(d, mkStub("decoy:"+d, false))
				}
			}
		}
	case "stub", "fail-plain", "fail-parse":
		s.m.AddFunc(s.expectMT, mkStub("target", true))
	case "stub-pattern":
		if c.Others {
			// a literal registration of a real minifier would win over the pattern
			s.m = minify.New()
		}
		s.m.AddFuncRegexp(regexp.MustCompile("^"+regexp.QuoteMeta(s.expectMT)+"$"), mkStub("target", true))
	case "real":
		if !c.Others {
			switch s.expectMT {
			case "text/css":
				s.m.Add("text/css", &mcss.Minifier{})
			case "application/javascript", "text/javascript":
				s.m.Add(s.expectMT, &mjs.Minifier{})
			case "text/html":
				s.m.Add("text/html", &mhtml.Minifier{})
			case "image/svg+xml":
				s.m.Add("image/svg+xml", &msvg.Minifier{})
			case "application/json", "application/ld+json":
				s.m.Add(s.expectMT, &mjson.Minifier{})
			}
		}
	}
	return s
}

// ---- host construction ----

func encodeAttr(v, quote string, mode int) (string, string) {
	// returns the attribute source text (with delimiters) for value v
	var sb strings.Builder
	q := quote
	if q == "" {
		if v == "" || strings.ContainsAny(v, " \t\n\r\f\"'=<>`") {
			q = "\""
		}
	}
	for _, r := range v {
		esc := false
		switch r {
		case '&':
			esc = true
		case '"':
			esc = q == "\"" || mode > 0
		case '\'':
			esc = q == "'" || mode > 1
		case '<', '>':
			esc = mode > 0
		}
		if !esc {
			sb.WriteRune(r)
			continue
		}
		switch mode % 3 {
		case 0:
			switch r {
			case '&':
				sb.WriteString("&amp;")
			case '"':
				sb.WriteString("&quot;")
			case '\'':
				sb.WriteString("&#39;")
			case '<':
				sb.WriteString("&lt;")
			case '>':
				sb.WriteString("&gt;")
			}
		case 1:
			fmt.Fprintf(&sb, "&#%d;", r)
		case 2:
			fmt.Fprintf(&sb, "&#x%X;", r)
		}
	}
	return q + sb.String() + q, q
}

type hostDoc struct {
	src   string
	kind  string // html svg css
	start int    // offset of the embedded payload in src (raw hosts)
	end   int
}

func hostSource(c Case) hostDoc {
	typeAttr := ""
	if c.TypeAttr != "" {
		typeAttr = " type=\"" + c.TypeAttr + "\""
	}
	switch c.Host {
	case "html-script":
		head := c.Pre + "<script" + c.ExtraAttr + typeAttr + ">"
		return hostDoc{src: head + c.Payload + "</script>" + c.Post, kind: "html", start: len(head), end: len(head) + len(c.Payload)}
	case "html-style":
		head := c.Pre + "<style" + c.ExtraAttr + typeAttr + ">"
		return hostDoc{src: head + c.Payload + "</style>" + c.Post, kind: "html", start: len(head), end: len(head) + len(c.Payload)}
	case "html-iframe":
		head := c.Pre + "<iframe>"
		return hostDoc{src: head + c.Payload + "</iframe>" + c.Post, kind: "html", start: len(head), end: len(head) + len(c.Payload)}
	case "html-svg", "html-math":
		return hostDoc{src: c.Pre + c.Payload + c.Post, kind: "html", start: len(c.Pre), end: len(c.Pre) + len(c.Payload)}
	case "html-style-attr", "html-on-attr", "html-data-uri":
		a, _ := encodeAttr(c.Payload, c.Quote, c.Encode)
		head := c.Pre + "<" + c.Tag + " " + c.Attr + "="
		return hostDoc{src: head + a + ">x</" + c.Tag + ">" + c.Post, kind: "html", start: len(head), end: len(head) + len(a)}
	case "svg-style-text":
		cst := ""
		if c.TypeAttr != "" {
			cst = " contentStyleType=\"" + c.TypeAttr + "\""
		}
		head := "<svg xmlns=\"http://www.w3.org/2000/svg\"" + cst + ">" + c.Pre + "<style>"
		return hostDoc{src: head + c.Payload + "</style>" + c.Post + "</svg>", kind: "svg", start: len(head), end: len(head) + len(c.Payload)}
	case "svg-style-cdata":
		cst := ""
		if c.TypeAttr != "" {
			cst = " contentStyleType=\"" + c.TypeAttr + "\""
		}
		head := "<svg xmlns=\"http://www.w3.org/2000/svg\"" + cst + ">" + c.Pre + "<style><![CDATA["
		return hostDoc{src: head + c.Payload + "]]></style>" + c.Post + "</svg>", kind: "svg", start: len(head), end: len(head) + len(c.Payload)}
	case "svg-style-attr":
		cst := ""
		if c.TypeAttr != "" {
			cst = " contentStyleType=\"" + c.TypeAttr + "\""
		}
		a, _ := encodeAttr(c.Payload, c.Quote, c.Encode)
		if !strings.HasPrefix(a, "\"") && !strings.HasPrefix(a, "'") {
			a = "\"" + a + "\""
		}
		head := "<svg xmlns=\"http://www.w3.org/2000/svg\"" + cst + ">" + c.Pre + "<g style="
		return hostDoc{src: head + a + "><rect/></g>" + c.Post + "</svg>", kind: "svg", start: len(head), end: len(head) + len(a)}
	case "css-data-uri":
		head := c.Pre + "a{background:url("
		return hostDoc{src: head + c.Payload + ")}" + c.Post, kind: "css", start: len(head), end: len(head) + len(c.Payload)}
	}
	return hostDoc{}
}

// ---- extraction from the host output ----

// htmlFind returns the raw text of the n-th element named tag (raw-text elements) as the x/net/html tokenizer sees it.
func htmlRawText(out, tag string) (texts []string) {
	z := html.NewTokenizer(strings.NewReader(out))
	cur := false
	for {
		tt := z.Next()
		switch tt {
		case html.ErrorToken:
			return
		case html.StartTagToken, html.SelfClosingTagToken:
			name, _ := z.TagName()
			cur = string(name) == tag
			if cur {
				texts = append(texts, "")
			}
		case html.TextToken:
			if cur {
				texts[len(texts)-1] += string(z.Raw())
			}
		case html.EndTagToken:
			cur = false
		}
	}
}

// htmlAttr returns the decoded values of attribute attr on elements named tag.
func htmlAttr(out, tag, attr string) (vals []string, present []bool) {
	z := html.NewTokenizer(strings.NewReader(out))
	for {
		tt := z.Next()
		switch tt {
		case html.ErrorToken:
			return
		case html.StartTagToken, html.SelfClosingTagToken:
			name, has := z.TagName()
			if string(name) != tag {
				continue
			}
			found := false
			for has {
				var k, v []byte
				k, v, has = z.TagAttr()
				if string(k) == attr {
					vals = append(vals, string(v))
					found = true
				}
			}
			present = append(present, found)
			if !found {
				vals = append(vals, "")
			}
		}
	}
}

func svgStyleText(out string) (texts []string, err error) {
	d := xml.NewDecoder(strings.NewReader(out))
	d.Strict = true
	in := false
	for {
		tok, e := d.Token()
		if e == io.EOF {
			return texts, nil
		}
		if e != nil {
			return texts, e
		}
		switch tk := tok.(type) {
		case xml.StartElement:
			in = tk.Name.Local == "style"
			if in {
				texts = append(texts, "")
			}
		case xml.EndElement:
			in = false
		case xml.CharData:
			if in {
				texts[len(texts)-1] += string(tk)
			}
		}
	}
}

func svgAttr(out, tag, attr string) (vals []string, present []bool, err error) {
	d := xml.NewDecoder(strings.NewReader(out))
	d.Strict = true
	for {
		tok, e := d.Token()
		if e == io.EOF {
			return vals, present, nil
		}
		if e != nil {
			return vals, present, e
		}
		if se, ok := tok.(xml.StartElement); ok && se.Name.Local == tag {
			f := false
			for _, a := range se.Attr {
				if a.Name.Local == attr && a.Name.Space == "" {
					vals = append(vals, a.Value)
					f = true
				}
			}
			if !f {
				vals = append(vals, "")
			}
			present = append(present, f)
		}
	}
}

func trimWS(s string) string { return strings.Trim(s, " \t\n\r\f") }

var reWS = regexp.MustCompile(`[ \t\n\r\f]+`)

// lineCol of a byte offset (1-based, columns in bytes+1 like parse.Position for ASCII)
func lineCol(s string, off int) (int, int) {
	line, col := 1, 1
	for i := 0; i < off && i < len(s); i++ {
		if s[i] == '\n' {
			line++
			col = 1
		} else if s[i] == '\r' {
			if i+1 < len(s) && s[i+1] == '\n' {
				continue
			}
			line++
			col = 1
		} else if s[i]&0xC0 != 0x80 {
			col++
		}
	}
	return line, col
}

func offsetOf(s string, line, col int) int {
	l, c := 1, 1
	for i := 0; i <= len(s); i++ {
		if l == line && c == col {
			return i
		}
		if i == len(s) {
			break
		}
		if s[i] == '\n' {
			l++
			c = 1
		} else if s[i]&0xC0 != 0x80 {
			c++
		}
	}
	return -1
}

func paramsEqual(a, b map[string]string) bool {
	if len(a) != len(b) {
		return false
	}
	for k, v := range a {
		if b[k] != v {
			return false
		}
	}
	return true
}

func fmtParams(p map[string]string) string {
	var ks []string
	for k := range p {
		ks = append(ks, k)
	}
	sort.Strings(ks)
	var sb strings.Builder
	for _, k := range ks {
		sb.WriteString(k + "=" + p[k] + ";")
	}
	return "{" + sb.String() + "}"
}

func runHost(s *setup, c Case, hd hostDoc) ([]byte, error) {
	var host minify.Minifier
	switch hd.kind {
	case "html":
		host = &mhtml.Minifier{KeepQuotes: c.KeepQ}
	case "svg":
		host = &msvg.Minifier{}
	case "css":
		host = &mcss.Minifier{}
	}
	return mk.Run(host, s.m, []byte(hd.src), nil)
}

type primer struct {
	host func() minify.Minifier
	src  string
}

var primers = []primer{
	{func() minify.Minifier { return &mhtml.Minifier{} }, "<p style=\"color : red\" onclick=\" f ( ) \">x<svg width=\"10\" height=\"10\"><style> rect { fill : #00ff00 } </style><rect style=\"fill : blue\" width=\"5\"/></svg><img src=\"data:image/svg+xml,%3Csvg xmlns='http://www.w3.org/2000/svg'%3E%3Cpath d='M 0 0 L 1 1'/%3E%3C/svg%3E\"></p><script> var a = 1 ; </script><style> a { color : #ff0000 } </style>"},
	{func() minify.Minifier { return &mcss.Minifier{} }, "a { background : url(\"data:image/svg+xml,%3Csvg xmlns='http://www.w3.org/2000/svg'%3E%3C/svg%3E\") }"},
	{func() minify.Minifier { return &msvg.Minifier{} }, "<svg xmlns=\"http://www.w3.org/2000/svg\"><style> a { fill : red } </style><script> var b = 2 ; </script><rect style=\" fill : blue \" onclick=\" g ( ) \"/></svg>"},
}

// what the embedded minifier must be given
func expectedInput(c Case) string {
	switch c.Host {
	case "html-style-attr":
		return trimWS(c.Payload)
	case "html-on-attr":
		v := trimWS(c.Payload)
		if len(v) >= 11 && strings.EqualFold(v[:11], "javascript:") {
			v = v[11:]
		}
		return v
	case "svg-style-text":
		return trimWS(c.Payload)
	case "svg-style-attr":
		// XML attribute values are whitespace-normalised by the SVG host (documented: collapse whitespace)
		return trimWS(reWS.ReplaceAllString(c.Payload, " "))
	}
	return c.Payload
}

func check(c Case) (changed bool, ran bool, err error) {
	hd := hostSource(c)
	if hd.src == "" {
		return false, false, fmt.Errorf("HARNESS: unknown host %q", c.Host)
	}
	s := build(c)
	out, merr := runHost(s, c, hd)
	if mk.IsPanic(merr) {
		return false, false, merr
	}
	outS := string(out)
	changed = outS != hd.src || merr != nil
	show := func(format string, a ...interface{}) error {
		return fmt.Errorf(format+"\n--- host input:\n%s\n--- host output:\n%s\n--- error: %v\n--- calls: %v", append(a, hd.src, outS, merr, *s.calls)...)
	}
	if c.Others || c.Reg == "real" {
		// the minifier objects a caller registers serve many documents: what one document asked for (inline=1 for an
		// <svg> element or a style attribute) must not be remembered for the next. The same host on a registry that has
		// served other documents before gives the same bytes.
		s2 := build(c)
		for _, pr := range primers {
			mk.Run(pr.host(), s2.m, []byte(pr.src), nil)
		}
		for _, mt := range []string{"image/svg+xml;inline=1", "text/css;inline=1", "application/javascript;inline=1"} {
			mk.RunM(s2.m, mt, []byte(map[byte]string{'i': "<svg><rect width=\"1\"/></svg>", 't': "color: red", 'a': "f ( 1 )"}[mt[0]]))
		}
		out2, merr2 := runHost(s2, c, hd)
		if string(out2) != outS || fmt.Sprint(merr2) != fmt.Sprint(merr) {
			return changed, true, show("the result depends on what the registry served before: after an HTML document with an inline <svg>, style and on* attributes and data URIs, and calls with inline=1, the same host gives\n%s\n(error %v)", out2, merr2)
		}
	}
	if c.Host == "html-data-uri" || c.Host == "css-data-uri" {
		return checkDataURI(c, hd, s, outS, merr, show)
	}
	want := expectedInput(c)
	var targets, decoys []call
	for _, cl := range *s.calls {
		if cl.Name == "target" {
			targets = append(targets, cl)
		} else if cl.In == want && want != "" {
			decoys = append(decoys, cl)
		}
	}
	if len(decoys) > 0 && !c.Others {
		return changed, true, show("the payload was given to the minifier registered for %s, expected media type %s", decoys[0].Name, s.expectMT)
	}
	emptyPayload := want == ""
	switch c.Reg {
	case "stub", "stub-pattern", "fail-plain", "fail-parse":
		if emptyPayload {
			// hosts may skip empty content
			if merr != nil && len(targets) == 0 {
				return changed, false, show("error without a call")
			}
			return changed, false, nil
		}
		if len(targets) != 1 {
			return changed, true, show("the minifier registered for %s was called %d times with the embedded content %q, expected once", s.expectMT, len(targets), want)
		}
		ran = true
		if targets[0].In != want {
			return changed, true, show("the embedded minifier was given %q, expected %q", targets[0].In, want)
		}
		if !paramsEqual(targets[0].Params, s.expectP) {
			return changed, true, show("the embedded minifier was given params %s, expected %s", fmtParams(targets[0].Params), fmtParams(s.expectP))
		}
	}
	switch c.Reg {
	case "fail-plain":
		if merr == nil {
			return changed, true, show("the embedded minifier failed but the outer call succeeded")
		}
		if !errors.Is(merr, errStub) {
			return changed, true, show("the outer error is not the embedded minifier's error")
		}
		return changed, true, nil
	case "fail-parse":
		if merr == nil {
			return changed, true, show("the embedded minifier failed but the outer call succeeded")
		}
		pe, ok := merr.(*parse.Error)
		if !ok || pe != s.stubErr {
			return changed, true, show("the outer error is not the embedded minifier's *parse.Error")
		}
		// the position must lie inside the embedded region of the outer document: exactly at the failing byte where
		// the host hands over the raw bytes, on one of the region's lines where the host decodes and trims first
		l0, c0 := lineCol(hd.src, hd.start)
		l1, c1 := lineCol(hd.src, hd.end)
		if pe.Line < l0 || pe.Line > l1 {
			return changed, true, show("the error position %d:%d is outside the embedded region %d:%d-%d:%d of the outer document", pe.Line, pe.Column, l0, c0, l1, c1)
		}
		if strings.HasPrefix(c.Host, "html-s") && !strings.Contains(c.Host, "attr") || c.Host == "html-iframe" || c.Host == "svg-style-cdata" {
			// raw hosts: exact position
			fo := c.FailOff
			if fo > len(want) {
				fo = len(want)
			}
			wl, wc := lineCol(hd.src, hd.start+fo)
			if pe.Line != wl || pe.Column != wc {
				return changed, true, show("the error position is %d:%d, the failing byte of the embedded content is at %d:%d of the outer document", pe.Line, pe.Column, wl, wc)
			}
		}
		return changed, true, nil
	}
	if merr != nil {
		if c.Reg == "real" || c.Others {
			return changed, false, nil // the payload or the surrounding markup is rejected by a real minifier: outside this check
		}
		return changed, true, show("unexpected error")
	}
	// what must stand at the place
	var wantOut string
	switch c.Reg {
	case "absent":
		wantOut = want
		if c.Host == "html-script" || c.Host == "html-style" || c.Host == "html-iframe" || c.Host == "html-svg" || c.Host == "html-math" || c.Host == "svg-style-cdata" {
			wantOut = c.Payload
		}
		ran = want != ""
	case "stub", "stub-pattern":
		wantOut = c.StubOut
	case "real":
		var buf bytes.Buffer
		if e := s.m.Minify(s.expectMT, &buf, strings.NewReader(want)); e != nil {
			if e == minify.ErrNotExist {
				wantOut = want
			} else {
				return changed, false, nil
			}
		} else {
			wantOut = buf.String()
			// params matter for the real ones: inline
			if s.expectP != nil {
				buf.Reset()
				if e := s.m.MinifyMimetype([]byte(s.expectMT), &buf, strings.NewReader(want), s.expectP); e == nil {
					wantOut = buf.String()
				}
			}
		}
		ran = want != ""
	}
	var got string
	switch c.Host {
	case "html-script", "html-style", "html-iframe":
		tag := strings.TrimPrefix(c.Host, "html-")
		texts := htmlRawText(outS, tag)
		ti := strings.Count(strings.ToLower(c.Pre), "<"+tag)
		if wantOut == "" {
			// an empty element may be dropped
			return changed, ran, nil
		}
		if ti >= len(texts) {
			return changed, true, show("the <%s> element is missing in the output", tag)
		}
		got = texts[ti]
	case "html-svg", "html-math":
		if !strings.Contains(outS, wantOut) {
			return changed, true, show("the output of the embedded minifier %q does not stand in the host output", wantOut)
		}
		return changed, ran, nil
	case "html-style-attr", "html-on-attr":
		vals, present := htmlAttr(outS, c.Tag, c.Attr)
		ti := strings.Count(strings.ToLower(c.Pre), "<"+c.Tag)
		if ti >= len(vals) {
			return changed, true, show("the <%s> element is missing in the output", c.Tag)
		}
		if wantOut == "" {
			if present[ti] && vals[ti] != "" {
				return changed, true, show("attribute %s should be empty or absent, is %q", c.Attr, vals[ti])
			}
			return changed, ran, nil
		}
		got = vals[ti]
	case "svg-style-text", "svg-style-cdata":
		texts, e := svgStyleText(outS)
		if e != nil {
			return changed, true, show("the host output is not well-formed: %v", e)
		}
		ti := strings.Count(c.Pre, "<style")
		if wantOut == "" {
			return changed, ran, nil
		}
		if ti >= len(texts) {
			return changed, true, show("the style element is missing in the output")
		}
		got = texts[ti]
		if c.Reg == "absent" || c.Host == "svg-style-cdata" {
			got, wantOut = trimWS(got), trimWS(wantOut)
		}
	case "svg-style-attr":
		vals, _, e := svgAttr(outS, "g", "style")
		if e != nil {
			return changed, true, show("the host output is not well-formed: %v", e)
		}
		ti := strings.Count(c.Pre, "<g")
		if ti >= len(vals) {
			return changed, true, show("the g element is missing in the output")
		}
		got = vals[ti]
	}
	if got != wantOut {
		return changed, true, show("at the embedded place stands %q, expected %q", got, wantOut)
	}
	return changed, ran, nil
}

// data URIs: the host must put there what minify.DataURI makes of the (trimmed, decoded) value, re-escaped for the host
func checkDataURI(c Case, hd hostDoc, s *setup, outS string, merr error, show func(string, ...interface{}) error) (bool, bool, error) {
	changed := outS != hd.src || merr != nil
	if merr != nil {
		return changed, false, show("unexpected error")
	}
	ref := build(c) // an identical, fresh registry
	in := trimWS(c.Payload)
	want := string(minify.DataURI(ref.m, []byte(in)))
	var got string
	if c.Host == "html-data-uri" {
		vals, _ := htmlAttr(outS, c.Tag, c.Attr)
		ti := strings.Count(strings.ToLower(c.Pre), "<"+c.Tag)
		if ti >= len(vals) {
			return changed, true, show("the <%s> element is missing in the output", c.Tag)
		}
		got = vals[ti]
	} else {
		i := strings.Index(outS, "url(")
		if i < 0 {
			return changed, true, show("no url( in the output")
		}
		rest := outS[i+4:]
		var v string
		if strings.HasPrefix(rest, "\"") || strings.HasPrefix(rest, "'") {
			q := rest[0]
			j := 1
			var sb strings.Builder
			for j < len(rest) && rest[j] != q {
				if rest[j] == '\\' && j+1 < len(rest) {
					j++
				}
				sb.WriteByte(rest[j])
				j++
			}
			v = sb.String()
		} else {
			j := strings.IndexByte(rest, ')')
			if j < 0 {
				return changed, true, show("unclosed url(")
			}
			v = rest[:j]
		}
		got = v
	}
	if got != want {
		return changed, true, show("the data URI in the host output is %q, minify.DataURI gives %q for %q", got, want, in)
	}
	// independent of minify.DataURI: the minifier registered for the media type gets the parameters the URI carries
	header := strings.TrimPrefix(in, "data:")
	if i := strings.IndexByte(header, ','); i >= 0 {
		header = header[:i]
	}
	header = strings.TrimSuffix(header, ";base64")
	if _, wantP, err := mime.ParseMediaType(header); err == nil {
		if len(wantP) == 0 {
			wantP = nil
		}
		dec, _, ok := rfc2397.Decode([]byte(in))
		for _, cl := range *s.calls {
			// the call for the URI's payload (other embedded content of the type is around as well)
			if !ok || len(dec.Payload) == 0 || !strings.HasPrefix(cl.Name, "target") || cl.In != string(dec.Payload) {
				continue
			}
			gotP := map[string]string{}
			for k, v := range cl.Params {
				gotP[strings.ToLower(k)] = v // parameter names are case-insensitive
			}
			if len(gotP) == 0 {
				gotP = nil
			}
			if !paramsEqual(gotP, wantP) {
				return changed, true, show("the minifier registered for %s was given params %s, the data URI carries %s", s.expectMT, fmtParams(cl.Params), fmtParams(wantP))
			}
		}
	}
	return changed, want != in, nil
}

// ---- generators ----

func guards() map[string]bool {
	g := map[string]bool{}
	for _, f := range hx.Findings() {
		if f.Status == "known" && f.Guard != "" {
			g[f.Guard] = true
		}
	}
	return g
}

var rawPieces = []string{"a", "b", " ", "  ", "\n", "\t", "x=1", ";", "{", "}", ":", "'", "\"", "<", ">", "&", "&amp;", "&lt;", "/", "*", "//c", "/*c*/", "color:red", "é", "=", "+", "(", ")", "[", "]", "\\", "$", "`", "#", "%", "1", "0"}

func genText(t *rapid.T, label string, max int, forbid func(string) string) string {
	n := rapid.IntRange(0, max).Draw(t, label+"n")
	var sb strings.Builder
	for i := 0; i < n; i++ {
		sb.WriteString(rapid.SampledFrom(rawPieces).Draw(t, label))
	}
	s := sb.String()
	if forbid != nil {
		s = forbid(s)
	}
	return s
}

func noRawEnd(s string) string {
	s = strings.ReplaceAll(s, "</", "< /")
	s = strings.ReplaceAll(s, "<!", "< !")
	return s
}

// an ampersand that would start a character reference after decoding is left encoded by the host (and handed
// over encoded): such text is opaque to the embedded minifier, the law is checked without it
func noEntityLike(s string) string {
	s = strings.NewReplacer("&amp;", "&", "&lt;", "&").Replace(s)
	return reAmbiguousAmp.ReplaceAllString(s, "& $1")
}

var reBareDimension = regexp.MustCompile(`^[-+]?[0-9.]+([eE][-+]?[0-9]+)?[A-Za-z%]*$`)
var reAmbiguousAmp = regexp.MustCompile(`&([A-Za-z0-9#])`)

func noXMLSpecial(s string) string {
	s = strings.NewReplacer("<", "(", "&amp;", "+", "&lt;", "+", "&", "+", "]]>", "]] >").Replace(s)
	return s
}

var pres = []string{"<script type=\"application/ld+json\">{ \"pre\" : 1 }</script>", "<script type=\"text/template\"><b> pre </b></script>", "<style type=\"text/less\">@pre : 1;</style>", "", "<p>a ", "<!doctype html><title>t</title>", "<div class=a>", "<script>var pre = 1</script>", "<style>pre{color:teal}</style>", "a\nb\n", "<p style=\"color:teal\" onclick=\"pre()\">x</p>\n"}
var posts = []string{"", " b", "<p>c</p>", "\n<script>var post = 2</script>", "<style>post{color:blue}</style>"}
var svgPres = []string{"", "<g id=\"a\"/>", "<style>pre{fill:teal}</style>", "\n  <title>t</title>\n"}

func genCase(t *rapid.T, g0 map[string]bool) Case {
	hosts := []string{"html-script", "html-script", "html-style", "html-iframe", "html-svg", "html-math", "html-style-attr", "html-on-attr", "html-data-uri", "svg-style-text", "svg-style-cdata", "svg-style-attr", "css-data-uri"}
	c := Case{Host: rapid.SampledFrom(hosts).Draw(t, "host")}
	c.Reg = rapid.SampledFrom([]string{"stub", "stub", "absent", "stub-pattern", "fail-plain", "fail-parse", "real"}).Draw(t, "reg")
	c.Others = rapid.Bool().Draw(t, "others")
	c.KeepQ = rapid.IntRange(0, 4).Draw(t, "keepq") == 0
	real := c.Reg == "real"
	switch c.Host {
	case "html-script":
		c.TypeAttr = rapid.SampledFrom([]string{"", "", "text/javascript", "application/javascript", "module", "application/ld+json", "text/template", "text/x-unknown", "text/javascript; charset=utf-8", "Text/JavaScript", "application/json", " text/javascript ", "text/javascript;version=1.8"}).Draw(t, "type")
		if real {
			switch c.TypeAttr {
			case "application/ld+json", "application/json":
				c.Payload = rapid.SampledFrom([]string{"{ \"a\" : [ 1.0 , 2 ] }", "[ ]", " { } "}).Draw(t, "json")
			default:
				c.Payload = noRawEnd(jsgen.Gen(t, jsgen.Config{Goal: "sloppy", MaxStmts: 3, Guards: g0}).Src)
			}
		} else {
			c.Payload = genText(t, "payload", 8, noRawEnd)
		}
		c.StubOut = genText(t, "stubout", 6, noRawEnd)
	case "html-style":
		c.TypeAttr = rapid.SampledFrom([]string{"", "", "text/css", "TEXT/CSS", "text/x-unknown", "text/css; charset=utf-8", "text/less"}).Draw(t, "type")
		if real {
			c.Payload = noRawEnd((&cssgen.G{T: t, Feats: map[string]int{}, Guards: g0}).Stylesheet())
		} else {
			c.Payload = genText(t, "payload", 8, noRawEnd)
		}
		c.StubOut = genText(t, "stubout", 6, noRawEnd)
	case "html-iframe":
		if real {
			c.Payload = rapid.SampledFrom([]string{"<p>a  b</p>", " <b> x </b> ", "<ul><li>a</li></ul>"}).Draw(t, "iframe")
		} else {
			c.Payload = genText(t, "payload", 8, noRawEnd)
		}
		c.StubOut = genText(t, "stubout", 6, noRawEnd)
	case "html-svg":
		c.Payload = rapid.SampledFrom([]string{"<svg><g id=\"a\"></g></svg>", "<svg viewBox=\"0 0 10 10\"><path d=\"M 0 0 L 10 10\"/></svg>", "<svg width=\"10\"><rect x=\"0\" y=\"0\"/></svg>", "<svg xmlns=\"http://www.w3.org/2000/svg\">\n<style> a { fill : red } </style>\n</svg>"}).Draw(t, "svg")
		if rapid.IntRange(0, 5).Draw(t, "selfclosing") == 0 {
			if g0["noSelfClosingForeign"] {
				hx.C.Exclude("noSelfClosingForeign")
			} else {
				c.Payload = "<svg id=\"a\"/>"
			}
		}
		c.StubOut = fmt.Sprintf("<svg><g id=\"stub%d\"/></svg>", rapid.IntRange(0, 99).Draw(t, "stubid"))
	case "html-math":
		c.Payload = rapid.SampledFrom([]string{"<math><mi>x</mi></math>", "<math display=\"block\"> <mn>1</mn> </math>"}).Draw(t, "math")
		c.StubOut = fmt.Sprintf("<math><mn>%d</mn></math>", rapid.IntRange(0, 99).Draw(t, "stubid"))
	case "html-style-attr", "html-on-attr":
		c.Tag = rapid.SampledFrom([]string{"p", "div", "span", "a", "img", "button", "td", "body"}).Draw(t, "tag")
		if c.Tag == "img" || c.Tag == "body" || c.Tag == "td" {
			c.Tag = "div"
		}
		c.Attr = "style"
		if c.Host == "html-on-attr" {
			c.Attr = rapid.SampledFrom([]string{"onclick", "onload", "onmouseover", "ONCLICK"}).Draw(t, "onattr")
		}
		c.Attr = strings.ToLower(c.Attr)
		c.Quote = rapid.SampledFrom([]string{"\"", "'", ""}).Draw(t, "quote")
		c.Encode = rapid.IntRange(0, 2).Draw(t, "encode")
		if real {
			if c.Host == "html-style-attr" {
				c.Payload = (&cssgen.G{T: t, Feats: map[string]int{}, Guards: g0}).DeclList(3)
			} else {
				c.Payload = rapid.SampledFrom([]string{"f()", "return false;", " javascript:go( 1 , 2 ) ", "JavaScript:x = \"a\" + 'b'", "if (a < b && c > d) { e() }", "alert('&amp;')"}).Draw(t, "js")
			}
		} else {
			pre := ""
			if c.Host == "html-on-attr" {
				pre = rapid.SampledFrom([]string{"", "", "javascript:", "JAVASCRIPT:", " javascript:"}).Draw(t, "jsprefix")
			}
			c.Payload = pre + genText(t, "payload", 6, nil)
		}
		c.StubOut = genText(t, "stubout", 6, nil)
		if g0["noAmbiguousAmpersandInAttr"] {
			if p2 := noEntityLike(c.Payload); p2 != c.Payload {
				c.Payload = p2
				hx.C.Exclude("noAmbiguousAmpersandInAttr")
			}
			c.StubOut = noEntityLike(c.StubOut)
		}
		if real && c.Host == "html-on-attr" {
			c.Payload = strings.ReplaceAll(c.Payload, "'&amp;'", "'& '")
		}
	case "html-data-uri", "css-data-uri":
		c.Tag, c.Attr = "img", "src"
		if rapid.Bool().Draw(t, "ahref") {
			c.Tag, c.Attr = "a", "href"
		}
		mt := rapid.SampledFrom([]string{"text/css", "text/css", "application/javascript", "text/plain", "", "image/svg+xml", "text/html", "text/x-unknown"}).Draw(t, "datamt")
		if mt != "" && rapid.IntRange(0, 2).Draw(t, "dataparams") == 0 {
			// parameters of the media type are handed to the minifier
			mt += rapid.SampledFrom([]string{";charset=utf-8", ";inline=1", ";x=y", ";charset=iso-8859-1;a=b", ";CHARSET=UTF-8"}).Draw(t, "dataparam")
		}
		body := genText(t, "databody", 6, nil)
		if rapid.Bool().Draw(t, "b64") {
			c.Payload = "data:" + mt + ";base64," + b64(body)
		} else {
			c.Payload = "data:" + mt + "," + pctEncode(body)
		}
		if c.Host == "css-data-uri" {
			c.Payload = strings.NewReplacer("(", "%28", ")", "%29", "'", "%27", "\"", "%22", " ", "%20", "\\", "%5C").Replace(c.Payload)
		} else {
			c.Quote = rapid.SampledFrom([]string{"\"", "'", ""}).Draw(t, "quote")
			c.Encode = rapid.IntRange(0, 2).Draw(t, "encode")
		}
		if c.Reg == "fail-plain" || c.Reg == "fail-parse" || c.Reg == "real" {
			c.Reg = "stub"
		}
		c.StubOut = genText(t, "stubout", 6, nil)
		// the stub is registered for the data's media type
	case "svg-style-text", "svg-style-cdata", "svg-style-attr":
		c.TypeAttr = rapid.SampledFrom([]string{"", "", "", "text/css", "text/x-unknown"}).Draw(t, "cst")
		forbid := noXMLSpecial
		if c.Host == "svg-style-cdata" {
			forbid = func(s string) string { return strings.ReplaceAll(s, "]]>", "]] >") }
		}
		if real {
			if c.Host == "svg-style-attr" {
				c.Payload = forbid((&cssgen.G{T: t, Feats: map[string]int{}, Guards: g0}).DeclList(3))
			} else {
				c.Payload = forbid((&cssgen.G{T: t, Feats: map[string]int{}, Guards: g0}).Stylesheet())
			}
		} else {
			c.Payload = genText(t, "payload", 8, forbid)
		}
		c.StubOut = genText(t, "stubout", 6, forbid)
		if c.Host == "svg-style-attr" {
			if reBareDimension.MatchString(trimWS(c.Payload)) {
				// a bare number with unit is shortened as a length before the style minifier is asked; it is no declaration list
				c.Payload = "x:" + c.Payload
			}
			c.Quote = rapid.SampledFrom([]string{"\"", "'"}).Draw(t, "quote")
			c.Encode = rapid.IntRange(0, 2).Draw(t, "encode")
			c.StubOut = genText(t, "stubout2", 6, noXMLSpecial)
		}
	}
	if c.Host == "html-script" || c.Host == "html-style" {
		// other attributes on the element: the type of an earlier element must not leak into this one
		c.ExtraAttr = rapid.SampledFrom([]string{"", "", " class=x", " nonce=\"abc\"", " media=\"print\"", " id=s defer"}).Draw(t, "extraattr")
	}
	if c.Reg == "fail-parse" && g0["noInPlaceEditsBeforeError"] {
		// text that is collapsed in place in front of the embedded content shifts the reported line (known finding)
		if strings.HasPrefix(c.Host, "svg-") {
			c.Pre = rapid.SampledFrom([]string{"", "<g id=\"a\"/>"}).Draw(t, "pre")
		} else if c.Host != "css-data-uri" {
			c.Pre = rapid.SampledFrom([]string{"", "<div class=a>", "<p>a", "<!doctype html><title>t</title>"}).Draw(t, "pre")
		}
		hx.C.Exclude("noInPlaceEditsBeforeError")
	} else if strings.HasPrefix(c.Host, "svg-") {
		c.Pre = rapid.SampledFrom(svgPres).Draw(t, "pre")
		c.Post = rapid.SampledFrom(svgPres).Draw(t, "post")
	} else if c.Host == "css-data-uri" {
		c.Pre = rapid.SampledFrom([]string{"", "b{color:red}", "@media print{", "\n"}).Draw(t, "pre")
		if c.Pre == "@media print{" {
			c.Post = "}"
		}
	} else {
		c.Pre = rapid.SampledFrom(pres).Draw(t, "pre")
		c.Post = rapid.SampledFrom(posts).Draw(t, "post")
	}
	if c.Reg == "fail-parse" {
		c.FailOff = rapid.IntRange(0, len(c.Payload)).Draw(t, "failoff")
		for c.FailOff > 0 && c.FailOff < len(c.Payload) && c.Payload[c.FailOff]&0xC0 == 0x80 {
			c.FailOff-- // not inside a multi-byte character
		}
	}
	return c
}

func b64(s string) string {
	const tbl = "ABCDEFGHIJKLMNOPQRSTUVWXYZabcdefghijklmnopqrstuvwxyz0123456789+/"
	var sb strings.Builder
	b := []byte(s)
	for i := 0; i < len(b); i += 3 {
		var n uint32
		k := 0
		for j := 0; j < 3; j++ {
			n <<= 8
			if i+j < len(b) {
				n |= uint32(b[i+j])
				k++
			}
		}
		for j := 0; j < 4; j++ {
			if j <= k {
				sb.WriteByte(tbl[(n>>(18-6*uint(j)))&63])
			} else {
				sb.WriteByte('=')
			}
		}
	}
	return sb.String()
}

func pctEncode(s string) string {
	var sb strings.Builder
	for i := 0; i < len(s); i++ {
		ch := s[i]
		if ch >= 'a' && ch <= 'z' || ch >= 'A' && ch <= 'Z' || ch >= '0' && ch <= '9' || strings.IndexByte("-_.!~*'();/?:@=+$,", ch) >= 0 {
			sb.WriteByte(ch)
		} else {
			fmt.Fprintf(&sb, "%%%02X", ch)
		}
	}
	return sb.String()
}

func TestCampaignGenerated(t *testing.T) {
	hx.C.SetRule(rule)
	hx.C.Assume("x/net/html tokenizer and encoding/xml decode attribute values and text as the standards say", "attribute contexts hand the trimmed value to the embedded minifier (and strip a javascript: prefix of event handlers), as the README documents", "the SVG host normalises whitespace in attribute values before the style minifier sees them")
	hx.Setup("generated", 400000, 6000000)
	g0 := guards()
	rapid.Check(t, func(t *rapid.T) {
		c := genCase(t, g0)
		changed, ran, err := check(c)
		b, _ := json.Marshal(c)
		nt := err == nil && ran && changed && expectedInput(c) != ""
		outcome := "ok"
		if err != nil {
			outcome = "violation"
		}
		hx.C.Case(hx.Hash(string(b)), nt, "host:"+c.Host, "reg:"+c.Reg, fmt.Sprintf("others:%v", c.Others), "host:"+c.Host+"/reg:"+c.Reg, "outcome:"+outcome)
		if nt && len(c.Payload) < 200 {
			hx.C.Sample(len(c.Payload), c)
		}
		if err != nil && strings.HasPrefix(err.Error(), "HARNESS:") {
			t.Fatalf("%v", err)
		}
		hx.KnownOrFail(t, "generated", c, err, func() string { return matchKnown(c, err) })
	})
}

func matchKnown(c Case, err error) string {
	if err == nil {
		return ""
	}
	msg := err.Error()
	if (c.Host == "html-style-attr" || c.Host == "html-on-attr") && (reAmbiguousAmp.MatchString(c.Payload) || strings.Contains(c.Payload, "&amp;") || c.Reg != "real" && reAmbiguousAmp.MatchString(c.StubOut)) && (strings.Contains(msg, "with the embedded content") || strings.Contains(msg, "at the embedded place stands") || strings.Contains(msg, "was given")) {
		return "C11-attr-ambiguous-ampersand"
	}
	if (c.Host == "html-svg" || c.Host == "html-math") && strings.HasSuffix(c.Payload, "/>") && !strings.Contains(c.Payload, "</") {
		return "C11-selfclosing-svg-swallows-rest"
	}
	if c.Reg == "fail-parse" && strings.Contains(msg, "error position") && (strings.Contains(c.Pre, "\n") || strings.Contains(c.Pre, "  ")) {
		return "C11-error-line-after-inplace-edits"
	}
	return ""
}

func TestReplay(t *testing.T) {
	hx.ReplayTest(t, func(f hx.Failure) error {
		var c Case
		if err := json.Unmarshal(f.Case, &c); err != nil {
			return err
		}
		_, _, err := check(c)
		return err
	})
}

var _ = stdhtml.UnescapeString
