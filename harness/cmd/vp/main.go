// vp is the driver behind /verif/check: it rebuilds the property's test binary
// against /repo's current working tree, runs the campaign shards, replays the
// committed witnesses of known/fixed findings, merges evidence and maps the
// outcome to the exit-code contract (0 held, 1 VIOLATION, 2 inconclusive).
package main

import (
	"bytes"
	"encoding/binary"
	"encoding/json"
	"fmt"
	"io"
	"os"
	"os/exec"
	"path/filepath"
	"sort"
	"strconv"
	"strings"
	"sync"
	"syscall"
	"time"
)

type propCfg struct {
	pkg      string
	level    string
	shardsQ  int
	shardsT  int
	race     bool
	cli      bool // needs the built cmd/minify binary
	node     bool // needs node
	timeoutQ time.Duration
	timeoutT time.Duration
	fuzz     []string // native fuzz targets (thorough only)
	fuzzTime time.Duration
	ptkill   bool
}

var props = map[string]propCfg{}

func init() {
	def := func(id string, c propCfg) {
		if c.pkg == "" {
			c.pkg = "./props/" + strings.ToLower(id)
		}
		if c.level == "" {
			c.level = "exploration"
		}
		if c.shardsQ == 0 {
			c.shardsQ = 16
		}
		if c.shardsT == 0 {
			c.shardsT = 16
		}
		if c.timeoutQ == 0 {
			c.timeoutQ = 8 * time.Minute
		}
		if c.timeoutT == 0 {
			c.timeoutT = 45 * time.Minute
		}
		if c.fuzzTime == 0 {
			c.fuzzTime = 90 * time.Second
			// VERIF_FUZZTIME=10m for a longer native fuzz campaign per target (thorough tier only)
			if d, err := time.ParseDuration(os.Getenv("VERIF_FUZZTIME")); err == nil && d > 0 {
				c.fuzzTime = d
			}
		}
		props[id] = c
	}
	def("C01", propCfg{node: true, fuzz: nil})
	def("C02", propCfg{node: true})
	def("C03", propCfg{})
	def("C04", propCfg{})
	def("C05", propCfg{fuzz: []string{"FuzzPath"}})
	def("C06", propCfg{fuzz: []string{"FuzzXML"}})
	def("C07", propCfg{fuzz: []string{"FuzzJSON"}})
	def("C08", propCfg{fuzz: []string{"FuzzNumber"}})
	def("C09", propCfg{node: true, fuzz: []string{"FuzzJS", "FuzzHTML", "FuzzCSS", "FuzzSVG", "FuzzXML", "FuzzJSON"}})
	def("C10", propCfg{fuzz: []string{"FuzzJS", "FuzzHTML", "FuzzCSS", "FuzzSVG", "FuzzXML", "FuzzJSON"}})
	def("C11", propCfg{})
	def("C12", propCfg{race: true})
	def("C13", propCfg{race: true, shardsQ: 8, shardsT: 8})
	def("C14", propCfg{level: "fault_enumeration"})
	def("C15", propCfg{})
	def("C16", propCfg{node: true, cli: true})
	def("C17", propCfg{shardsQ: 1, shardsT: 1})
	def("C18", propCfg{fuzz: []string{"FuzzDataURI"}})
	def("C19", propCfg{cli: true})
	def("C20", propCfg{cli: true, ptkill: true, level: "fault_enumeration"})
}

var (
	root    = envOr("VERIF_ROOT", "/verif")
	repo    = envOr("VERIF_REPO", "/repo")
	harness string
)

func envOr(k, d string) string {
	if v := os.Getenv(k); v != "" {
		return v
	}
	return d
}

func goEnv() []string {
	env := os.Environ()
	env = append(env, "GOFLAGS=-mod=mod", "GOPROXY=off", "GOSUMDB=off", "GOTOOLCHAIN=local", "GONOSUMDB=*", "GONOSUMCHECK=1")
	return env
}

func main() {
	harness = filepath.Join(root, "harness")
	args := os.Args[1:]
	if len(args) < 2 || args[0] != "check" {
		fmt.Fprintln(os.Stderr, "usage: vp check CNN [--tier quick|thorough] [--replay FILE] [--keep]")
		os.Exit(2)
	}
	id := strings.ToUpper(args[1])
	cfg, ok := props[id]
	if !ok {
		fmt.Fprintln(os.Stderr, "unknown property", id)
		os.Exit(2)
	}
	tier := envOr("VERIF_TIER", "quick")
	replay := ""
	keep := false
	for i := 2; i < len(args); i++ {
		switch args[i] {
		case "--tier":
			i++
			tier = args[i]
		case "--replay":
			i++
			replay = args[i]
		case "--keep":
			keep = true
		}
	}
	if tier != "thorough" {
		tier = "quick"
	}
	seed := int64(1)
	if v := os.Getenv("VERIF_SEED"); v != "" {
		if n, err := strconv.ParseInt(v, 10, 64); err == nil {
			seed = n
		}
	}
	os.Exit(run(id, cfg, tier, seed, replay, keep))
}

func run(id string, cfg propCfg, tier string, seed int64, replay string, keep bool) int {
	start := time.Now()
	tmpBase := envOr("TMPDIR", "/var/tmp")
	scratch, err := os.MkdirTemp(tmpBase, "verif-"+id+"-")
	if err != nil {
		fmt.Println("cannot create scratch dir:", err)
		return 2
	}
	if !keep {
		defer os.RemoveAll(scratch)
	} else {
		fmt.Println("scratch kept at", scratch)
	}

	if cfg.node {
		if _, err := exec.LookPath("node"); err != nil {
			fmt.Println("INCONCLUSIVE: node not found")
			return 2
		}
	}

	// 1. build the test binary from /repo's working tree
	testBin := filepath.Join(scratch, "prop.test")
	bargs := []string{"test", "-c", "-tags", "verif", "-vet=off", "-o", testBin}
	if cfg.race {
		bargs = append(bargs, "-race")
	}
	bargs = append(bargs, cfg.pkg)
	if out, err := runCmd(harness, goEnv(), 15*time.Minute, "go", bargs...); err != nil {
		fmt.Printf("INCONCLUSIVE: build of %s failed: %v\n%s\n", cfg.pkg, err, tail(out, 4000))
		return 2
	}
	env := append(goEnv(),
		"VERIF_PROP="+id, "VERIF_TIER="+tier, "VERIF_SEED="+strconv.FormatInt(seed, 10),
		"VERIF_ROOT="+root, "VERIF_REPO="+repo, "VERIF_SCRATCH="+scratch)
	if cfg.cli {
		cli := filepath.Join(scratch, "minify-cli")
		cenv := append(os.Environ(), "GOFLAGS=", "GOPROXY=off", "GOSUMDB=off", "GOTOOLCHAIN=local")
		if out, err := runCmd(repo, cenv, 15*time.Minute, "go", "build", "-tags", "verif", "-o", cli, "./cmd/minify"); err != nil {
			fmt.Printf("INCONCLUSIVE: build of cmd/minify failed: %v\n%s\n", err, tail(out, 4000))
			return 2
		}
		env = append(env, "VERIF_CLI="+cli)
	}
	if cfg.ptkill {
		pk := filepath.Join(root, "bin", "ptkill")
		if _, err := os.Stat(pk); err != nil {
			if out, err := runCmd(harness, goEnv(), 10*time.Minute, "go", "build", "-o", pk, "./cmd/ptkill"); err != nil {
				fmt.Printf("INCONCLUSIVE: build of ptkill failed: %v\n%s\n", err, tail(out, 2000))
				return 2
			}
		}
		env = append(env, "VERIF_PTKILL="+pk)
	}
	env = append(env, "VERIF_NODE_WORKER="+filepath.Join(harness, "node", "worker.js"))
	if cfg.race {
		// the first race report ends the process with the case in flight on disk
		env = append(env, "GORACE=halt_on_error=1 exitcode=66")
	}

	// 2. replay mode
	if replay != "" {
		abs, _ := filepath.Abs(replay)
		out := filepath.Join(scratch, "replay")
		os.MkdirAll(out, 0o755)
		renv := append(env, "VERIF_REPLAY="+abs, "VERIF_OUT="+out, "VERIF_SHARD=0", "VERIF_NSHARDS=1")
		o, err := runCmd(harness, renv, 10*time.Minute, testBin, "-test.run", "^TestReplay$", "-test.v", "-test.timeout", "9m")
		fmt.Println(tail(o, 6000))
		if err != nil {
			fmt.Printf("VIOLATION property=%s replay=%s\n", id, abs)
			return 1
		}
		fmt.Println("replay passed: the case no longer violates", id)
		return 0
	}

	violations := 0
	inconclusive := []string{}
	var vioLines, knownLines []string

	// 3. witnesses of known / fixed findings
	type finding struct {
		ID, Property, Status, Title, Witness string
		FixCommit                            string `json:"fix_commit"`
	}
	var fdoc struct {
		Findings []finding `json:"findings"`
	}
	if b, err := os.ReadFile(filepath.Join(root, "known_findings.json")); err == nil {
		if err := json.Unmarshal(b, &fdoc); err != nil {
			fmt.Println("INCONCLUSIVE: known_findings.json unreadable:", err)
			return 2
		}
	}
	witnessResults := map[string]string{}
	for _, f := range fdoc.Findings {
		if f.Property != id || f.Witness == "" {
			continue
		}
		w := filepath.Join(root, f.Witness)
		out := filepath.Join(scratch, "w-"+f.ID)
		os.MkdirAll(out, 0o755)
		renv := append(env, "VERIF_REPLAY="+w, "VERIF_OUT="+out, "VERIF_SHARD=0", "VERIF_NSHARDS=1")
		o, err := runCmd(harness, renv, 10*time.Minute, testBin, "-test.run", "^TestReplay$", "-test.timeout", "9m")
		failed := err != nil
		if failed && !strings.Contains(o, "--- FAIL") {
			inconclusive = append(inconclusive, "witness "+f.ID+" crashed: "+tail(o, 800))
			continue
		}
		switch f.Status {
		case "known":
			if failed {
				knownLines = append(knownLines, fmt.Sprintf("KNOWN-FINDING: property=%s %s %s", id, f.ID, f.Title))
				witnessResults[f.ID] = "still-fails"
			} else {
				fmt.Printf("note: known finding %s no longer reproduces on this tree\n", f.ID)
				witnessResults[f.ID] = "no-longer-reproduces"
			}
		case "fixed":
			if failed {
				dst := saveReplay(id, w)
				vioLines = append(vioLines, fmt.Sprintf("VIOLATION property=%s replay=%s", id, dst))
				fmt.Printf("fixed finding %s (%s) is back:\n%s\n", f.ID, f.FixCommit, tail(o, 1500))
				violations++
				witnessResults[f.ID] = "REGRESSED"
			} else {
				witnessResults[f.ID] = "fixed-holds"
			}
		}
	}

	// 4. campaign shards
	nsh := cfg.shardsQ
	timeout := cfg.timeoutQ
	if tier == "thorough" {
		nsh = cfg.shardsT
		timeout = cfg.timeoutT
	}
	outDir := filepath.Join(scratch, "out")
	os.MkdirAll(outDir, 0o755)
	type shardRes struct {
		i   int
		out string
		err error
	}
	results := make([]shardRes, nsh)
	var wg sync.WaitGroup
	for i := 0; i < nsh; i++ {
		wg.Add(1)
		go func(i int) {
			defer wg.Done()
			senv := append(append([]string{}, env...), "VERIF_OUT="+outDir, "VERIF_SHARD="+strconv.Itoa(i), "VERIF_NSHARDS="+strconv.Itoa(nsh))
			o, err := runCmd(harness, senv, timeout+time.Minute, testBin, "-test.run", "^TestCampaign", "-test.timeout", timeout.String())
			results[i] = shardRes{i, o, err}
		}(i)
	}
	wg.Wait()

	seenFail := map[string]bool{}
	for _, r := range results {
		if r.err == nil {
			continue
		}
		fails, _ := filepath.Glob(filepath.Join(outDir, fmt.Sprintf("fail-%d-*.json", r.i)))
		if len(fails) == 0 {
			inflight, _ := filepath.Glob(filepath.Join(outDir, fmt.Sprintf("inflight-%d-*.json", r.i)))
			if len(inflight) > 0 && !strings.Contains(r.out, "panic: test timed out") {
				for _, f := range inflight {
					dst := saveReplay(id, f)
					vioLines = append(vioLines, fmt.Sprintf("VIOLATION property=%s replay=%s", id, dst))
					violations++
				}
				fmt.Printf("shard %d died with a case in flight:\n%s\n", r.i, tail(r.out, 3000))
				continue
			}
			why := "shard " + strconv.Itoa(r.i) + " failed without a failing case"
			if strings.Contains(r.out, "panic: test timed out") {
				why = "shard " + strconv.Itoa(r.i) + " hit its time budget"
			}
			inconclusive = append(inconclusive, why+":\n"+tail(r.out, 3000))
			continue
		}
		for _, f := range fails {
			b, _ := os.ReadFile(f)
			var fl struct {
				Check   string
				Message string
			}
			json.Unmarshal(b, &fl)
			key := fl.Check + "|" + fl.Message
			if seenFail[key] {
				continue
			}
			seenFail[key] = true
			dst := saveReplay(id, f)
			vioLines = append(vioLines, fmt.Sprintf("VIOLATION property=%s replay=%s", id, dst))
			violations++
			fmt.Printf("--- shard %d: %s: %s\n", r.i, fl.Check, clip(fl.Message, 1500))
		}
	}

	// 5. native fuzzing (thorough tier only; a budget hit is not a failure)
	fuzzStats := map[string]interface{}{}
	if tier == "thorough" && len(cfg.fuzz) > 0 && violations == 0 && os.Getenv("VERIF_NOFUZZ") == "" {
		for _, target := range cfg.fuzz {
			n, crashers, out, err := runFuzz(cfg, target, scratch, env)
			fuzzStats[target] = map[string]interface{}{"execs": n, "crashers": len(crashers)}
			if err != nil && len(crashers) == 0 {
				inconclusive = append(inconclusive, "fuzz "+target+": "+tail(out, 1500))
			}
			for _, c := range crashers {
				dst := saveReplay(id, c)
				vioLines = append(vioLines, fmt.Sprintf("VIOLATION property=%s replay=%s", id, dst))
				violations++
				fmt.Printf("native fuzz %s crasher:\n%s\n", target, tail(out, 2500))
			}
		}
	}

	// 6. evidence
	ev, evErr := mergeEvidence(id, cfg, tier, seed, outDir, nsh, time.Since(start).Seconds(), violations, witnessResults, fuzzStats)
	if evErr != nil {
		inconclusive = append(inconclusive, "evidence: "+evErr.Error())
	}
	for _, l := range knownLines {
		fmt.Println(l)
	}
	for _, l := range vioLines {
		fmt.Println(l)
	}
	if violations > 0 {
		fmt.Printf("%s %s: %d violation(s) (%.1fs)\n", id, tier, violations, time.Since(start).Seconds())
		return 1
	}
	if len(inconclusive) > 0 {
		for _, s := range inconclusive {
			fmt.Println("INCONCLUSIVE:", s)
		}
		return 2
	}
	fmt.Printf("%s %s: held on %d cases (%d distinct non-trivial), %.1fs\n", id, tier, ev.eval, ev.distinct, time.Since(start).Seconds())
	return 0
}

func runFuzz(cfg propCfg, target, scratch string, env []string) (int64, []string, string, error) {
	// go test -fuzz needs the package sources; crashers are written to
	// <pkg>/testdata/fuzz/<target>/, which we move away afterwards.
	pkgDir := filepath.Join(harness, cfg.pkg)
	crashDir := filepath.Join(pkgDir, "testdata", "fuzz", target)
	before := map[string]bool{}
	if es, err := os.ReadDir(crashDir); err == nil {
		for _, e := range es {
			before[e.Name()] = true
		}
	}
	cache := filepath.Join(scratch, "fuzzcache-"+target)
	os.MkdirAll(cache, 0o755)
	fenv := append(append([]string{}, env...), "VERIF_OUT="+filepath.Join(scratch, "fuzzout"), "VERIF_SHARD=0", "VERIF_NSHARDS=1")
	os.MkdirAll(filepath.Join(scratch, "fuzzout"), 0o755)
	args := []string{"test", "-tags", "verif", "-vet=off", "-run", "^$", "-fuzz", "^" + target + "$", "-fuzztime", cfg.fuzzTime.String(), cfg.pkg, "-test.fuzzcachedir", cache}
	out, err := runCmd(harness, fenv, cfg.fuzzTime+10*time.Minute, "go", args...)
	var crashers []string
	if es, e2 := os.ReadDir(crashDir); e2 == nil {
		for _, e := range es {
			if !before[e.Name()] {
				src := filepath.Join(crashDir, e.Name())
				dst := filepath.Join(scratch, "crasher-"+target+"-"+e.Name())
				b, _ := os.ReadFile(src)
				wrap, _ := json.MarshalIndent(map[string]interface{}{"property": os.Getenv("VERIF_PROP"), "check": "native-fuzz:" + target, "case": map[string]string{"gofuzz": string(b)}, "message": tail(out, 1500)}, "", " ")
				os.WriteFile(dst, wrap, 0o644)
				os.Remove(src)
				crashers = append(crashers, dst)
			}
		}
	}
	var execs int64
	for _, line := range strings.Split(out, "\n") {
		if i := strings.Index(line, "execs: "); i >= 0 {
			f := strings.Fields(line[i+7:])
			if len(f) > 0 {
				if n, e := strconv.ParseInt(f[0], 10, 64); e == nil && n > execs {
					execs = n
				}
			}
		}
	}
	return execs, crashers, out, err
}

type evSummary struct{ eval, distinct int64 }

func mergeEvidence(id string, cfg propCfg, tier string, seed int64, outDir string, nsh int, wall float64, violations int, witness map[string]string, fuzz map[string]interface{}) (evSummary, error) {
	type part struct {
		Shard       int                    `json:"shard"`
		Evaluations int64                  `json:"evaluations"`
		Classes     map[string]int64       `json:"classes"`
		Excluded    map[string]int64       `json:"excluded"`
		KnownHits   map[string]int64       `json:"known_hits"`
		Skipped     map[string]int64       `json:"skipped"`
		Samples     []interface{}          `json:"samples"`
		Exhaustive  *bool                  `json:"exhaustive"`
		Extra       map[string]interface{} `json:"extra"`
		Sums        map[string]int64       `json:"sums"`
		Rule        string                 `json:"rule"`
		Assumptions []string               `json:"assumptions"`
		DistinctBC  int64                  `json:"distinct_by_construction"`
	}
	var eval, distinctBC int64
	classes, excluded, known, skipped := map[string]int64{}, map[string]int64{}, map[string]int64{}, map[string]int64{}
	extra := map[string]interface{}{}
	sums := map[string]int64{}
	samples := []interface{}{}
	rule := ""
	assumptions := []string{}
	seenAss := map[string]bool{}
	exhaustive := true
	haveExh := false
	distinct := map[uint64]struct{}{}
	parts := 0
	for i := 0; i < nsh; i++ {
		b, err := os.ReadFile(filepath.Join(outDir, fmt.Sprintf("part-%d.json", i)))
		if err != nil {
			continue
		}
		var p part
		if json.Unmarshal(b, &p) != nil {
			continue
		}
		parts++
		eval += p.Evaluations
		distinctBC += p.DistinctBC
		add := func(dst, src map[string]int64) {
			for k, v := range src {
				dst[k] += v
			}
		}
		add(classes, p.Classes)
		add(excluded, p.Excluded)
		add(known, p.KnownHits)
		add(skipped, p.Skipped)
		for k, v := range p.Extra {
			if _, ok := extra[k]; !ok {
				extra[k] = v
			}
		}
		add(sums, p.Sums)
		if len(samples) < 8 {
			for j, s := range p.Samples {
				if j < 2 || len(samples) < 4 {
					samples = append(samples, s)
				}
			}
		}
		if p.Rule != "" {
			rule = p.Rule
		}
		for _, a := range p.Assumptions {
			if !seenAss[a] {
				seenAss[a] = true
				assumptions = append(assumptions, a)
			}
		}
		if p.Exhaustive != nil {
			haveExh = true
			exhaustive = exhaustive && *p.Exhaustive
		}
		hb, _ := os.ReadFile(filepath.Join(outDir, fmt.Sprintf("hashes-%d.bin", i)))
		for j := 0; j+8 <= len(hb); j += 8 {
			distinct[binary.LittleEndian.Uint64(hb[j:])] = struct{}{}
		}
	}
	if len(samples) > 8 {
		samples = samples[:8]
	}
	cov := map[string]interface{}{
		"evaluations":         eval,
		"distinct_nontrivial": int64(len(distinct)) + distinctBC,
		"rule":                rule,
		"samples":             samples,
		"classes":             sortedMap(classes),
		"shards":              nsh,
		"shards_reported":     parts,
	}
	if len(excluded) > 0 {
		cov["excluded_by_construction"] = sortedMap(excluded)
	}
	if len(known) > 0 {
		cov["known_findings_hit"] = sortedMap(known)
	}
	if len(skipped) > 0 {
		cov["skipped"] = sortedMap(skipped)
	}
	if len(witness) > 0 {
		cov["witness_replays"] = witness
	}
	if len(fuzz) > 0 {
		cov["native_fuzz"] = fuzz
	}
	for k, v := range extra {
		if _, ok := cov[k]; !ok {
			cov[k] = v
		}
	}
	for k, v := range sums {
		if _, ok := cov[k]; !ok {
			cov[k] = v
		}
	}
	if haveExh && parts == nsh {
		cov["exhaustive"] = exhaustive
	}
	ev := map[string]interface{}{
		"property_id": id,
		"tier":        tier,
		"seed":        seed,
		"level":       cfg.level,
		"coverage":    cov,
		"assumptions": assumptions,
		"wall_s":      wall,
		"violations":  violations,
	}
	b, _ := json.MarshalIndent(ev, "", " ")
	os.MkdirAll(filepath.Join(root, "evidence"), 0o755)
	err := os.WriteFile(filepath.Join(root, "evidence", id+".json"), b, 0o644)
	if err == nil && parts < nsh && violations == 0 {
		err = fmt.Errorf("only %d of %d shards reported evidence", parts, nsh)
	}
	return evSummary{eval, int64(len(distinct)) + distinctBC}, err
}

func sortedMap(m map[string]int64) map[string]int64 { return m } // encoding/json sorts keys

func saveReplay(id, src string) string {
	b, err := os.ReadFile(src)
	if err != nil {
		return src
	}
	dir := filepath.Join(root, "replay", id)
	os.MkdirAll(dir, 0o755)
	dst := filepath.Join(dir, shaPrefix(b)+".json")
	os.WriteFile(dst, b, 0o644)
	return dst
}

func shaPrefix(b []byte) string {
	h := uint64(14695981039346656037)
	for _, c := range b {
		h ^= uint64(c)
		h *= 1099511628211
	}
	return fmt.Sprintf("%016x", h)
}

func runCmd(dir string, env []string, timeout time.Duration, name string, args ...string) (string, error) {
	cmd := exec.Command(name, args...)
	cmd.Dir = dir
	cmd.Env = env
	var buf lockedBuf
	cmd.Stdout = &buf
	cmd.Stderr = &buf
	cmd.SysProcAttr = &syscall.SysProcAttr{Setpgid: true}
	if err := cmd.Start(); err != nil {
		return "", err
	}
	done := make(chan error, 1)
	go func() { done <- cmd.Wait() }()
	select {
	case err := <-done:
		return buf.String(), err
	case <-time.After(timeout):
		syscall.Kill(-cmd.Process.Pid, syscall.SIGKILL)
		<-done
		return buf.String() + "\npanic: test timed out (driver kill)", fmt.Errorf("timeout")
	}
}

type lockedBuf struct {
	mu sync.Mutex
	b  bytes.Buffer
}

func (l *lockedBuf) Write(p []byte) (int, error) {
	l.mu.Lock()
	defer l.mu.Unlock()
	if l.b.Len() > 8<<20 {
		return len(p), nil
	}
	return l.b.Write(p)
}
func (l *lockedBuf) String() string { l.mu.Lock(); defer l.mu.Unlock(); return l.b.String() }

func tail(s string, n int) string {
	if len(s) > n {
		return "..." + s[len(s)-n:]
	}
	return s
}
func clip(s string, n int) string {
	if len(s) > n {
		return s[:n] + "..."
	}
	return s
}

var _ = io.EOF
var _ = sort.Strings
