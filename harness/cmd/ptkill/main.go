// ptkill runs a command under ptrace and either counts the file-system syscalls it
// issues (all threads and child processes, in global order) or kills the whole process
// at the entry of the k-th such syscall, i.e. with the disk frozen in the state after
// the (k-1)-th.
//
//	ptkill -count            -- cmd args...   prints "COUNT n" and one "SYS i name" line per call
//	ptkill -kill k           -- cmd args...   prints "KILLED k name" or "COMPLETED n" (fewer than k calls)
//
// Linux/amd64 only.
package main

import (
	"flag"
	"fmt"
	"os"
	"os/exec"
	"runtime"
	"syscall"
)

// the syscalls that change the file system (amd64 numbers)
var fsSyscalls = map[uint64]string{
	1:   "write",
	18:  "pwrite64",
	20:  "writev",
	2:   "open",
	257: "openat",
	437: "openat2",
	85:  "creat",
	3:   "close",
	82:  "rename",
	264: "renameat",
	316: "renameat2",
	87:  "unlink",
	263: "unlinkat",
	84:  "rmdir",
	83:  "mkdir",
	258: "mkdirat",
	90:  "chmod",
	91:  "fchmod",
	268: "fchmodat",
	92:  "chown",
	93:  "fchown",
	94:  "lchown",
	260: "fchownat",
	235: "utimes",
	261: "futimesat",
	280: "utimensat",
	88:  "symlink",
	266: "symlinkat",
	86:  "link",
	265: "linkat",
	76:  "truncate",
	77:  "ftruncate",
	74:  "fsync",
	75:  "fdatasync",
	285: "fallocate",
	40:  "sendfile",
	326: "copy_file_range",
}

const (
	oCreat  = 0x40
	oTrunc  = 0x200
	oWronly = 0x1
	oRdwr   = 0x2
)

// relevant decides whether this call counts as a boundary: writes to fd 0..2 (terminal / pipes of the harness)
// and read-only opens are not file-system changes.
func relevant(nr uint64, regs *syscall.PtraceRegs) bool {
	switch nr {
	case 1, 18, 20: // write family: fd in rdi
		return regs.Rdi > 2
	case 2: // open(path, flags)
		return regs.Rsi&(oCreat|oTrunc|oWronly|oRdwr) != 0
	case 257: // openat(dirfd, path, flags)
		return regs.Rdx&(oCreat|oTrunc|oWronly|oRdwr) != 0
	case 3: // close
		return regs.Rdi > 2
	}
	return true
}

func main() {
	count := flag.Bool("count", false, "count the file-system syscalls")
	kill := flag.Int("kill", 0, "kill at the entry of the k-th file-system syscall")
	report := flag.String("report", "", "file to write the report to (default standard error)")
	flag.Parse()
	out := os.Stderr
	defer func() { out.Close() }()
	args := flag.Args()
	if len(args) == 0 || (!*count && *kill <= 0) {
		fmt.Fprintln(os.Stderr, "usage: ptkill (-count | -kill k) -- cmd args...")
		os.Exit(2)
	}
	if *report != "" {
		f, err := os.Create(*report)
		if err != nil {
			fmt.Fprintln(os.Stderr, "ptkill:", err)
			os.Exit(2)
		}
		out = f
	}
	runtime.LockOSThread()
	cmd := exec.Command(args[0], args[1:]...)
	cmd.Stdin, cmd.Stdout, cmd.Stderr = os.Stdin, os.Stdout, os.Stderr
	cmd.SysProcAttr = &syscall.SysProcAttr{Ptrace: true}
	if err := cmd.Start(); err != nil {
		fmt.Fprintln(os.Stderr, "ptkill: start:", err)
		os.Exit(2)
	}
	pid := cmd.Process.Pid
	var ws syscall.WaitStatus
	if _, err := syscall.Wait4(pid, &ws, 0, nil); err != nil {
		fmt.Fprintln(os.Stderr, "ptkill: wait:", err)
		os.Exit(2)
	}
	opts := syscall.PTRACE_O_TRACESYSGOOD | syscall.PTRACE_O_TRACECLONE | syscall.PTRACE_O_TRACEFORK | syscall.PTRACE_O_TRACEVFORK | syscall.PTRACE_O_TRACEEXEC | 0x100000 /* PTRACE_O_EXITKILL */
	if err := syscall.PtraceSetOptions(pid, opts); err != nil {
		fmt.Fprintln(os.Stderr, "ptkill: setoptions:", err)
		os.Exit(2)
	}
	if err := syscall.PtraceSyscall(pid, 0); err != nil {
		fmt.Fprintln(os.Stderr, "ptkill: syscall:", err)
		os.Exit(2)
	}
	inSyscall := map[int]bool{}
	n := 0
	var log []string
	exitCode := 0
	for {
		tid, err := syscall.Wait4(-1, &ws, syscall.WALL, nil)
		if err != nil {
			break // no more tracees
		}
		if ws.Exited() || ws.Signaled() {
			if tid == pid {
				if ws.Exited() {
					exitCode = ws.ExitStatus()
				} else {
					exitCode = 128 + int(ws.Signal())
				}
			}
			delete(inSyscall, tid)
			continue
		}
		if !ws.Stopped() {
			continue
		}
		sig := ws.StopSignal()
		deliver := 0
		switch {
		case sig == syscall.SIGTRAP|0x80:
			// syscall stop: entry and exit alternate per thread
			if !inSyscall[tid] {
				inSyscall[tid] = true
				var regs syscall.PtraceRegs
				if err := syscall.PtraceGetRegs(tid, &regs); err == nil {
					if name, ok := fsSyscalls[regs.Orig_rax]; ok && relevant(regs.Orig_rax, &regs) {
						n++
						if *count {
							log = append(log, fmt.Sprintf("SYS %d %s", n, name))
						}
						if *kill > 0 && n == *kill {
							syscall.Kill(pid, syscall.SIGKILL)
							// reap everything
							for {
								if _, err := syscall.Wait4(-1, &ws, syscall.WALL, nil); err != nil {
									break
								}
							}
							fmt.Fprintf(out, "KILLED %d %s\n", n, name)
							out.Close()
							os.Exit(0)
						}
					}
				}
			} else {
				inSyscall[tid] = false
			}
		case sig == syscall.SIGTRAP && ws.TrapCause() > 0:
			// clone / fork / vfork / exec event: the new tracee starts with a SIGSTOP that is handled below
			if ws.TrapCause() == syscall.PTRACE_EVENT_EXEC {
				inSyscall[tid] = true // the stop after exec is the exit of execve
			}
		case sig == syscall.SIGSTOP:
			// initial stop of a new thread or process: do not deliver
		case sig == syscall.SIGTRAP:
			// plain trap (exec without TRACEEXEC): do not deliver
		default:
			deliver = int(sig)
		}
		syscall.PtraceSyscall(tid, deliver)
	}
	if *count {
		for _, l := range log {
			fmt.Fprintln(out, l)
		}
		fmt.Fprintf(out, "COUNT %d\n", n)
	} else {
		fmt.Fprintf(out, "COMPLETED %d\n", n)
	}
	if exitCode != 0 {
		fmt.Fprintf(out, "EXIT %d\n", exitCode)
	}
}
