package main

func main() {}
