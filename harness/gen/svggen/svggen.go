// Package svggen draws SVG path data and small SVG documents.
package svggen

import (
	"fmt"
	"strings"

	"pgregory.net/rapid"
)

type G struct {
	T     *rapid.T
	Feats map[string]int
	// guards for known findings
	NoCmdAfterClose bool // do not put an implicit-capable command right after Z
	NoBigExponent   bool
	// do not start a new smooth command (S/T) right after another curve command
	NoSmoothAfterCurve bool
	ents               bool // the document declares the entities st0 and c0
}

func (x *G) n(l string, max int) int           { return rapid.IntRange(0, max).Draw(x.T, l) }
func (x *G) pick(l string, xs []string) string { return rapid.SampledFrom(xs).Draw(x.T, l) }
func (x *G) chance(l string, oneIn int) bool   { return rapid.IntRange(0, oneIn-1).Draw(x.T, l) == 0 }

var coordPool = []string{"0", "1", "2", "5", "10", "-3", "-1", "0.5", ".5", "-.5", "1.5", "100", "3", "-10", "2.5", "1e1", "1E-1", "5.", "+2", "0.25", "12.75", "-0", "1000", "0.001", "1e3", "20", "4"}

func (x *G) Num() string {
	if x.chance("rarenum", 12) {
		pool := []string{"1e-7", "123456.789", "0.000001", "1e5", "3.14159265358979", "-1e-3", "00.5", "1e+2", "9.99999", "0.1e1", "1e9", "-1e6"}
		return x.pick("rarenumv", pool)
	}
	return x.pick("num", coordPool)
}

// join numbers with separators; a separator may be dropped where the next
// number starts with a sign, or with a dot after a number that already has a dot/exponent
func (x *G) args(nums []string) string {
	var sb strings.Builder
	for i, s := range nums {
		if i > 0 {
			prev := nums[i-1]
			canDrop := s[0] == '-' || s[0] == '+' || s[0] == '.' && (strings.ContainsAny(prev, ".eE"))
			sep := x.pick("sep", []string{" ", ",", " ", ", ", "  ", " ,", "\n", ""})
			if sep == "" && !canDrop {
				sep = " "
			}
			sb.WriteString(sep)
		}
		sb.WriteString(s)
	}
	return sb.String()
}

var cmdArgs = map[byte]int{'M': 2, 'L': 2, 'H': 1, 'V': 1, 'C': 6, 'S': 4, 'Q': 4, 'T': 2, 'A': 7, 'Z': 0}

// Path draws valid path data.
func (x *G) Path() string {
	var sb strings.Builder
	ncmd := 1 + x.n("ncmd", 8)
	sb.WriteString(x.pick("leadws", []string{"", "", " ", "\n "}))
	prevZ := false
	prevCurve := false
	for i := 0; i < ncmd; i++ {
		var c byte
		if i == 0 {
			c = 'M'
		} else {
			c = "MLHVCSQTAZLHVCSQTZLLCA"[x.n("cmd", 21)]
		}
		if prevZ && x.NoCmdAfterClose && c != 'M' && c != 'Z' {
			c = 'M'
		}
		if x.NoSmoothAfterCurve && (c == 'S' || c == 'T') && prevCurve {
			// known finding C05-smooth-after-degenerate-curve
			x.Feats["excluded:smooth-after-curve"]++
			c = 'L'
		}
		if c == 'C' || c == 'S' || c == 'Q' || c == 'T' {
			prevCurve = true
		} else if c == 'M' || c == 'Z' || c == 'A' {
			prevCurve = false // a (possibly zero-length, hence removed) line does not reset it: known finding C05-zero-line-before-smooth
		}
		rel := x.chance("rel", 2)
		letter := c
		if rel {
			letter = c | 0x20
		}
		x.Feats["cmd:"+string(letter)]++
		sb.WriteByte(letter)
		prevZ = c == 'Z'
		if c == 'Z' {
			sb.WriteString(x.pick("afterz", []string{"", " ", ""}))
			continue
		}
		sets := 1
		if x.chance("repeat", 3) {
			sets = 2 + x.n("sets", 2)
			x.Feats["implicit-repetition"]++
		}
		var nums []string
		for s := 0; s < sets; s++ {
			for k := 0; k < cmdArgs[c]; k++ {
				if c == 'A' && (k == 3 || k == 4) {
					nums = append(nums, x.pick("flag", []string{"0", "1"}))
				} else if c == 'A' && k < 2 {
					nums = append(nums, x.pick("radius", []string{"1", "2", "5", "0.5", "10", "0", "2.5"}))
				} else {
					nums = append(nums, x.Num())
				}
			}
		}
		lead := x.pick("cmdsp", []string{"", " ", ""})
		if c == 'A' && x.chance("compactflags", 3) {
			// compact arc flags: "a1 1 0 00.5.5"
			x.Feats["compact-arc-flags"]++
			var parts []string
			for s := 0; s < sets; s++ {
				a := nums[s*7 : s*7+7]
				tail := a[5]
				if tail[0] == '+' {
					tail = tail[1:]
				}
				parts = append(parts, x.args(a[:3])+" "+a[3]+a[4]+tail+x.pick("sep2", []string{" ", ","})+a[6])
			}
			sb.WriteString(lead + strings.Join(parts, " "))
		} else {
			sb.WriteString(lead + x.args(nums))
		}
		sb.WriteString(x.pick("aftercmd", []string{"", " ", ""}))
	}
	return sb.String()
}

var colors = []string{"red", "#f00", "#FF0000", "#ff0000", "blue", "Black", "#000", "#000000", "white", "#FFFFFF", "none", "currentColor", "url(#g)", "rgb(255,0,0)", "#abc", "#aabbcc", "#AbCdEf", "magenta", "#ff00ff", "fuchsia", "gray", "grey", "#808080", "transparent", "darkgoldenrod", "#c0c0c0", "silver"}
var lengths = []string{"0", "10", "10px", "1.50em", "100%", "0px", "0.0", "5.0mm", "1e2", ".5", "+3", "12.5PX", "0%", "2.540cm", "1E1px", "100.0"}

// Doc draws a small well-formed SVG document.
func (x *G) Doc(inline bool) string {
	var sb strings.Builder
	if !inline && x.chance("prolog", 3) {
		sb.WriteString("<?xml version=\"1.0\" encoding=\"UTF-8\"?>\n")
	}
	x.ents = false
	if !inline && x.chance("doctype", 4) {
		if x.chance("subset", 2) {
			// an internal subset that declares entities, the way some editors write styles and colours
			x.Feats["doctype-internal-subset"]++
			x.ents = true
			sb.WriteString("<!DOCTYPE svg [<!ENTITY st0 \"fill:#FF0000;\">" + x.pick("subsetws", []string{"", " ", "\n"}) + "<!ENTITY c0 '#00ff00'>]" + x.pick("subsetend", []string{"", " ", "\n"}) + ">\n")
		} else {
			sb.WriteString("<!DOCTYPE svg PUBLIC \"-//W3C//DTD SVG 1.1//EN\" \"http://www.w3.org/Graphics/SVG/1.1/DTD/svg11.dtd\">\n")
		}
	}
	if x.chance("comment0", 4) {
		sb.WriteString("<!-- c -->")
	}
	sb.WriteString("<svg xmlns=\"http://www.w3.org/2000/svg\" xmlns:xlink=\"http://www.w3.org/1999/xlink\"")
	if x.chance("inkscape", 3) {
		sb.WriteString(" xmlns:inkscape=\"http://www.inkscape.org/namespaces/inkscape\" inkscape:version=\"1.0\"")
		x.Feats["editor-namespace"]++
	}
	// root attributes with their default values and with others that merely look like them
	rootAttr := func(name string, vals []string) string { return name + "=\"" + x.pick("rootval:"+name, vals) + "\"" }
	for _, a := range []string{rootAttr("version", []string{"1.1", "1.1", "1.0", "1.2", "2", "1.10"}), rootAttr("x", []string{"0", "0", "0px", "5", "10px", "0.5"}), rootAttr("y", []string{"0px", "0", "00", "7", "0.0"}), "width=\"" + x.pick("w", lengths) + "\"", "height=\"" + x.pick("h", lengths) + "\"", "viewBox=\"" + x.pick("vb", []string{"0 0 100 100", "0,0,100,100", "0.0 0.0 1e2 100.00", " 0 0 10 10", "-5 -5 10.50 10"}) + "\"", rootAttr("preserveAspectRatio", []string{"xMidYMid meet", "xMidYMid meet", "xMidYMid slice", "xMidYMid", "none", "xMinYMin meet", "xMidYMax meet", "xMidYMid  meet"}), rootAttr("baseProfile", []string{"none", "none", "tiny", "full", "basic"}), rootAttr("contentScriptType", []string{"application/ecmascript", "text/javascript", "text/ecmascript"}), rootAttr("contentStyleType", []string{"text/css", "text/css", "text/x-foo"}), rootAttr("zoomAndPan", []string{"magnify", "disable"}), "xml:space=\"preserve\"", "xml:lang=\"en\"", "id=\"root\""} {
		if x.chance("rootattr", 3) {
			sb.WriteString(" " + a)
		}
	}
	sb.WriteString(">")
	n := 1 + x.n("nchildren", 5)
	for i := 0; i < n; i++ {
		sb.WriteString(x.pick("ws", []string{"", "\n", "  "}))
		sb.WriteString(x.element(2))
	}
	sb.WriteString("\n</svg>")
	return sb.String()
}

func (x *G) attr(name, val string) string {
	q := x.pick("q", []string{"\"", "\"", "'"})
	return " " + name + "=" + q + val + q
}

func (x *G) element(depth int) string {
	kind := x.n("elkind", 13)
	if depth <= 0 && (kind == 0 || kind == 8) {
		kind = 1
	}
	var sb strings.Builder
	switch kind {
	case 0:
		sb.WriteString("<g" + x.attr("id", fmt.Sprintf("g%d", x.n("gid", 9))))
		if x.chance("gfill", 2) {
			sb.WriteString(x.attr("fill", x.pick("color", colors)))
		}
		if x.chance("gtransform", 3) {
			sb.WriteString(x.attr("transform", x.pick("transform", []string{"translate(10,20)", "scale(2)", "rotate(45 0 0)", "matrix(1 0 0 1 0 0)"})))
		}
		sb.WriteString(">")
		for i, n := 0, x.n("gchildren", 3); i < n; i++ {
			sb.WriteString(x.pick("ws", []string{"", "\n", " "}) + x.element(depth-1))
		}
		sb.WriteString("</g>")
	case 1, 2, 3:
		x.Feats["path"]++
		sb.WriteString("<path" + x.attr("d", x.Path()))
		if x.chance("pstroke", 2) {
			sb.WriteString(x.attr("stroke", x.pick("color", colors)))
		}
		if x.chance("pfill", 2) {
			sb.WriteString(x.attr("fill", x.pick("color", colors)))
		}
		if x.chance("psw", 3) {
			sb.WriteString(x.attr("stroke-width", x.pick("len", lengths)))
		}
		sb.WriteString(x.pick("pathend", []string{"/>", "></path>", "> </path>"}))
	case 4:
		if x.ents && x.chance("useents", 2) {
			x.Feats["entity-reference-in-attribute"]++
			sb.WriteString("<rect width=\"1\" height=\"2\" style=\"&st0;\" stroke=\"&c0;\"/>")
			break
		}
		sb.WriteString("<rect" + x.attr("x", x.pick("len", lengths)) + x.attr("y", x.pick("len", lengths)) + x.attr("width", x.pick("len", lengths)) + x.attr("height", x.pick("len", lengths)) + x.attr("fill", x.pick("color", colors)) + "/>")
	case 5:
		x.Feats["use-xlink"]++
		href := x.pick("hrefattr", []string{"xlink:href", "href", "xlink:href"})
		sb.WriteString("<use" + x.attr(href, "#g1") + x.attr("x", x.pick("len", lengths)) + "/>")
	case 6:
		x.Feats["text"]++
		sb.WriteString("<text" + x.attr("x", "1") + x.attr("y", "2"))
		if x.chance("xmlspace", 3) {
			sb.WriteString(x.attr("xml:space", x.pick("xmlspacev", []string{"preserve", "default"})))
		}
		sb.WriteString(">" + x.pick("txt", []string{"Hello", " Hello  world ", "a &amp; b", "x<tspan dy=\"1\">y</tspan> z", "&lt;tag&gt;"}) + "</text>")
	case 7:
		x.Feats["style"]++
		css := x.pick("css", []string{"path { fill : red ; }", ".a{stroke:#ff0000}", "g > path { stroke-width : 1.0px }"})
		if x.chance("cdata", 2) {
			sb.WriteString("<style" + x.pick("styletype", []string{"", " type=\"text/css\""}) + "><![CDATA[" + css + "]]></style>")
		} else {
			sb.WriteString("<style>" + css + "</style>")
		}
	case 8:
		x.Feats["defs-gradient"]++
		sb.WriteString("<defs><linearGradient id=\"g\" x1=\"0\" y1=\"0\" x2=\"1\" y2=\"0.0\"><stop offset=\"0%\" stop-color=\"" + x.pick("color", colors) + "\"/><stop offset=\"1.0\" stop-color=\"#00F\" stop-opacity=\"0.50\"/></linearGradient></defs>")
	case 9:
		x.Feats["metadata"]++
		sb.WriteString("<metadata><rdf:RDF xmlns:rdf=\"http://www.w3.org/1999/02/22-rdf-syntax-ns#\"><rdf:x>t</rdf:x></rdf:RDF></metadata>")
	case 10:
		x.Feats["style-attr"]++
		sb.WriteString("<circle" + x.attr("cx", x.pick("len", lengths)) + x.attr("cy", "5") + x.attr("r", x.pick("len", lengths)) + x.attr("style", x.pick("styleattr", []string{"fill : red ; stroke : #FF0000", "opacity:0.50", "fill:url(#g)"})) + "/>")
	case 12:
		// foreignObject: its content is copied, what follows it is minified again
		x.Feats["foreignObject"]++
		switch x.n("fokind", 2) {
		case 0:
			sb.WriteString("<foreignObject" + x.pick("foattrs", []string{"", " width=\"10\" height=\"10\""}) + x.pick("foempty", []string{"></foreignObject>", "> </foreignObject>", "/>"}))
		case 1:
			sb.WriteString("<foreignObject width=\"10\" height=\"10\"><g class=\"a b\" id=\"fo" + fmt.Sprint(x.n("foid", 9)) + "\" data-t=\"1 &gt; 0\" data-q='&quot;'><text>t  x</text></g></foreignObject>")
		default:
			sb.WriteString("<foreignObject width=\"10\" height=\"10\"><div xmlns=\"http://www.w3.org/1999/xhtml\" class=\"a b\" title=\"1 &gt; 0\">t  x<br/></div></foreignObject>")
		}
	case 13:
		x.Feats["numeric-references"]++
		sb.WriteString("<g" + x.attr("id", "r"+fmt.Sprint(x.n("rid", 9))) + " data-t=\"" + x.pick("refattr", []string{"a&#60;b", "x&#38;y", "&#x3c;&#x26;", "&lt;&amp;&gt;", "&#62;"}) + "\"><text x=\"1\" y=\"2\">" + x.pick("reftext", []string{"1 &#60; 2 &#38; 3", "&#x3C;b&#x3E;", "a &amp;amp; b", "&#38;lt;"}) + "</text></g>")
	default:
		sb.WriteString("<polygon" + x.attr("points", x.pick("points", []string{"0,0 10,0 10,10", "0 0 1.50 2.0 3 4", " 1,1  2,2 "})) + "/>")
	}
	return sb.String()
}
