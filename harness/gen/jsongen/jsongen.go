// Package jsongen draws RFC 8259 JSON texts with every lexeme shape.
package jsongen

import (
	"fmt"
	"strings"

	"pgregory.net/rapid"
)

func ws(t *rapid.T) string {
	switch rapid.IntRange(0, 9).Draw(t, "ws") {
	case 0:
		return " "
	case 1:
		return "\n"
	case 2:
		return "\t \r\n"
	case 3:
		return "  "
	}
	return ""
}

func digits(t *rapid.T, label string, min, max int) string {
	n := rapid.IntRange(min, max).Draw(t, label+"n")
	b := make([]byte, n)
	kind := rapid.IntRange(0, 4).Draw(t, label+"k")
	for i := range b {
		switch kind {
		case 0:
			b[i] = '0'
		case 1:
			b[i] = '9'
		default:
			b[i] = byte('0' + rapid.IntRange(0, 9).Draw(t, label))
		}
	}
	return string(b)
}

// Number draws a JSON number lexeme of any shape.
func Number(t *rapid.T) string {
	var sb strings.Builder
	if rapid.IntRange(0, 3).Draw(t, "neg") == 0 {
		sb.WriteByte('-')
	}
	if rapid.IntRange(0, 3).Draw(t, "intzero") == 0 {
		sb.WriteByte('0')
	} else {
		sb.WriteByte(byte('1' + rapid.IntRange(0, 8).Draw(t, "lead")))
		sb.WriteString(digits(t, "int", 0, rapid.SampledFrom([]int{0, 2, 6, 25}).Draw(t, "intmax")))
	}
	if rapid.Bool().Draw(t, "frac") {
		sb.WriteByte('.')
		sb.WriteString(digits(t, "frac", 1, rapid.SampledFrom([]int{1, 3, 8, 30}).Draw(t, "fracmax")))
	}
	if rapid.IntRange(0, 2).Draw(t, "exp") == 0 {
		sb.WriteString(rapid.SampledFrom([]string{"e", "E"}).Draw(t, "e"))
		sb.WriteString(rapid.SampledFrom([]string{"", "+", "-"}).Draw(t, "esign"))
		switch rapid.IntRange(0, 6).Draw(t, "ekind") {
		case 0:
			sb.WriteString(rapid.SampledFrom([]string{"9223372036854775807", "9223372036854775808", "2147483648", "0000000000000000000000005", "4000000000000000000000000", "00"}).Draw(t, "ebig"))
		default:
			sb.WriteString(fmt.Sprint(rapid.IntRange(0, 330).Draw(t, "esmall")))
		}
	}
	return sb.String()
}

var strPieces = []string{
	"a", "b", "key", " ", "  ", "\\\"", "\\\\", "\\/", "/", "\\b", "\\f", "\\n", "\\r", "\\t", "\\u0000", "\\u001f", "\\u00e9", "\\uD83D\\uDE00",
	"\\uD800", "\\uDFFF", "\\u2028", "é", "😀", " ", "{", "}", "[", "]", ":", ",", "'", "</script>", "<!--", "1e5", "0.50", "true", "null", "\x7f", "\\u005C",
}

func String(t *rapid.T) string {
	n := rapid.IntRange(0, 6).Draw(t, "strn")
	var sb strings.Builder
	sb.WriteByte('"')
	for i := 0; i < n; i++ {
		sb.WriteString(rapid.SampledFrom(strPieces).Draw(t, "piece"))
	}
	sb.WriteByte('"')
	return sb.String()
}

func value(t *rapid.T, sb *strings.Builder, depth int) {
	k := rapid.IntRange(0, 9).Draw(t, "kind")
	if depth <= 0 && k >= 6 {
		k = k % 6
	}
	switch k {
	case 0, 1, 2:
		sb.WriteString(Number(t))
	case 3:
		sb.WriteString(String(t))
	case 4:
		sb.WriteString(rapid.SampledFrom([]string{"true", "false", "null"}).Draw(t, "lit"))
	case 5:
		sb.WriteString(rapid.SampledFrom([]string{"[]", "{}", "[ ]", "{\n}"}).Draw(t, "empty"))
	case 6, 7:
		n := rapid.IntRange(0, 4).Draw(t, "alen")
		sb.WriteByte('[')
		for i := 0; i < n; i++ {
			if i > 0 {
				sb.WriteByte(',')
			}
			sb.WriteString(ws(t))
			value(t, sb, depth-1)
			sb.WriteString(ws(t))
		}
		if n == 0 {
			sb.WriteString(ws(t))
		}
		sb.WriteByte(']')
	default:
		n := rapid.IntRange(0, 4).Draw(t, "olen")
		sb.WriteByte('{')
		for i := 0; i < n; i++ {
			if i > 0 {
				sb.WriteByte(',')
			}
			sb.WriteString(ws(t))
			if rapid.IntRange(0, 3).Draw(t, "dupkey") == 0 {
				sb.WriteString(rapid.SampledFrom([]string{`""`, `"a"`, `"a"`, `"a"`}).Draw(t, "key"))
			} else {
				sb.WriteString(String(t))
			}
			sb.WriteString(ws(t))
			sb.WriteByte(':')
			sb.WriteString(ws(t))
			value(t, sb, depth-1)
			sb.WriteString(ws(t))
		}
		if n == 0 {
			sb.WriteString(ws(t))
		}
		sb.WriteByte('}')
	}
}

// Text draws a complete JSON text. deep > 0 additionally wraps the value in up
// to deep levels of arrays/objects.
func Text(t *rapid.T, deep int) string {
	var sb strings.Builder
	sb.WriteString(ws(t))
	wrap := 0
	if deep > 0 && rapid.IntRange(0, 9).Draw(t, "deepwrap") == 0 {
		wrap = rapid.IntRange(1, deep).Draw(t, "wrapdepth")
	}
	closers := make([]byte, 0, wrap)
	for i := 0; i < wrap; i++ {
		if rapid.Bool().Draw(t, "wrapobj") {
			sb.WriteString(`{"k":`)
			closers = append(closers, '}')
		} else {
			sb.WriteString("[")
			if rapid.IntRange(0, 5).Draw(t, "wrappre") == 0 {
				sb.WriteString("1.0, ")
			}
			closers = append(closers, ']')
		}
	}
	value(t, &sb, rapid.IntRange(0, 5).Draw(t, "depth"))
	for i := len(closers) - 1; i >= 0; i-- {
		sb.WriteByte(closers[i])
	}
	sb.WriteString(ws(t))
	return sb.String()
}
