// Package seeds extracts input snippets from the repository's own test tables
// (the first string of every {"input", "expected"} composite literal) and its
// corpus / benchmark files, at run time, from /repo's working tree. They are the
// "small valid inputs from the repository's tests" used as a seed corpus; the
// expected strings are never used.
package seeds

import (
	"go/ast"
	"go/parser"
	"go/token"
	"os"
	"path/filepath"
	"sort"
	"strconv"
	"strings"
	"sync"

	"pgregory.net/rapid"
)

var Kinds = []string{"js", "html", "css", "svg", "xml", "json"}

var Mediatype = map[string]string{"js": "application/javascript", "html": "text/html", "css": "text/css", "svg": "image/svg+xml", "xml": "text/xml", "json": "application/json"}

var (
	mu    sync.Mutex
	cache = map[string][]string{}
)

func repo() string {
	if v := os.Getenv("VERIF_REPO"); v != "" {
		return v
	}
	return "/repo"
}

// Snippets returns the test-table inputs of one minifier package, sorted and de-duplicated.
func Snippets(kind string) []string {
	mu.Lock()
	defer mu.Unlock()
	if s, ok := cache[kind]; ok {
		return s
	}
	set := map[string]bool{}
	files, _ := filepath.Glob(filepath.Join(repo(), kind, "*_test.go"))
	for _, f := range files {
		fset := token.NewFileSet()
		af, err := parser.ParseFile(fset, f, nil, 0)
		if err != nil {
			continue
		}
		ast.Inspect(af, func(n ast.Node) bool {
			cl, ok := n.(*ast.CompositeLit)
			if !ok || len(cl.Elts) < 2 || cl.Type != nil {
				return true
			}
			first, ok1 := cl.Elts[0].(*ast.BasicLit)
			second, ok2 := cl.Elts[1].(*ast.BasicLit)
			if ok1 && ok2 && first.Kind == token.STRING && second.Kind == token.STRING {
				if s, err := strconv.Unquote(first.Value); err == nil && s != "" {
					set[s] = true
				}
			}
			return true
		})
	}
	out := make([]string, 0, len(set))
	for s := range set {
		out = append(out, s)
	}
	sort.Strings(out)
	cache[kind] = out
	return out
}

// Files returns corpus and benchmark files of a kind with size <= max (path -> content), sorted by path.
type File struct {
	Path string
	Data []byte
}

func Files(kind string, max int) []File {
	var paths []string
	m1, _ := filepath.Glob(filepath.Join(repo(), "tests", kind, "corpus", "*"))
	m2, _ := filepath.Glob(filepath.Join(repo(), "_benchmarks", "sample_*."+kind))
	paths = append(append(paths, m1...), m2...)
	sort.Strings(paths)
	var out []File
	for _, p := range paths {
		st, err := os.Stat(p)
		if err != nil || st.IsDir() || st.Size() == 0 || (max > 0 && st.Size() > int64(max)) {
			continue
		}
		b, err := os.ReadFile(p)
		if err == nil {
			out = append(out, File{p, b})
		}
	}
	return out
}

var joiner = map[string][]string{
	"js":   {";", "\n", ";\n", " ; "},
	"css":  {"", "\n", " "},
	"html": {"", "\n", " "},
}

// Doc draws a document of the given kind from the repository snippets: a single
// snippet or a composition of several (joined for js/css/html, wrapped for
// json/xml/svg).
func Doc(t *rapid.T, kind string) string {
	sn := Snippets(kind)
	if len(sn) == 0 {
		return ""
	}
	n := rapid.SampledFrom([]int{1, 1, 2, 3, 5, 8}).Draw(t, "nsnip")
	parts := make([]string, n)
	for i := range parts {
		parts[i] = sn[rapid.IntRange(0, len(sn)-1).Draw(t, "snip")]
	}
	if n == 1 {
		return parts[0]
	}
	switch kind {
	case "json":
		return "[" + strings.Join(parts, ", ") + "]"
	case "xml":
		for i, p := range parts { // prologs / doctypes may only come first
			if i > 0 && (strings.HasPrefix(p, "<?xml") || strings.HasPrefix(p, "<!DOCTYPE")) {
				parts[i] = "<x/>"
			}
		}
		return "<root>" + strings.Join(parts, "") + "</root>"
	case "svg":
		return strings.Join(parts, "")
	}
	j := rapid.SampledFrom(joiner[kind]).Draw(t, "join")
	return strings.Join(parts, j)
}
