// Package htmlgen draws conforming HTML documents and body fragments from the
// content models and serialises them with syntactic freedom (optional tags,
// quoting, character references, whitespace, comments).
package htmlgen

import (
	"fmt"
	"strings"

	"pgregory.net/rapid"
)

type Node struct {
	Tag   string // "" text, "!" comment
	Text  string
	Attrs [][2]string
	Kids  []*Node
}

type G struct {
	T           *rapid.T
	Feats       map[string]int
	Guards      map[string]bool
	budget      int
	tbodyNeeded bool
	// payloads for raw text elements / attributes (C11 may override)
	Script func() string
	Style  func() string
}

func (x *G) n(l string, max int) int           { return rapid.IntRange(0, max).Draw(x.T, l) }
func (x *G) pick(l string, xs []string) string { return rapid.SampledFrom(xs).Draw(x.T, l) }
func (x *G) chance(l string, oneIn int) bool   { return rapid.IntRange(0, oneIn-1).Draw(x.T, l) == 0 }
func (x *G) guard(g string) bool               { return x.Guards != nil && x.Guards[g] }

var words = []string{"a", "b", "word", "x1", "é", "two", "&amp;", "&lt;", "&gt;", "&quot;", "&#39;", "&#x41;", "&copy;", "&nbsp;", "&eacute;", "&Aacute;", "&ApplyFunction;", "AT&T", "a&b", "1<2", "=", "'", "\"", "-", "&#x3C;", "&#60;b&#62;", "&hellip;"}
var spaces = []string{" ", "  ", "\n", "\t", " \n ", "\r\n", "\f"}

func (x *G) text() *Node {
	var sb strings.Builder
	n := 1 + x.n("textn", 4)
	if x.chance("leadsp", 2) {
		sb.WriteString(x.pick("sp", spaces))
	}
	for i := 0; i < n; i++ {
		if i > 0 {
			sb.WriteString(x.pick("sp", spaces))
		}
		sb.WriteString(x.pick("word", words))
	}
	if x.chance("trailsp", 2) {
		sb.WriteString(x.pick("sp", spaces))
	}
	return &Node{Text: sb.String()}
}

func (x *G) wsText() *Node { return &Node{Text: x.pick("sp", spaces)} }

func (x *G) comment() *Node {
	x.Feats["comment"]++
	return &Node{Tag: "!", Text: x.pick("comment", []string{" c ", "", "[if IE]>x<![endif]", "#include virtual=\"a\" ", "a-b", " <b> ", "[if lt IE 9]><ul><li class=\"a\">one</li> <li>two</li></ul><![endif]", "[if IE]><p title=\"t\">a  b</p><input type=\"text\" value=\"v\"><form method=\"get\"></form><![endif]", "[if gt IE 8]><table><tr><td colspan=\"1\">x</td></tr></table> <b>y</b><![endif]"})}
}

var attrValues = []string{"v", "a b", " a  b ", "", "x=y", "it's", "say \"hi\"", "a&amp;b", "a&b", "&lt;", "1", "#id", "a>b", "a<b", "`", "a`b", "é", "&#34;", "&quot;x&#39;", "a\nb", " ", "/", "a/", "x y z", "&notit;", "=", "a=b c=d"}

func (x *G) attrs(tag string) [][2]string {
	var out [][2]string
	used := map[string]bool{}
	add := func(k, v string) {
		if !used[k] {
			used[k] = true
			out = append(out, [2]string{k, v})
		}
	}
	n := x.n("nattrs", 3)
	for i := 0; i < n; i++ {
		switch x.n("attrkind", 9) {
		case 0:
			add("class", x.pick("class", []string{"a", " a  b ", "", "A", "x y"}))
		case 1:
			add("id", x.pick("id", []string{"i1", "", " i2 ", "a-b"}))
		case 2:
			add("title", x.pick("attrval", attrValues))
		case 3:
			if x.chance("rnddata", 2) {
				// any name: the minifier knows a fixed set of attributes, all others are kept with their values
				x.Feats["random-data-attribute"]++
				add("data-"+rapid.StringMatching("[a-z]{2,9}").Draw(x.T, "rnddataname"), x.pick("attrval", attrValues))
			} else {
				add("data-x", x.pick("attrval", attrValues))
			}
		case 4:
			add(x.pick("boolattr", []string{"hidden", "disabled", "checked", "selected", "readonly", "required", "multiple", "open", "async", "defer"}), x.pick("boolval", []string{"", "x", "disabled", "true"}))
		case 5:
			add("lang", x.pick("lang", []string{"en", " en ", "EN-us"}))
		case 6:
			add("dir", x.pick("dir", []string{"ltr", "", "rtl", " auto "}))
		case 7:
			add("style", x.pick("styleattr", []string{"color:red", " color : red ; ", "", "display:none", "margin:0 0 0 0"}))
		case 8:
			add("onclick", x.pick("onclick", []string{"f()", " f() ", "javascript:f()", "JavaScript: f(1)", ""}))
		default:
			add("tabindex", x.pick("tabindex", []string{"0", " 1 ", "-1"}))
		}
	}
	switch tag {
	case "a":
		if x.chance("href", 2) {
			add("href", x.pick("href", []string{"http://example.com/", "HTTP://Example.com/A", " https://x.y/z ", "/rel?a=1&b=2", "/rel?a=1&amp;b=2", "#f", "mailto:a@b", "data:text/plain;base64,YWJj", "javascript:void(0)", "a b", "//cdn/x"}))
		}
		if x.chance("aname", 4) {
			add("name", "i1")
		}
		if x.chance("atype", 5) {
			add("type", x.pick("mt", []string{"text/html", "Text/HTML; charset=UTF-8", " text/plain "}))
		}
	case "img":
		add("src", x.pick("src", []string{"a.png", " a.png ", "data:image/png;base64,AAAA", "http://h/a b.png"}))
		if x.chance("alt", 2) {
			add("alt", x.pick("attrval", attrValues))
		}
	case "input":
		if x.chance("itype", 2) {
			add("type", x.pick("itype", []string{"text", "TEXT", "radio", "checkbox", " text ", "submit", "hidden"}))
		}
		if x.chance("ivalue", 2) {
			add("value", x.pick("ivalue", []string{"", "on", "v", " x ", "ON"}))
		}
		x.formOverrides(add)
		if x.chance("ipattern", 6) {
			x.Feats["pattern-attribute"]++
			add("pattern", x.pick("ipatternv", []string{"a  b", " [a-z]+ ", "\\d{3}", "x|y  "}))
		}
	case "form":
		if x.chance("fattrs", 2) {
			add("method", x.pick("method", []string{"get", "GET", "post", " get "}))
			add("action", x.pick("action", []string{"", "/a", " /a "}))
		}
		if x.chance("enctype", 3) {
			add("enctype", x.pick("enctype", []string{"application/x-www-form-urlencoded", "multipart/form-data", "Multipart/Form-Data"}))
		}
	case "td", "th":
		if x.chance("span", 3) {
			add(x.pick("spanattr", []string{"colspan", "rowspan"}), x.pick("spanval", []string{"1", "2", " 1 ", "01"}))
		}
	case "button":
		if x.chance("btype", 2) {
			add("type", x.pick("btype", []string{"submit", "button", "SUBMIT", "reset"}))
		}
		x.formOverrides(add)
	case "script":
		if x.chance("stype", 2) {
			add("type", x.pick("stype", []string{"text/javascript", "application/javascript", "Text/JavaScript", "module", "application/ld+json", "text/template", "text/javascript; charset=utf-8"}))
		}
	case "style":
		if x.chance("sttype", 2) {
			add("type", x.pick("sttype", []string{"text/css", "TEXT/CSS", "text/less"}))
		}
		if x.chance("stmedia", 3) {
			add("media", x.pick("media", []string{"all", "screen", "ALL", " all "}))
		}
	case "meta":
		switch x.n("metakind", 3) {
		case 0:
			add("charset", x.pick("charset", []string{"utf-8", "UTF-8", " utf-8 "}))
		case 1:
			add("http-equiv", x.pick("httpequiv", []string{"content-type", "Content-Type", " content-type "}))
			add("content", x.pick("ctcontent", []string{"text/html; charset=utf-8", "text/html; charset=UTF-8", "text/html;charset=iso-8859-1", "TEXT/HTML; CHARSET=UTF-8"}))
		case 2:
			add("name", x.pick("metaname", []string{"keywords", "viewport", "description", "Keywords"}))
			add("content", x.pick("metacontent", []string{"a, b, c", "width=device-width, initial-scale=1.0", "width=device-width,initial-scale=0.50", "Some  text, here", "initial-scale=1.0, maximum-scale=2.00", "width=device-width initial-scale=1", " width = device-width ,  initial-scale = 1 ", "width=device-width;initial-scale=1"}))
		default:
			add("name", "x")
			add("content", x.pick("attrval", attrValues))
		}
	case "link":
		add("rel", x.pick("rel", []string{"stylesheet", " stylesheet ", "icon"}))
		add("href", "a.css")
		if x.chance("ltype", 2) {
			add("type", x.pick("ltype", []string{"text/css", "Text/CSS", "image/png"}))
		}
	}
	return out
}

var phrasingTags = []string{"span", "b", "i", "em", "strong", "a", "code", "small", "sub", "abbr", "u", "label", "q", "s", "mark"}

// formOverrides: the attributes of a submit button that override those of its form. They have no default of their own:
// formmethod=get on a button of a form with method=post is not the same as no formmethod
func (x *G) formOverrides(add func(k, v string)) {
	if !x.chance("formoverride", 4) {
		return
	}
	x.Feats["form-override-attribute"]++
	switch x.n("formoverridekind", 2) {
	case 0:
		add("formmethod", x.pick("formmethod", []string{"get", "GET", "post", "dialog"}))
	case 1:
		add("formenctype", x.pick("formenctype", []string{"application/x-www-form-urlencoded", "multipart/form-data", "text/plain"}))
	default:
		add("formaction", x.pick("formaction", []string{"/a", "", " /b "}))
	}
}

func (x *G) phrasing(depth int, inA bool) []*Node {
	var out []*Node
	n := 1 + x.n("nphr", 4)
	for i := 0; i < n && x.budget > 0; i++ {
		x.budget--
		k := x.n("phrkind", 11)
		switch {
		case k <= 3 || depth <= 0:
			out = append(out, x.text())
		case k <= 6:
			tag := x.pick("ptag", phrasingTags)
			if tag == "a" && inA || tag == "label" && inA {
				tag = "span"
			}
			if x.chance("rndcustom", 6) {
				// a custom element of any name: an unknown element, inline, its tags are never omitted
				x.Feats["random-custom-element"]++
				tag = rapid.StringMatching("[a-z]{1,3}-[a-z]{2,8}").Draw(x.T, "rndcustomname")
			}
			el := &Node{Tag: tag, Attrs: x.attrs(tag)}
			if !x.chance("emptyinline", 8) {
				el.Kids = x.phrasing(depth-1, inA || tag == "a")
			} else {
				x.Feats["empty-inline"]++
			}
			out = append(out, el)
		case k == 7:
			x.Feats["atom"]++
			tag := x.pick("atom", []string{"img", "input", "br", "wbr", "img"})
			if inA && tag == "input" {
				tag = "img"
			}
			out = append(out, &Node{Tag: tag, Attrs: x.attrs(tag)})
		case k == 8:
			out = append(out, x.comment())
		case k == 9 && !inA:
			x.Feats["button/select/textarea"]++
			switch x.n("widget", 2) {
			case 0:
				out = append(out, &Node{Tag: "button", Attrs: x.attrs("button"), Kids: []*Node{x.text()}})
			case 1:
				sel := &Node{Tag: "select", Attrs: x.attrs("select")}
				for j, m := 0, 1+x.n("nopt", 2); j < m; j++ {
					sel.Kids = append(sel.Kids, &Node{Tag: "option", Attrs: x.attrs("option"), Kids: []*Node{x.text()}})
				}
				if x.chance("optgroup", 3) {
					og := &Node{Tag: "optgroup", Attrs: [][2]string{{"label", "g"}}, Kids: []*Node{{Tag: "option", Kids: []*Node{x.text()}}}}
					sel.Kids = append(sel.Kids, og)
					if x.chance("afteroptgroup", 2) {
						// an option after the group, possibly with a comment in between: the group must still end before it
						if x.chance("optgroupcomment", 2) {
							x.Feats["comment-after-optgroup"]++
							sel.Kids = append(sel.Kids, &Node{Tag: "!", Text: " c "})
						}
						sel.Kids = append(sel.Kids, &Node{Tag: "option", Kids: []*Node{x.text()}})
					}
				}
				out = append(out, sel)
			default:
				out = append(out, &Node{Tag: "textarea", Kids: []*Node{{Text: x.pick("tatext", []string{" a  b ", "\nx\n", "<b> &amp; </b>", "", "  "})}}})
			}
		case k == 10:
			x.Feats["ruby"]++
			rb := &Node{Tag: "ruby"}
			rb.Kids = append(rb.Kids, &Node{Text: "base"})
			if x.chance("rp", 2) {
				rb.Kids = append(rb.Kids, &Node{Tag: "rp", Kids: []*Node{{Text: "("}}})
			}
			rb.Kids = append(rb.Kids, &Node{Tag: "rt", Kids: []*Node{{Text: "anno"}}})
			if x.chance("rp2", 2) {
				rb.Kids = append(rb.Kids, &Node{Tag: "rp", Kids: []*Node{{Text: ")"}}})
			}
			if x.chance("rubytail", 2) && !x.guard("noTextAfterRubyPart") {
				rb.Kids = append(rb.Kids, &Node{Text: " tail"})
			}
			out = append(out, rb)
		default:
			out = append(out, x.text())
		}
	}
	return out
}

var blockTags = []string{"div", "p", "section", "article", "blockquote", "h1", "h2", "ul", "ol", "dl", "table", "pre", "form", "details", "figure", "header", "footer", "aside", "nav", "main", "address", "fieldset", "hr", "a", "ins", "del"}

func (x *G) flow(depth int, inForm bool) []*Node {
	var out []*Node
	n := 1 + x.n("nflow", 4)
	for i := 0; i < n && x.budget > 0; i++ {
		x.budget--
		k := x.n("flowkind", 9)
		switch {
		case k <= 2 || depth <= 0:
			out = append(out, x.phrasing(depth, false)...)
		case k == 3:
			out = append(out, x.comment())
		case k == 4:
			out = append(out, x.wsText())
		case k == 5 && !x.guard("noRawInFlow"):
			out = append(out, x.raw(true))
		case k == 6 && x.chance("transparentbox", 3):
			// transparent and custom elements around a paragraph: their end tags do not close the p
			x.Feats["p-in-slot-or-custom-element"]++
			box := &Node{Tag: x.pick("boxtag", []string{"slot", "my-el", "x-box", "ins", "del"}), Kids: []*Node{{Tag: "p", Kids: x.phrasing(depth-1, false)}}}
			if strings.Contains(box.Tag, "-") && x.chance("customattrs", 2) {
				// names that are boolean attributes elsewhere carry values here
				box.Attrs = [][2]string{{x.pick("customattr", []string{"selected", "open", "loop", "default", "required"}), x.pick("customattrv", []string{"2", "left", "x y", "false"})}}
			}
			out = append(out, box, x.text())
		default:
			tag := x.pick("btag", blockTags)
			if tag == "form" && inForm {
				tag = "div"
			}
			out = append(out, x.block(tag, depth-1, inForm))
		}
	}
	return out
}

func (x *G) raw(inFlow bool) *Node {
	// known finding C03-space-around-unrendered: style (block trait) between words loses both spaces; in the head
	// there are no words around it
	if x.chance("style", 2) && !(inFlow && x.guard("noStyleBetweenWords")) {
		x.Feats["style"]++
		css := "a{color:red}"
		if x.Style != nil {
			css = x.Style()
		} else {
			css = x.pick("css", []string{"a { color : red }", "", " ", "p>b{margin:0 0 0 0}", "/* c */ a{}", "a:after{content:\"</b>\"}"})
		}
		return &Node{Tag: "style", Attrs: x.attrs("style"), Kids: []*Node{{Text: css}}}
	}
	x.Feats["script"]++
	js := "x=1"
	if x.Script != nil {
		js = x.Script()
	} else {
		js = x.pick("js", []string{"var a = 1 ;", "", " ", "if (a < b && c > d) { f(\"</p>\") }", "x = '<\\/script>'", "// c\nf()", "document.write(\"<b>\")", "a = 1 <!-- c\n", "x = `t`", "x=a< /script /.test(b)", "x=a< /SCRIPT>/i.test(b)", "x=\"<\"+\"!--\";y=\"<\"+\"script>\"", "var s = \"\\x3c!--\\x3cscript>\";", "x=\"<\\/script-x>\""})
	}
	return &Node{Tag: "script", Attrs: x.attrs("script"), Kids: []*Node{{Text: js}}}
}

func (x *G) listItems(tag string, depth int) []*Node {
	var out []*Node
	n := 1 + x.n("nitems", 3)
	for i := 0; i < n; i++ {
		if x.chance("listws", 2) {
			out = append(out, x.wsText())
		}
		if x.chance("listcomment", 8) {
			out = append(out, x.comment())
		}
		if x.chance("listscript", 12) && !x.guard("noScriptBetweenItems") {
			x.Feats["script-supporting-in-list"]++
			out = append(out, &Node{Tag: "script", Kids: []*Node{{Text: "s()"}}})
		}
		li := &Node{Tag: tag, Attrs: x.attrs(tag)}
		if x.chance("blockinli", 3) && depth > 0 {
			li.Kids = x.flow(depth-1, false)
		} else {
			li.Kids = x.phrasing(depth, false)
		}
		out = append(out, li)
	}
	if x.chance("listws", 2) {
		out = append(out, x.wsText())
	}
	return out
}

func (x *G) block(tag string, depth int, inForm bool) *Node {
	x.Feats["block:"+tag]++
	el := &Node{Tag: tag, Attrs: x.attrs(tag)}
	switch tag {
	case "p", "h1", "h2", "address":
		el.Kids = x.phrasing(depth, false)
		if tag == "p" && x.chance("emptyp", 10) {
			el.Kids = nil
		}
	case "pre":
		el.Kids = []*Node{{Text: x.pick("pretext", []string{"\n  a  b\n", " x ", "\n\nline", "a\tb", "  "})}}
		if x.chance("preinline", 3) {
			el.Kids = append(el.Kids, &Node{Tag: "b", Kids: []*Node{{Text: " c  d "}}}, &Node{Text: "  e\n"})
		}
	case "ul", "ol":
		el.Kids = x.listItems("li", depth)
	case "dl":
		n := 1 + x.n("ndl", 2)
		for i := 0; i < n; i++ {
			if x.chance("dlws", 2) {
				el.Kids = append(el.Kids, x.wsText())
			}
			el.Kids = append(el.Kids, &Node{Tag: "dt", Kids: x.phrasing(depth, false)})
			if x.chance("dlws2", 3) {
				el.Kids = append(el.Kids, x.wsText())
			}
			el.Kids = append(el.Kids, &Node{Tag: "dd", Kids: x.phrasing(depth, false)})
		}
	case "table":
		x.Feats["table"]++
		if x.chance("caption", 3) {
			el.Kids = append(el.Kids, &Node{Tag: "caption", Kids: x.phrasing(depth, false)})
		}
		if x.chance("colgroup", 4) {
			el.Kids = append(el.Kids, &Node{Tag: "colgroup", Attrs: x.pickAttrs(), Kids: []*Node{{Tag: "col", Attrs: [][2]string{{"span", x.pick("colspan", []string{"1", "2"})}}}}})
			if x.chance("colgroup2", 2) {
				// a second group: its columns must not end up in the first one
				x.Feats["two-colgroups"]++
				el.Kids = append(el.Kids, &Node{Tag: "colgroup", Attrs: x.pickAttrs(), Kids: []*Node{{Tag: "col"}}})
			}
		}
		sections := []string{"tbody"}
		if x.chance("thead", 3) {
			sections = []string{"thead", "tbody"}
		}
		if x.chance("tfoot", 4) {
			sections = append(sections, "tfoot")
		}
		for _, s := range sections {
			sec := &Node{Tag: s}
			for r, nr := 0, 1+x.n("nrows", 1); r < nr; r++ {
				tr := &Node{Tag: "tr"}
				for c, nc := 0, 1+x.n("ncells", 2); c < nc; c++ {
					cell := "td"
					if s == "thead" || x.chance("th", 5) {
						cell = "th"
					}
					if x.chance("cellws", 3) {
						tr.Kids = append(tr.Kids, x.wsText())
					}
					tr.Kids = append(tr.Kids, &Node{Tag: cell, Attrs: x.attrs(cell), Kids: x.phrasing(depth, false)})
				}
				if x.chance("rowws", 3) {
					sec.Kids = append(sec.Kids, x.wsText())
				}
				if x.chance("rowcomment", 8) {
					x.Feats["comment-between-table-rows"]++
					sec.Kids = append(sec.Kids, &Node{Tag: "!", Text: " r "})
				}
				sec.Kids = append(sec.Kids, tr)
			}
			el.Kids = append(el.Kids, sec)
			if x.chance("seccomment", 4) {
				// a comment between two sections: with comments kept it stands between an end tag and what would re-open the section
				x.Feats["comment-between-table-sections"]++
				el.Kids = append(el.Kids, &Node{Tag: "!", Text: x.pick("seccommenttext", []string{" rows ", "c", ""})})
			}
			if x.chance("secws", 3) {
				el.Kids = append(el.Kids, x.wsText())
			}
		}
	case "details":
		el.Kids = append([]*Node{{Tag: "summary", Kids: x.phrasing(depth, false)}}, x.flow(depth, inForm)...)
	case "figure":
		el.Kids = x.flow(depth, inForm)
		if x.chance("figcaption", 2) {
			el.Kids = append(el.Kids, &Node{Tag: "figcaption", Kids: x.phrasing(depth, false)})
		}
	case "fieldset":
		el.Kids = append([]*Node{{Tag: "legend", Kids: x.phrasing(depth, false)}}, x.flow(depth, inForm)...)
	case "a", "ins", "del":
		// transparent content model: flow content inside, typically ending in a paragraph
		x.Feats["transparent-with-flow"]++
		el.Attrs = nil
		el.Kids = []*Node{{Tag: "p", Kids: x.phrasing(depth, tag == "a")}}
		if x.chance("twop", 2) {
			el.Kids = append(el.Kids, &Node{Tag: "p", Kids: x.phrasing(depth, tag == "a")})
		}
		if x.chance("tailtext", 3) {
			el.Kids = append(el.Kids, x.text())
		}
	case "hr":
		el.Attrs = nil
	case "form":
		el.Kids = x.flow(depth, true)
	default:
		el.Kids = x.flow(depth, inForm)
	}
	return el
}

func (x *G) pickAttrs() [][2]string {
	if x.chance("cgattr", 2) {
		return [][2]string{{"class", "c"}}
	}
	return nil
}

// Doc draws a document (with doctype) or a body fragment.
type Doc struct {
	Fragment bool
	Src      string // serialised with syntactic freedom
	Explicit string // the same DOM with every tag written out and canonical quoting: parse(Src) must equal parse(Explicit)
}

// explicit serialisation (no random choices)
func explicitAttrs(attrs [][2]string) string {
	var sb strings.Builder
	for _, a := range attrs {
		sb.WriteString(" " + a[0] + "=\"" + strings.ReplaceAll(a[1], "\"", "&quot;") + "\"")
	}
	return sb.String()
}

func explicitNode(sb *strings.Builder, n *Node) {
	switch n.Tag {
	case "":
		sb.WriteString(n.Text)
		return
	case "!":
		sb.WriteString("<!--" + n.Text + "-->")
		return
	}
	sb.WriteString("<" + n.Tag + explicitAttrs(n.Attrs) + ">")
	if voidTags[n.Tag] {
		return
	}
	if (n.Tag == "pre" || n.Tag == "textarea") && len(n.Kids) > 0 && strings.HasPrefix(n.Kids[0].Text, "\n") {
		sb.WriteString("\n")
	}
	for _, k := range n.Kids {
		explicitNode(sb, k)
	}
	sb.WriteString("</" + n.Tag + ">")
}

func (x *G) Gen() Doc {
	x.budget = 8 + x.n("budget", 50)
	frag := x.chance("fragment", 2)
	body := x.flow(2+x.n("depth", 1), false)
	d := Doc{Fragment: frag}
	var sb strings.Builder
	var ex strings.Builder
	if frag {
		x.serialiseList(&sb, body, "body", nil)
		d.Src = sb.String()
		for _, k := range body {
			explicitNode(&ex, k)
		}
		d.Explicit = ex.String()
		return d
	}
	sb.WriteString(x.pick("doctype", []string{"<!DOCTYPE html>", "<!doctype html>", "<!DOCTYPE HTML>\n", "<!DOCTYPE html >"}))
	head := []*Node{}
	if x.chance("title", 2) {
		head = append(head, &Node{Tag: "title", Kids: []*Node{{Text: x.pick("title", []string{"T", " a  b ", "x &amp; y", "<b>"})}}})
	}
	for i, n := 0, x.n("nmeta", 2); i < n; i++ {
		tag := x.pick("headtag", []string{"meta", "meta", "link"})
		head = append(head, &Node{Tag: tag, Attrs: x.attrs(tag)})
	}
	if x.chance("headstyle", 3) {
		head = append(head, x.raw(false))
	}
	htmlAttrs := [][2]string(nil)
	if x.chance("htmllang", 3) {
		htmlAttrs = [][2]string{{"lang", "en"}}
	}
	// explicit or implied document tags
	explicit := x.chance("explicittags", 2)
	var bodyAttrs [][2]string
	if explicit || htmlAttrs != nil {
		sb.WriteString("<html" + x.attrString(htmlAttrs) + ">")
	}
	if explicit || len(head) > 0 && x.chance("headtag", 2) {
		sb.WriteString(x.pick("ws", []string{"", "\n"}) + "<head>")
		x.serialiseList(&sb, head, "head", nil)
		sb.WriteString("</head>" + x.pick("ws", []string{"", "\n"}))
	} else {
		x.serialiseList(&sb, head, "head", nil)
	}
	// body start tag may only be omitted if the body does not start with whitespace, a comment or a head-ish element
	bodyTag := explicit || x.chance("bodytag", 2) || len(body) == 0 || body[0].Tag == "" || body[0].Tag == "!" || body[0].Tag == "script" || body[0].Tag == "style"
	if bodyTag {
		bodyAttrs = x.pickAttrs()
		sb.WriteString("<body" + x.attrString(bodyAttrs) + ">")
	}
	x.serialiseList(&sb, body, "body", nil)
	if explicit {
		sb.WriteString("</body></html>")
	}
	d.Src = sb.String()
	ex.WriteString("<!DOCTYPE html><html" + explicitAttrs(htmlAttrs) + "><head>")
	for _, k := range head {
		explicitNode(&ex, k)
	}
	ex.WriteString("</head><body" + explicitAttrs(bodyAttrs) + ">")
	for _, k := range body {
		explicitNode(&ex, k)
	}
	ex.WriteString("</body></html>")
	d.Explicit = ex.String()
	return d
}

func (x *G) attrString(attrs [][2]string) string {
	var sb strings.Builder
	for _, a := range attrs {
		k, v := a[0], a[1]
		if x.chance("attrcase", 10) {
			k = strings.ToUpper(k)
		}
		sb.WriteString(x.pick("attrsp", []string{" ", " ", "  ", "\n"}) + k)
		if v == "" && x.chance("novalue", 2) {
			continue
		}
		eq := x.pick("eq", []string{"=", "=", " = "})
		// choose quoting that is legal for this value
		canUnquoted := v != "" && !strings.ContainsAny(v, " \t\n\r\f\"'=<>`")
		q := x.pick("quote", []string{"\"", "'", "", "\""})
		if q == "" && !canUnquoted {
			q = "\""
		}
		val := v
		switch q {
		case "\"":
			val = strings.ReplaceAll(val, "\"", x.pick("dq", []string{"&quot;", "&#34;", "&#x22;"}))
		case "'":
			val = strings.ReplaceAll(val, "'", x.pick("sq", []string{"&#39;", "&apos;", "&#x27;"}))
		default:
			eq = "="
		}
		sb.WriteString(eq + q + val + q)
	}
	return sb.String()
}

var voidTags = map[string]bool{"img": true, "input": true, "br": true, "wbr": true, "hr": true, "meta": true, "link": true, "col": true}

// end tags that may be omitted given the next sibling (nil = last child) and the parent
func canOmitEnd(tag string, next *Node, parent string) bool {
	nextTag := ""
	if next != nil {
		nextTag = next.Tag
		if next.Tag == "" || next.Tag == "!" {
			return false // be conservative: text or comment follows
		}
	}
	switch tag {
	case "li":
		return next == nil || nextTag == "li"
	case "dt":
		return nextTag == "dt" || nextTag == "dd"
	case "dd":
		return next == nil || nextTag == "dt" || nextTag == "dd"
	case "p":
		if next == nil {
			return parent != "a" && parent != "audio" && parent != "del" && parent != "ins" && parent != "map" && parent != "noscript" && parent != "video" && parent != "slot" && !strings.Contains(parent, "-")
		}
		switch nextTag {
		case "address", "article", "aside", "blockquote", "details", "div", "dl", "fieldset", "figcaption", "figure", "footer", "form", "h1", "h2", "h3", "h4", "h5", "h6", "header", "hgroup", "hr", "main", "menu", "nav", "ol", "p", "pre", "section", "table", "ul":
			return true
		}
		return false
	case "option":
		return next == nil || nextTag == "option" || nextTag == "optgroup"
	case "optgroup":
		return next == nil || nextTag == "optgroup"
	case "thead":
		return nextTag == "tbody" || nextTag == "tfoot"
	case "tbody":
		return next == nil || nextTag == "tbody" || nextTag == "tfoot"
	case "tfoot":
		return next == nil
	case "tr":
		return next == nil || nextTag == "tr"
	case "td", "th":
		return next == nil || nextTag == "td" || nextTag == "th"
	case "rt", "rp":
		return next == nil || nextTag == "rt" || nextTag == "rp"
	case "caption", "colgroup":
		return false
	}
	return false
}

func (x *G) serialiseList(sb *strings.Builder, kids []*Node, parent string, _ *Node) {
	for i, k := range kids {
		var next *Node
		if i+1 < len(kids) {
			next = kids[i+1]
		}
		x.serialise(sb, k, next, parent)
	}
}

func (x *G) serialise(sb *strings.Builder, n *Node, next *Node, parent string) {
	switch n.Tag {
	case "":
		sb.WriteString(n.Text)
		return
	case "!":
		sb.WriteString("<!--" + n.Text + "-->")
		return
	}
	tag := n.Tag
	if x.chance("tagcase", 12) {
		tag = strings.ToUpper(tag)
	}
	// tbody start tag may be omitted when its first child is a tr and the previous sibling is not a section whose end tag was omitted
	omitStart := n.Tag == "tbody" && len(n.Attrs) == 0 && len(n.Kids) > 0 && n.Kids[0].Tag == "tr" && x.chance("omittbody", 2) && !x.tbodyNeeded
	if !omitStart {
		sb.WriteString("<" + tag + x.attrString(n.Attrs) + x.pick("tagend", []string{"", "", " "}))
		if voidTags[n.Tag] && x.chance("selfclose", 4) {
			sb.WriteString("/")
		}
		sb.WriteString(">")
	}
	if voidTags[n.Tag] {
		return
	}
	if n.Tag == "pre" && len(n.Kids) > 0 && strings.HasPrefix(n.Kids[0].Text, "\n") {
		// a leading newline directly after <pre> is dropped by the parser: write it twice to keep the content
		sb.WriteString("\n")
	}
	if n.Tag == "textarea" && len(n.Kids) > 0 && strings.HasPrefix(n.Kids[0].Text, "\n") {
		sb.WriteString("\n")
	}
	saved := x.tbodyNeeded
	x.tbodyNeeded = false
	for i, k := range n.Kids {
		var nx *Node
		if i+1 < len(n.Kids) {
			nx = n.Kids[i+1]
		}
		x.serialise(sb, k, nx, n.Tag)
	}
	x.tbodyNeeded = saved
	if canOmitEnd(n.Tag, next, parent) && x.chance("omitend", 2) {
		x.Feats["end-tag-omitted-in-input:"+n.Tag]++
		if n.Tag == "thead" || n.Tag == "tbody" {
			x.tbodyNeeded = true // the following tbody must keep its start tag
		}
		return
	}
	if n.Tag == "thead" || n.Tag == "tbody" || n.Tag == "tfoot" {
		x.tbodyNeeded = false
	}
	sb.WriteString("</" + tag + x.pick("endsp", []string{"", "", " "}) + ">")
}

var _ = fmt.Sprint
