// Package mutate applies byte-level mutations (all choices are rapid draws).
package mutate

import (
	"pgregory.net/rapid"
)

var Hostile = []string{
	"</script>", "</SCRIPT", "<!--", "-->", "]]>", "<![CDATA[", "${", "`", "\\", "\x00", "\xff", "\xc3", "\xe2\x80\xa8", " ", "0b", "0x", "e+", "1e", ".", "..", "/*", "*/", "//", "/", "'", "\"", "(", ")", "[", "]", "{", "}", "<", ">", "&", "&#", "&amp", ";", ":", ",", "=", "!", "?.", "??", "=>", "...", "\n", "\r", " ", "\t",
	"</style>", "<svg>", "<math>", "<p>", "</p>", "<a ", "url(", "data:", ";base64,", "@media", "!important", "var(", "function", "return", "class", "async", "await", "yield", "in", "of", "let", "<?", "?>", "{{", "}}", "<%", "%>", "<pre>", "<textarea>", "<title>", "<plaintext>", "<template>", "<noscript>", "<iframe>",
}

// Mutate applies 1..n mutations to s.
func Mutate(t *rapid.T, s string, other string, n int) string {
	b := []byte(s)
	k := rapid.IntRange(1, n).Draw(t, "nmut")
	for i := 0; i < k; i++ {
		pos := 0
		if len(b) > 0 {
			pos = rapid.IntRange(0, len(b)).Draw(t, "pos")
		}
		switch rapid.IntRange(0, 7).Draw(t, "mut") {
		case 0: // truncate
			b = b[:pos]
		case 1: // delete range
			end := pos + rapid.IntRange(1, 8).Draw(t, "dlen")
			if end > len(b) {
				end = len(b)
			}
			b = append(b[:pos:pos], b[end:]...)
		case 2: // duplicate range
			end := pos + rapid.IntRange(1, 16).Draw(t, "dup")
			if end > len(b) {
				end = len(b)
			}
			seg := append([]byte{}, b[pos:end]...)
			b = append(b[:end:end], append(seg, b[end:]...)...)
		case 3, 4: // insert hostile constant
			ins := rapid.SampledFrom(Hostile).Draw(t, "ins")
			b = append(b[:pos:pos], append([]byte(ins), b[pos:]...)...)
		case 5: // flip a byte
			if pos < len(b) {
				b[pos] ^= byte(1 << uint(rapid.IntRange(0, 7).Draw(t, "bit")))
			}
		case 6: // splice with other
			if len(other) > 0 {
				op := rapid.IntRange(0, len(other)).Draw(t, "opos")
				b = append(b[:pos:pos], other[op:]...)
			}
		case 7: // random byte
			if pos < len(b) {
				b[pos] = byte(rapid.IntRange(0, 255).Draw(t, "byte"))
			}
		}
	}
	return string(b)
}
