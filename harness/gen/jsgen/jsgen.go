// Package jsgen draws closed, deterministic, terminating JavaScript programs
// (construction, not rejection) together with what the oracle needs to observe
// them: the top-level lexical names to probe and the free globals to predefine.
// The oracle is differential (V8 on input vs. on minified text), so the
// generator only guarantees validity, termination, determinism and absence of
// TDZ errors - not any particular meaning.
package jsgen

import (
	"fmt"
	"regexp"
	"strings"

	"pgregory.net/rapid"
)

type Config struct {
	Goal      string // sloppy | strict | module
	MaxStmts  int
	ScopeMode bool // C02: deeper function nesting, shadowing, colliding free globals
	ES        int  // 0 = everything; otherwise restrict syntax to <= this edition (5, 2015..2022)
	// guards for known findings: constructs to avoid by construction
	Guards map[string]bool
}

type Program struct {
	Src       string
	Goal      string // script | module (for the V8 worker)
	Strict    bool
	Probes    []string // top-level let/const/class names
	Predef    []string // free globals the worker predefines
	Public    []string // names that must survive minification unchanged (C02)
	Feats     map[string]int
	Bindings  int
	MaxDepth  int // function nesting depth reached
	Shadowing int // number of declarations that shadow an outer binding
	FreeRefs  int // references to predefined free globals from inside functions
	Excluded  map[string]int
}

type typ int

const (
	tNum typ = iota
	tStr
	tBool
	tArr
	tObj
	tFn
	tClass
	tAny
)

type binding struct {
	name       string
	kind       string // var let const param fn class catch free
	typ        typ
	arity      int
	assignable bool
	fnIndex    int
	async      bool
	generator  bool
	scope      *scope
}

type scope struct {
	parent *scope
	fn     bool // function (or program) scope
	vars   []*binding
	used   map[string]bool // names referenced inside this scope (resolving outside or not)
	fscope *fnInfo
	noLex  bool // lexical declarations not allowed directly here (unbraced switch case)
}

type fnInfo struct {
	varNames map[string]bool
	lexNames map[string]bool
	depth    int
	async    bool
	gen      bool
	arrow    bool
	hasThis  bool
	top      bool
}

type expr struct {
	s string
	p int
}

type g struct {
	t        *rapid.T
	cfg      Config
	sc       *scope
	val      int
	fnCount  int
	loops    int
	labels   []string
	inSwitch int
	budget   int
	prog     *Program
	counter  int
	strict   bool
}

func (x *g) feat(f string)               { x.prog.Feats[f]++ }
func (x *g) es(min int) bool             { return x.cfg.ES == 0 || x.cfg.ES >= min }
func (x *g) guard(name string) bool      { return x.cfg.Guards != nil && x.cfg.Guards[name] }
func (x *g) n(label string, max int) int { return rapid.IntRange(0, max).Draw(x.t, label) }
func (x *g) chance(label string, oneIn int) bool {
	return rapid.IntRange(0, oneIn-1).Draw(x.t, label) == 0
}
func (x *g) pick(label string, xs []string) string { return rapid.SampledFrom(xs).Draw(x.t, label) }

// optional whitespace / comment between tokens (never a newline: newlines are
// only emitted where they cannot start a restricted production)
func (x *g) s() string {
	switch x.n("ws", 11) {
	case 0:
		return " "
	case 1:
		return "  "
	case 2:
		return "/**/"
	case 3:
		return " /* c */ "
	}
	return ""
}

// newline-capable whitespace, used after binary operators, commas and opening brackets
func (x *g) nl() string {
	switch x.n("nl", 9) {
	case 0:
		return "\n"
	case 1:
		return " // c\n"
	case 2:
		return "\n\t"
	}
	return x.s()
}

var shortNames = strings.Split("e t n s o i a r c l d u h m f p g v b j y _ w x k z q", " ")
var topNames = []string{"ga", "gb", "gc", "gd", "ge", "gf", "total", "acc", "st", "A", "B", "K", "e", "t", "n", "a", "b", "x", "y", "z", "i", "__proto__"}
var propNames = []string{"p", "q", "r", "e", "t", "n", "len", "if", "in", "do", "class", "a1", "$k", "_v"}

func (x *g) push(fn bool, info *fnInfo) {
	sc := &scope{parent: x.sc, fn: fn, used: map[string]bool{}}
	if info != nil {
		sc.fscope = info
	} else {
		sc.fscope = x.sc.fscope
	}
	x.sc = sc
}
func (x *g) pop() { x.sc = x.sc.parent }

func (x *g) lookup(name string) *binding {
	for s := x.sc; s != nil; s = s.parent {
		for i := len(s.vars) - 1; i >= 0; i-- {
			if s.vars[i].name == name {
				return s.vars[i]
			}
		}
	}
	return nil
}

// visible returns the bindings usable at this point, innermost first, without shadowed ones.
func (x *g) visible(filter func(*binding) bool) []*binding {
	seen := map[string]bool{}
	var out []*binding
	for s := x.sc; s != nil; s = s.parent {
		for i := len(s.vars) - 1; i >= 0; i-- {
			b := s.vars[i]
			if seen[b.name] {
				continue
			}
			seen[b.name] = true
			if filter == nil || filter(b) {
				out = append(out, b)
			}
		}
	}
	return out
}

func (x *g) markUsed(name string) {
	for s := x.sc; s != nil; s = s.parent {
		s.used[name] = true
	}
}

func (x *g) ref(b *binding) string {
	x.markUsed(b.name)
	if b.kind == "free" && x.sc.fscope != nil && !x.sc.fscope.top {
		x.prog.FreeRefs++
	}
	return b.name
}

// freshName picks a name for a new declaration of the given kind in the current scope.
func (x *g) freshName(kind string) string {
	fi := x.sc.fscope
	pool := shortNames
	if fi.top && x.sc.fn {
		pool = topNames
	}
	lexical := kind == "let" || kind == "const" || kind == "class" || kind == "catch" || kind == "blockfn"
	ok := func(nm string) bool {
		if reservedName[nm] {
			return false
		}
		// not already declared in this very scope
		for _, b := range x.sc.vars {
			if b.name == nm {
				if lexical || b.kind == "let" || b.kind == "const" || b.kind == "class" || b.kind == "catch" || b.kind == "fn" {
					return false
				}
			}
		}
		if lexical {
			if fi.varNames[nm] || x.sc.used[nm] {
				return false
			}
			// a parameter of the current function cannot be redeclared lexically at function top level; be conservative
			return true
		}
		// var-like: must not collide with any lexical name of this function, and must not have been referenced
		// earlier in this function (the hoisted, still undefined variable would capture that reference and turn
		// side-effect free expressions into ones whose only effect is an engine exception)
		if fi.lexNames[nm] {
			return false
		}
		fs := x.sc
		for fs.parent != nil && !fs.fn {
			fs = fs.parent
		}
		if fs.used[nm] {
			return false
		}
		// a var that is already declared in this function may only be redeclared in the very same scope
		// (otherwise the typed view of the enclosing scope goes stale: the same variable silently changes
		// type and pure expressions on it, e.g. "p" in obj, start to throw)
		if fi.varNames[nm] {
			same := false
			for _, b := range x.sc.vars {
				if b.name == nm {
					same = true
				}
			}
			if !same {
				return false
			}
		}
		return true
	}
	// free globals are never declared at top level (they must stay free)
	for attempt := 0; attempt < 6; attempt++ {
		nm := rapid.SampledFrom(pool).Draw(x.t, "name")
		if fi.top && x.sc.fn && x.isPredef(nm) {
			continue
		}
		if ok(nm) {
			return nm
		}
	}
	for {
		x.counter++
		nm := fmt.Sprintf("v%d", x.counter)
		if ok(nm) {
			return nm
		}
	}
}

func (x *g) isPredef(nm string) bool {
	for _, p := range x.prog.Predef {
		if p == nm {
			return true
		}
	}
	return false
}

var reservedName = map[string]bool{"do": true, "if": true, "in": true, "of": false, "let": true, "var": true, "new": true, "for": true, "try": true, "int": false, "$": true, "undefined": true, "NaN": true, "Infinity": true, "eval": true, "arguments": true, "name": true, "length": true}

func (x *g) declare(nm, kind string, ty typ, assignable bool) *binding {
	fi := x.sc.fscope
	if x.lookup(nm) != nil {
		x.prog.Shadowing++
	}
	b := &binding{name: nm, kind: kind, typ: ty, assignable: assignable, scope: x.sc}
	target := x.sc
	if kind == "var" || kind == "fn" {
		// hoists to the function scope for name bookkeeping, but stays visible from here on only
		fi.varNames[nm] = true
	} else if kind == "param" {
		fi.varNames[nm] = true
	} else {
		fi.lexNames[nm] = true
	}
	target.vars = append(target.vars, b)
	x.prog.Bindings++
	if fi.top && x.sc.fn || kind == "var" && fi.top {
		// top-level declarations are public names
		x.prog.Public = append(x.prog.Public, nm)
		if kind == "let" || kind == "const" || kind == "class" {
			x.prog.Probes = append(x.prog.Probes, nm)
		}
	}
	return b
}

func (x *g) uniq() int { x.val++; return x.val*7 + 100 }

// ---------------------------------------------------------------------------
// literals

func (x *g) numLit() string {
	v := x.uniq()
	switch x.n("numform", 13) {
	case 0:
		return fmt.Sprintf("0x%X", v)
	case 1:
		return fmt.Sprintf("%d.0", v)
	case 2:
		return fmt.Sprintf("%de0", v)
	case 3:
		if x.es(2015) {
			return fmt.Sprintf("0b%b", v)
		}
	case 4:
		if x.es(2015) {
			return fmt.Sprintf("0o%o", v)
		}
	case 5:
		return fmt.Sprintf("%d.5", v)
	case 6:
		return fmt.Sprintf(".%d", v)
	case 7:
		return fmt.Sprintf("%d000", v%10+1)
	case 8:
		if x.es(2021) {
			return fmt.Sprintf("%d_000", v%10+1)
		}
	case 9:
		return x.pick("smallnum", []string{"0", "1", "2", "3", "10", "0.1", "1e3", "1e-7", "0.00001", "1e21", "9007199254740993", "4294967296", "0.5", "5.", "100"})
	}
	return fmt.Sprint(v)
}

var strPieces = []string{"a", "b", "k", " ", "x y", "'", "\\'", "\"", "\\\"", "`", "\\\\", "\\n", "\\t", "\\r", "\\0", "\\x41", "\\x27", "\\x22", "\\u0041", "\\u2028", "\\u{1F600}", "é", "</script>", "<\\/script>", "<!--", "-->", "${", "$", "{", "\\\n", "\\v", "\\b", "\\f", "\\x00", "\\u000A", "\\x3C/script>", "//", "/*"}

func (x *g) strLit() string {
	q := x.pick("quote", []string{"'", "\"", "'", "\""})
	n := x.n("strlen", 4)
	var sb strings.Builder
	sb.WriteString(q)
	for i := 0; i < n; i++ {
		p := x.pick("strpiece", strPieces)
		if !x.strict && x.chance("legacyoctal", 12) {
			// legacy octal escapes (sloppy scripts only), also NUL before a digit
			p = x.pick("octalpiece", []string{"\\000", "\\00", "\\0", "\\101", "\\12", "\\7", "\\47", "\\42", "\\140"}) + x.pick("octaltail", []string{"", "1", "8", "0", "a"})
			x.feat("string-legacy-octal")
		}
		if p == q {
			p = "\\" + p
		}
		if x.strict && (p == "\\0" && false) {
			p = "0"
		}
		if !x.es(2015) && strings.HasPrefix(p, "\\u{") {
			p = "u"
		}
		sb.WriteString(p)
	}
	if n == 0 || x.chance("struniq", 2) {
		sb.WriteString(fmt.Sprintf("s%d", x.uniq()))
	}
	sb.WriteString(q)
	return sb.String()
}

var tmplPieces = []string{"a", " ", "'", "\"", "\\`", "\\\\", "\\n", "\n", "$", "{", "}", "\\${", "\\u0041", "\\x41", "</script>", "é", "x"}

func (x *g) tmplLit(depth int) string {
	var sb strings.Builder
	sb.WriteString("`")
	n := x.n("tmpln", 3)
	for i := 0; i < n; i++ {
		if x.chance("tmplexpr", 2) {
			sb.WriteString("${" + x.s() + x.anyExpr(depth-1).s + x.s() + "}")
		} else {
			sb.WriteString(x.pick("tmplpiece", tmplPieces))
		}
	}
	sb.WriteString("`")
	return sb.String()
}

var regexes = []string{"/a/", "/[a-z]+/g", "/\\d+/", "/[/]/", "/\\//", "/a|b/i", "/(x)(y)?/", "/^s/m", "/[^\\]]/", "/\\s*,\\s*/g", "/\\u0041/u", "/./s", "/[\\d.]+/g", "/=/", "/ /"}

var classAtoms = []string{"a", "z", "b", "\\^", "\\-", "\\[", "\\]", "\\\\", "\\d", "\\/", "/", ".", "\\.", "$", "\\$", "_", "0", "9", "^", "a-c", "x-z", "0-5", "\\-", "\\^", " ", "["}

// regexClass builds /[...]/g from class atoms; an unescaped dash only appears first, last or inside a fixed range,
// so that every generated class is valid.
func (x *g) regexClass() string {
	var sb strings.Builder
	sb.WriteString("/[")
	if x.chance("classneg", 4) {
		sb.WriteString("^")
	}
	if x.chance("classleaddash", 6) {
		sb.WriteString("-")
	}
	n := 1 + x.n("classn", 4)
	for i := 0; i < n; i++ {
		sb.WriteString(x.pick("classatom", classAtoms))
	}
	if x.chance("classtraildash", 6) {
		sb.WriteString("-")
	}
	sb.WriteString("]/g")
	return sb.String()
}

// ---------------------------------------------------------------------------
// expressions

func (x *g) par(e expr, min int) string {
	if e.p < min || x.chance("redundantparen", 14) {
		return "(" + x.s() + e.s + x.s() + ")"
	}
	return e.s
}

func (x *g) vars(ty typ, needAssignable bool) []*binding {
	return x.visible(func(b *binding) bool {
		if needAssignable && !b.assignable {
			return false
		}
		return b.typ == ty
	})
}

// log wraps an expression into the host call $(...) which returns its first argument.
func (x *g) log(e expr) expr {
	x.feat("log-wrap")
	return expr{"$(" + x.s() + x.par(e, 1) + x.s() + ")", 16}
}

func (x *g) numExpr(d int) expr {
	if d <= 0 || x.budget <= 0 {
		return x.numLeaf()
	}
	x.budget--
	k := x.n("numkind", 30)
	switch k {
	case 0, 1, 2:
		return x.numLeaf()
	case 27:
		// a numeric string as operand of an arithmetic operator: the result is a number, and a + that follows
		// concatenates with that number, not with the string literal
		o := []struct {
			op string
			p  int
		}{{"*", 12}, {"/", 12}, {"-", 11}, {"%", 12}, {"+", 11}}[x.n("strarith", 4)]
		l := x.numExpr(d - 1)
		lit := x.pick("numstr", []string{"\"2\"", "'3'", "\"10\"", "\"\"", "\"0x10\"", "\" 4 \""})
		x.feat("arith-numeric-string:" + o.op)
		if x.chance("numstrleft", 3) {
			return expr{x.joinBin(lit, o.op, x.par(l, o.p+1)), o.p}
		}
		return expr{x.joinBin(x.par(l, o.p), o.op, lit), o.p}
	case 28:
		// the same callee in both branches of a conditional
		fs := x.visible(func(b *binding) bool { return b.typ == tFn && !b.async && !b.generator })
		callee := x.pick("nullcalleeform", []string{"[null][0]", "undefined"})
		nullCallee := true
		if len(fs) > 0 && !x.chance("nullcallee", 4) {
			callee = x.ref(fs[x.n("condfn", len(fs)-1)])
			nullCallee = false
		}
		c := x.boolExpr(d - 1)
		form := x.n("condcallform", 4)
		if !x.es(2020) && form >= 3 {
			form = 0
		}
		if !x.es(2015) && form >= 1 {
			form = 0
		}
		if nullCallee {
			if !x.es(2020) {
				return x.numLeaf()
			}
			form = 3 + x.n("condnullform", 1)
		}
		x.feat(fmt.Sprintf("cond-same-callee:%d", form))
		arr := func() string { return x.par(x.arrExpr(d-1), 1) }
		num := func() string { return x.par(x.numExpr(d-1), 1) }
		var a, b string
		switch form {
		case 0:
			a, b = callee+"("+num()+")", callee+"("+num()+")"
		case 1:
			a, b = callee+"(..."+arr()+")", callee+"(..."+arr()+")"
		case 2:
			a, b = callee+"(..."+arr()+")", callee+"("+num()+")"
		case 3:
			a, b = callee+"?.("+num()+")", callee+"?.("+num()+")"
		default:
			a, b = callee+"?.("+num()+")", callee+"("+num()+")"
		}
		if nullCallee && form == 4 {
			b = callee + "?.(" + num() + ")"
		}
		return expr{x.par(c, 3) + x.s() + "?" + x.s() + a + x.s() + ":" + x.s() + b, 2}
	case 29:
		if x.es(2015) && !x.guard("noMathRewrites") {
			x.feat("math-call-spread")
			fn := x.pick("mathfn2", []string{"Math.pow", "Math.max", "Math.min"})
			switch x.n("mathspread", 2) {
			case 0:
				return expr{fn + "(..." + x.par(x.arrExpr(d-1), 1) + ")", 16}
			case 1:
				return expr{fn + "(..." + x.par(x.arrExpr(d-1), 1) + "," + x.par(x.numExpr(d-1), 1) + ")", 16}
			default:
				return expr{fn + "(" + x.par(x.numExpr(d-1), 1) + ",..." + x.par(x.arrExpr(d-1), 1) + ")", 16}
			}
		}
	case 3:
		return x.log(x.numExpr(d - 1))
	case 4, 5, 6:
		ops := []struct {
			op string
			p  int
		}{{"+", 11}, {"-", 11}, {"*", 12}, {"/", 12}, {"%", 12}, {"|", 5}, {"&", 7}, {"^", 6}, {"<<", 10}, {">>", 10}, {">>>", 10}}
		o := ops[x.n("arith", len(ops)-1)]
		l, r := x.numExpr(d-1), x.numExpr(d-1)
		ls, rs := x.par(l, o.p), x.par(r, o.p+1)
		x.feat("binary:" + o.op)
		return expr{x.joinBin(ls, o.op, rs), o.p}
	case 7:
		if x.es(2016) {
			l, r := x.numExpr(d-1), x.numLeaf()
			if (l.p == 14 && (strings.HasPrefix(l.s, "++") || strings.HasPrefix(l.s, "--")) || l.p <= 3 && (strings.Contains(l.s, "++") || strings.Contains(l.s, "--"))) && x.guard("noPrefixUpdateExpBase") {
				// also through a conditional or logical expression that may be folded to its prefix update operand
				x.prog.Excluded["noPrefixUpdateExpBase"]++
				return l
			}
			x.feat("binary:**")
			return expr{x.joinBin(x.par(l, 15), "**", x.par(r, 13)), 13}
		}
		return x.numLeaf()
	case 8:
		op := x.pick("unary", []string{"-", "+", "~", "- ", "+ "})
		e := x.numExpr(d - 1)
		es := x.par(e, 14)
		if strings.HasPrefix(es, strings.TrimSpace(op)) {
			op = strings.TrimSpace(op) + " "
		}
		x.feat("unary:" + strings.TrimSpace(op))
		return expr{op + es, 14}
	case 9:
		c, a, b := x.boolExpr(d-1), x.numExpr(d-1), x.numExpr(d-1)
		x.feat("conditional")
		return expr{x.par(c, 3) + x.s() + "?" + x.nl() + x.par(a, 1) + x.s() + ":" + x.nl() + x.par(b, 1), 2}
	case 10:
		vs := x.vars(tNum, true)
		if len(vs) > 0 {
			v := vs[x.n("asgvar", len(vs)-1)]
			op := x.pick("asgop", []string{"=", "+=", "-=", "*=", "|=", "=", "%=", "<<=", "^=", "&=", ">>>="})
			if op == "**=" && !x.es(2016) {
				op = "="
			}
			r := x.numExpr(d - 1)
			x.feat("assign:" + op)
			return expr{x.ref(v) + x.s() + op + x.nl() + x.par(r, 1), 1}
		}
	case 11:
		vs := x.vars(tNum, true)
		if len(vs) > 0 {
			v := vs[x.n("updvar", len(vs)-1)]
			x.feat("update")
			switch x.n("updform", 3) {
			case 0:
				return expr{x.ref(v) + "++", 15}
			case 1:
				return expr{x.ref(v) + "--", 15}
			case 2:
				return expr{"++" + x.ref(v), 14}
			default:
				return expr{"--" + x.ref(v), 14}
			}
		}
	case 12:
		fs := x.visible(func(b *binding) bool { return b.typ == tFn && !b.async && !b.generator })
		if len(fs) > 0 {
			f := fs[x.n("callfn", len(fs)-1)]
			return x.call(f, d)
		}
	case 13:
		a, b := x.anyExpr(d-1), x.numExpr(d-1)
		x.feat("comma")
		return expr{x.par(a, 1) + x.s() + "," + x.nl() + x.par(b, 1), 0}
	case 14:
		os := x.vars(tObj, false)
		if len(os) > 0 {
			o := os[x.n("objvar", len(os)-1)]
			x.feat("member")
			if x.chance("bracketmember", 3) {
				if x.chance("numstrindex", 3) {
					x.feat("numeric-string-index")
					ix := x.pick("numstrindex2", []string{"1.0", ".5", "01", "10", "1000", "0", "1e3"})
					return expr{"(function(o){o[\"" + ix + "\"]=1;o[1]=2;o[.5]=4;o[10]=8;o[1e3]=16;o[0]=32;return o[\"" + ix + "\"]})(" + x.ref(o) + ")", 16}
				}
				return expr{x.ref(o) + "[" + x.s() + "\"p\"" + x.s() + "]", 16}
			}
			return expr{x.ref(o) + x.s() + "." + x.s() + "p", 16}
		}
	case 15:
		as := x.vars(tArr, false)
		if len(as) > 0 {
			a := as[x.n("arrvar", len(as)-1)]
			x.feat("index")
			if x.chance("arrlen", 3) {
				return expr{x.ref(a) + ".length", 16}
			}
			return expr{x.ref(a) + "[" + x.s() + x.par(x.numLeaf(), 1) + x.s() + "]", 16}
		}
	case 16:
		s := x.strExpr(d - 1)
		x.feat("str.length")
		return expr{x.par(s, 16) + ".length", 16}
	case 17:
		return x.iife(d, tNum)
	case 18:
		cs := x.vars(tClass, false)
		if len(cs) > 0 && x.es(2015) {
			c := cs[x.n("clsvar", len(cs)-1)]
			x.feat("new-class-method")
			arg := x.numExpr(d - 1)
			newc := "new " + x.ref(c) + x.s() + "(" + x.par(arg, 1) + ")"
			switch x.n("clsuse", 3) {
			case 0:
				return expr{newc + ".m(" + x.par(x.numExpr(d-1), 1) + ")", 16}
			case 1:
				return expr{newc + ".g", 16}
			case 2:
				return expr{x.ref(c) + ".s(" + x.par(x.numExpr(d-1), 1) + ")", 16}
			default:
				return expr{newc + ".p", 16}
			}
		}
	case 19:
		a := x.anyExpr(d - 1)
		x.feat("unary:+any")
		return expr{"+" + avoidPlus(x.par(a, 14)), 14}
	case 20:
		if x.es(2020) {
			a, b := x.anyExpr(d-1), x.numExpr(d-1)
			x.feat("binary:??")
			return expr{x.par(a, 4) + x.s() + "??" + x.nl() + x.par(b, 4), 3}
		}
	case 21:
		b, n := x.boolExpr(d-1), x.numExpr(d-1)
		x.feat("logical-num")
		op := x.pick("logop", []string{"&&", "||"})
		p := 4
		if op == "||" {
			p = 3
		}
		// avoid mixing with ?? without parens: children are parenthesised above their own level
		return expr{x.par(b, p+1) + x.s() + op + x.nl() + x.par(n, p+1), p}
	case 22:
		if !x.guard("noMathRewrites") {
			fn := x.pick("mathfn", []string{"Math.floor", "Math.max", "Math.min", "Math.round", "Math.sqrt", "parseInt", "Number"})
			x.feat("math-call")
			return expr{fn + "(" + x.par(x.numExpr(d-1), 1) + ")", 16}
		}
	case 23:
		x.feat("void-comma")
		return expr{"(" + "void " + x.par(x.anyExpr(d-1), 14) + "," + x.par(x.numExpr(d-1), 1) + ")", 17}
	case 24:
		if x.sc.fscope.hasThis {
			x.feat("this.p")
			return expr{"this.p", 16}
		}
	case 25:
		if x.sc.fscope.async && x.es(2017) {
			x.feat("await")
			return expr{"await " + x.par(x.numExpr(d-1), 14), 14}
		}
	case 26:
		if x.sc.fscope.gen && x.es(2015) {
			x.feat("yield")
			return expr{"(yield " + x.par(x.numExpr(d-1), 1) + ", " + x.numLeaf().s + ")", 17}
		}
	}
	return x.numLeaf()
}

func avoidPlus(s string) string {
	if strings.HasPrefix(s, "+") || strings.HasPrefix(s, "-") {
		return " " + s
	}
	return s
}

// joinBin joins operands with an operator, keeping tokens apart where fusing
// would change the token stream (a+ +b, a- -b, a< !--b, a/ /re/).
func (x *g) joinBin(l, op, r string) string {
	ls, rs := x.s(), x.nl()
	last := l[len(l)-1]
	if (op[0] == '+' || op[0] == '-') && last == op[0] && ls == "" {
		ls = " "
	}
	if (op == "+" || op == "-") && len(r) > 0 && r[0] == op[0] && rs == "" {
		rs = " "
	}
	if op == "<" && strings.HasPrefix(r, "!--") && rs == "" {
		rs = " "
	}
	if op == "/" && (rs == "" && len(r) > 0 && (r[0] == '/' || r[0] == '*') || strings.HasPrefix(rs, "/")) {
		rs = " " // never form "//" or "/*" out of a division and what follows it
	}
	if (op == ">" || op == ">>" || op == ">>>" || op == ">=") && strings.HasSuffix(l, "--") && ls == "" {
		ls = " " // a-- >b must not become a-->b at a line start
	}
	if op == "in" || op == "instanceof" {
		if ls == "" || ls == "/**/" {
			ls = " "
		}
		if rs == "" || rs == "/**/" {
			rs = " "
		}
	}
	return l + ls + op + rs + r
}

func (x *g) numLeaf() expr {
	vs := x.vars(tNum, false)
	if len(vs) > 0 && !x.chance("numlit", 3) {
		v := vs[x.n("numvar", len(vs)-1)]
		x.feat("ref")
		if x.chance("logref", 4) {
			return x.log(expr{x.ref(v), 17})
		}
		return expr{x.ref(v), 17}
	}
	return expr{x.numLit(), 17}
}

func (x *g) call(f *binding, d int) expr {
	x.feat("call")
	var args []string
	n := f.arity
	if x.chance("argmismatch", 6) {
		n = x.n("nargs", 3)
	}
	for i := 0; i < n; i++ {
		if x.es(2015) && x.chance("spreadarg", 12) {
			x.feat("spread-arg")
			args = append(args, "..."+x.par(x.arrExpr(d-1), 1))
			continue
		}
		args = append(args, x.par(x.numExpr(d-1), 1))
	}
	return expr{x.ref(f) + x.s() + "(" + x.s() + strings.Join(args, x.s()+","+x.nl()) + x.s() + ")", 16}
}

func (x *g) boolExpr(d int) expr {
	if d <= 0 || x.budget <= 0 {
		return x.boolLeaf()
	}
	x.budget--
	switch x.n("boolkind", 13) {
	case 0:
		return x.boolLeaf()
	case 1:
		e := x.boolExpr(d - 1)
		x.feat("unary:!")
		return expr{"!" + x.par(e, 14), 14}
	case 2, 3, 4:
		op := x.pick("cmp", []string{"<", ">", "<=", ">=", "==", "!=", "===", "!=="})
		p := 9
		if op[0] == '=' || op[0] == '!' {
			p = 8
		}
		var l, r expr
		if x.chance("cmpmixed", 3) {
			l, r = x.anyExpr(d-1), x.anyExpr(d-1)
		} else {
			l, r = x.numExpr(d-1), x.numExpr(d-1)
		}
		x.feat("compare:" + op)
		return expr{x.joinBin(x.par(l, p), op, x.par(r, p+1)), p}
	case 5:
		l, r := x.boolExpr(d-1), x.boolExpr(d-1)
		x.feat("logical:&&")
		return expr{x.par(l, 4) + x.s() + "&&" + x.nl() + x.par(r, 5), 4}
	case 6:
		l, r := x.boolExpr(d-1), x.boolExpr(d-1)
		x.feat("logical:||")
		return expr{x.par(l, 4) + x.s() + "||" + x.nl() + x.par(r, 4), 3}
	case 7:
		os := x.vars(tObj, false)
		if len(os) > 0 {
			o := os[x.n("inobj", len(os)-1)]
			x.feat("in")
			return expr{x.joinBin("\""+x.pick("inprop", propNames)+"\"", "in", x.ref(o)), 9}
		}
	case 8:
		a := x.anyExpr(d - 1)
		ty := x.pick("typeofcmp", []string{"\"number\"", "\"string\"", "\"undefined\"", "\"object\"", "\"function\"", "'boolean'"})
		x.feat("typeof-compare")
		op := x.pick("typeofop", []string{"==", "===", "!=", "!=="})
		if x.chance("typeofrev", 3) {
			return expr{ty + x.s() + op + x.s() + "typeof " + x.par(a, 14), 8}
		}
		return expr{"typeof " + x.par(a, 14) + x.s() + op + x.s() + ty, 8}
	case 9:
		a := x.anyExpr(d - 1)
		x.feat("null-compare")
		rhs := x.pick("nullish", []string{"null", "undefined", "void 0"})
		op := x.pick("nullop", []string{"==", "!=", "===", "!=="})
		if x.chance("nullrev", 3) {
			return expr{x.par(expr{rhs, 14}, 9) + x.s() + op + x.s() + x.par(a, 9), 8}
		}
		return expr{x.par(a, 9) + x.s() + op + x.s() + x.par(expr{rhs, 14}, 9), 8}
	case 10:
		x.feat("regex-test")
		return expr{x.pick("regex", regexes) + ".test(" + x.par(x.strExpr(d-1), 1) + ")", 16}
	case 11:
		cs := x.vars(tClass, false)
		os := x.vars(tObj, false)
		if len(os) > 0 {
			rhs := "Object"
			if len(cs) > 0 {
				rhs = x.ref(cs[x.n("instcls", len(cs)-1)])
			}
			x.feat("instanceof")
			return expr{x.joinBin(x.ref(os[x.n("instobj", len(os)-1)]), "instanceof", rhs), 9}
		}
	case 12:
		return x.log(x.boolExpr(d - 1))
	case 13:
		e := x.anyExpr(d - 1)
		x.feat("unary:!!")
		return expr{"!!" + x.par(e, 14), 14}
	}
	return x.boolLeaf()
}

func (x *g) boolLeaf() expr {
	vs := x.vars(tBool, false)
	if len(vs) > 0 && x.chance("boolvar", 2) {
		return expr{x.ref(vs[x.n("boolv", len(vs)-1)]), 17}
	}
	switch x.n("boollit", 5) {
	case 0:
		return expr{"true", 17}
	case 1:
		return expr{"false", 17}
	case 2:
		return expr{"!0", 14}
	case 3:
		return expr{"!1", 14}
	}
	l, r := x.numLeaf(), x.numLeaf()
	return expr{x.joinBin(x.par(l, 10), "<", x.par(r, 10)), 9}
}

func (x *g) strExpr(d int) expr {
	if d <= 0 || x.budget <= 0 {
		return x.strLeaf()
	}
	x.budget--
	switch x.n("strkind", 10) {
	case 0, 1:
		return x.strLeaf()
	case 2, 3:
		l, r := x.strExpr(d-1), x.anyExpr(d-1)
		x.feat("concat")
		if x.chance("concatrev", 3) {
			l, r = r, l
		}
		return expr{x.joinBin(x.par(l, 11), "+", x.par(r, 12)), 11}
	case 4:
		if x.es(2015) {
			x.feat("template")
			return expr{x.tmplLit(d), 17}
		}
	case 5:
		if x.chance("numbermember", 3) {
			// member access on a number literal: the dot of the access must not merge with the number
			x.feat("member-on-number-literal")
			n := x.pick("numlit4member", []string{"(1.0)", "(10)", "(0.5)", "(1e3)", "(0x10)", "(5.)", "(.5)", "(1000000)", "1.5", "1..", "(0)"})
			if n == "1.." {
				return expr{"1..toFixed(" + fmt.Sprint(x.n("fixed", 2)) + ")", 16}
			}
			m := x.pick("nummember", []string{".toFixed(1)", ".toString()", "[\"toFixed\"](2)", ".toString(2)", "[\"toString\"]()"})
			return expr{n + m, 16}
		}
		a := x.anyExpr(d - 1)
		x.feat("typeof")
		return expr{"typeof " + x.par(a, 14), 14}
	case 6:
		s := x.strExpr(d - 1)
		m := x.pick("strmethod", []string{".toUpperCase()", ".slice(1)", ".trim()", ".charAt(0)", ".split(\"\").join(\"-\")", "[0]", ".concat(1)"})
		x.feat("str-method")
		return expr{x.par(s, 16) + m, 16}
	case 7:
		if x.chance("regexclass", 3) {
			// a generated character class applied to a fixed alphabet: what is left shows which characters it matches
			x.feat("regex-class")
			return expr{"\"az^-[]\\\\/.$_059 bcxy\".replace(" + x.regexClass() + x.s() + "," + x.s() + "\"\")", 16}
		}
		s := x.strExpr(d - 1)
		x.feat("regex-replace")
		return expr{x.par(s, 16) + ".replace(" + x.pick("regex", regexes) + x.s() + "," + x.s() + x.strLit() + ")", 16}
	case 8:
		if x.es(2015) {
			fs := x.visible(func(b *binding) bool { return b.typ == tFn && !b.async && !b.generator })
			if len(fs) > 0 {
				x.feat("tagged-template")
				return expr{"String(" + x.ref(fs[x.n("tagfn", len(fs)-1)]) + x.tmplLit(d) + ")", 16}
			}
		}
	case 9:
		return x.log(x.strExpr(d - 1))
	case 10:
		c, a, b := x.boolExpr(d-1), x.strExpr(d-1), x.strExpr(d-1)
		return expr{x.par(c, 3) + "?" + x.par(a, 1) + ":" + x.par(b, 1), 2}
	}
	return x.strLeaf()
}

func (x *g) strLeaf() expr {
	vs := x.vars(tStr, false)
	if len(vs) > 0 && x.chance("strvar", 2) {
		return expr{x.ref(vs[x.n("strv", len(vs)-1)]), 17}
	}
	return expr{x.strLit(), 17}
}

func (x *g) arrExpr(d int) expr {
	vs := x.vars(tArr, false)
	if len(vs) > 0 && x.chance("arrvarref", 2) {
		return expr{x.ref(vs[x.n("arrv", len(vs)-1)]), 17}
	}
	n := x.n("arrn", 4)
	var parts []string
	for i := 0; i < n; i++ {
		switch {
		case x.es(2015) && len(vs) > 0 && x.chance("arrspread", 8):
			x.feat("spread-array")
			parts = append(parts, "..."+x.ref(vs[0]))
		case x.chance("arrhole", 16):
			x.feat("array-hole")
			parts = append(parts, "")
		default:
			parts = append(parts, x.par(x.numExpr(d-1), 1))
		}
	}
	x.feat("array-literal")
	s := "[" + x.s() + strings.Join(parts, x.s()+","+x.nl()) + x.s() + "]"
	if n > 0 && parts[n-1] == "" {
		s = "[" + strings.Join(parts, ",") + ",]"
	}
	return expr{s, 17}
}

func (x *g) objExpr(d int) expr {
	vs := x.vars(tObj, false)
	if len(vs) > 0 && x.chance("objvarref", 3) {
		return expr{x.ref(vs[x.n("objv", len(vs)-1)]), 17}
	}
	x.feat("object-literal")
	parts := []string{"p" + x.s() + ":" + x.s() + x.par(x.numExpr(d-1), 1)}
	n := x.n("objn", 3)
	for i := 0; i < n; i++ {
		k := x.pick("prop", propNames)
		switch x.n("propform", 8) {
		case 0:
			if x.chance("numerickey", 3) {
				// string keys that read as numbers: only the canonical ones name the same property as the number
				k = x.pick("numstrkey", []string{"10", "0", "1.0", ".5", "01", "1e3", "0x10", "1000", "0.50", "-1"})
				if x.guard("noNonCanonicalNumericKey") && (k == "1.0" || k == ".5") {
					x.prog.Excluded["noNonCanonicalNumericKey"]++
					k = "10"
				}
				x.feat("numeric-string-key")
			}
			parts = append(parts, "\""+k+"\":"+x.par(x.anyExpr(d-1), 1))
		case 1:
			if x.es(2015) {
				x.feat("computed-prop")
				parts = append(parts, "["+x.par(x.strExpr(d-1), 1)+"]:"+x.par(x.numExpr(d-1), 1))
				continue
			}
			fallthrough
		case 2:
			if all := x.visible(func(b *binding) bool { return true }); len(all) > 0 && x.chance("samenameprop", 2) {
				// key and value spelled alike: only a shorthand candidate while the variable keeps its name, and never for __proto__
				b := all[x.n("samenamevar", len(all)-1)]
				if b.name == "__proto__" && x.guard("noProtoSameName") {
					x.prog.Excluded["noProtoSameName"]++
					parts = append(parts, "q"+x.s()+":"+x.s()+x.ref(b))
					continue
				}
				x.feat("prop-same-name-as-var")
				if b.name == "__proto__" {
					x.feat("prop-__proto__")
				}
				parts = append(parts, b.name+x.s()+":"+x.s()+x.ref(b))
				x.prog.Public = append(x.prog.Public, b.name)
				continue
			}
			nv := x.vars(tNum, false)
			if x.es(2015) && len(nv) > 0 {
				x.feat("shorthand-prop")
				b := nv[x.n("shv", len(nv)-1)]
				parts = append(parts, x.ref(b))
				x.prog.Public = append(x.prog.Public, b.name)
				continue
			}
			fallthrough
		case 3:
			if x.es(2015) {
				x.feat("method-prop")
				parts = append(parts, k+"(){"+x.s()+"return "+x.numLeaf().s+"}")
				continue
			}
			fallthrough
		case 4:
			x.feat("getter-prop")
			parts = append(parts, "get "+k+"(){return "+x.numLeaf().s+"}")
		case 5:
			if x.es(2018) && len(vs) > 0 {
				x.feat("spread-object")
				parts = append(parts, "..."+x.ref(vs[0]))
				continue
			}
			fallthrough
		case 6:
			parts = append(parts, fmt.Sprint(x.n("numkey", 9))+":"+x.par(x.numExpr(d-1), 1))
		default:
			parts = append(parts, k+x.s()+":"+x.s()+x.par(x.anyExpr(d-1), 1))
		}
		x.prog.Public = append(x.prog.Public, k)
	}
	x.prog.Public = append(x.prog.Public, "p")
	return expr{"{" + x.s() + strings.Join(parts, x.s()+","+x.nl()) + x.s() + "}", 17}
}

func (x *g) anyExpr(d int) expr {
	if d <= 0 || x.budget <= 0 {
		switch x.n("anyleaf", 5) {
		case 0:
			return expr{"null", 17}
		case 1:
			return expr{x.pick("undef", []string{"undefined", "void 0"}), 14}
		case 2:
			return x.strLeaf()
		case 3:
			return x.boolLeaf()
		}
		return x.numLeaf()
	}
	x.budget--
	switch x.n("anykind", 15) {
	case 15:
		// old syntax that has a shorter spelling in a newer edition: what a minifier may only use when the target allows it
		os := x.visible(func(b *binding) bool { return b.typ == tObj || b.typ == tAny })
		v := x.pick("baitbase", []string{"[null][0]", "[{p:{q:1},m(){return 2}}][0]", "undefined"})
		if len(os) > 0 && x.chance("baitvar", 2) {
			v = x.ref(os[x.n("baitobj", len(os)-1)])
		}
		simple := !strings.HasPrefix(v, "[")
		if !simple {
			// the tested value must be a plain reference for the rewrite to apply: bind it
			x.feat("newer-syntax-bait")
			form := x.pick("baitform1", []string{"V==null?undefined:V.p", "V===null||V===undefined?undefined:V.p.q", "V==null?void 0:V.m()", "V!=null?V.p:undefined", "V==null?W:V", "V!=null?V:W", "V===null||V===void 0?W:V", "V===undefined||V===null?undefined:V[\"p\"]"})
			w := x.par(x.numExpr(d-1), 1)
			return expr{"(function(V){return " + strings.ReplaceAll(form, "W", w) + "})(" + v + ")", 16}
		}
		x.feat("newer-syntax-bait")
		form := x.pick("baitform2", []string{"V==null?undefined:V.p", "V===null||V===undefined?undefined:V.p.q", "V==null?void 0:V.m()", "V!=null?V.p:undefined", "V==null?W:V", "V!=null?V:W", "V===null||V===void 0?W:V", "Math.pow(W,2)", "Math.pow(2,W)"})
		w := x.par(x.numExpr(d-1), 1)
		if strings.HasPrefix(form, "Math.pow(W") && (strings.Contains(w, "++") || strings.Contains(w, "--")) && x.guard("noPrefixUpdateExpBase") {
			// known finding: Math.pow(++a,2) becomes ++a**2
			x.prog.Excluded["noPrefixUpdateExpBase"]++
			w = x.numLit()
		}
		return expr{strings.ReplaceAll(strings.ReplaceAll(form, "W", w), "V", v), 2}
	case 0, 1, 2:
		return x.numExpr(d)
	case 3, 4:
		return x.strExpr(d)
	case 5:
		return x.boolExpr(d)
	case 6:
		return x.arrExpr(d)
	case 7:
		return x.objExpr(d)
	case 8:
		return expr{"null", 17}
	case 9:
		if x.es(2020) {
			os := x.visible(func(b *binding) bool { return b.typ == tObj || b.typ == tAny })
			if len(os) > 0 {
				o := os[x.n("optobj", len(os)-1)]
				x.feat("optional-chain")
				if x.chance("optgroup", 3) {
					// a parenthesised optional chain ends the short-circuit: what follows the group is evaluated (and throws) on a nullish base
					base := x.ref(o)
					if x.chance("optnullbase", 2) {
						base = x.pick("optbase", []string{"[null][0]", "[void 0][0]", "[{p:{q:{r:1}},m(){return{q:2}}}][0]"})
					}
					form := x.pick("optgroupform", []string{"(B?.p)[\"q\"]", "(B?.p).q", "(B?.m)()", "(B?.m()).q", "(B?.p.q).r", "(B?.p.q)[\"r\"]", "(B?.p[\"q\"]).r", "(B?.m().q).toFixed()", "(B?.p)?.q", "(B?.[\"p\"]).q", "new (B?.C)", "(B?.p.q)``"})
					if (strings.HasPrefix(form, "(B?.p.q).") || strings.HasPrefix(form, "(B?.m()).") || strings.HasPrefix(form, "(B?.m().q).") || strings.HasPrefix(form, "(B?.p[\"q\"]).")) && x.guard("noDeepOptionalGroupMember") {
						x.prog.Excluded["noDeepOptionalGroupMember"]++
						form = "(B?.p.q)[\"r\"]"
					}
					x.feat("optional-chain-group")
					return expr{strings.Replace(form, "B", base, 1), 16}
				}
				switch x.n("optform", 4) {
				case 0:
					return expr{x.ref(o) + "?.p", 16}
				case 1:
					return expr{x.ref(o) + "?.[" + x.strLit() + "]", 16}
				case 2:
					return expr{x.ref(o) + "?.q?.r", 16}
				case 3:
					return expr{x.ref(o) + "?.m?.(" + x.numLeaf().s + ")", 16}
				default:
					if !x.guard("noParenOptionalCall") {
						return expr{"(" + x.ref(o) + "?.p).toString", 16}
					}
					return expr{x.ref(o) + "?.p", 16}
				}
			}
		}
	case 10:
		vs := x.vars(tAny, false)
		if len(vs) > 0 {
			return expr{x.ref(vs[x.n("anyv", len(vs)-1)]), 17}
		}
	case 11:
		c, a, b := x.boolExpr(d-1), x.anyExpr(d-1), x.anyExpr(d-1)
		x.feat("conditional-any")
		return expr{x.par(c, 3) + x.s() + "?" + x.s() + x.par(a, 1) + x.s() + ":" + x.s() + x.par(b, 1), 2}
	case 12:
		a, b := x.anyExpr(d-1), x.anyExpr(d-1)
		op := x.pick("anylog", []string{"||", "&&"})
		p := 3
		if op == "&&" {
			p = 4
		}
		x.feat("logical-any:" + op)
		return expr{x.par(a, p+1) + x.s() + op + x.nl() + x.par(b, p+1), p}
	case 13:
		return x.log(x.anyExpr(d - 1))
	case 14:
		vs := x.vars(tAny, true)
		if len(vs) > 0 {
			x.feat("assign-any")
			return expr{x.ref(vs[x.n("anyasg", len(vs)-1)]) + x.s() + "=" + x.s() + x.par(x.anyExpr(d-1), 1), 1}
		}
	}
	return x.numExpr(d - 1)
}

func (x *g) exprOf(ty typ, d int) expr {
	switch ty {
	case tNum:
		return x.numExpr(d)
	case tStr:
		return x.strExpr(d)
	case tBool:
		return x.boolExpr(d)
	case tArr:
		return x.arrExpr(d)
	case tObj:
		return x.objExpr(d)
	}
	return x.anyExpr(d)
}

// iife: immediately invoked function / arrow returning a value of type ty
func (x *g) iife(d int, ty typ) expr {
	x.feat("iife")
	if x.es(2015) && x.chance("arrowiife", 2) {
		body := x.fnBody(nil, d, ty, true, fnOpts{arrow: true})
		return expr{"(" + x.s() + "()" + x.s() + "=>" + x.s() + body + ")()", 16}
	}
	body := x.fnBody(nil, d, ty, false, fnOpts{})
	if x.chance("iifeform", 2) {
		return expr{"(function" + x.s() + "()" + body + ")()", 16}
	}
	return expr{"(function" + x.s() + "()" + body + "())", 17}
}

type fnOpts struct {
	arrow, async, gen, method bool
}

// fnBody generates "{...}" (or an expression body for arrows when allowed) in a new function scope.
// params are declared by the caller through the callback-less convention: names given here.
func (x *g) fnBody(params []string, d int, ret typ, allowExprBody bool, o fnOpts) string {
	parent := x.sc.fscope
	info := &fnInfo{varNames: map[string]bool{}, lexNames: map[string]bool{}, depth: parent.depth + 1, async: o.async, gen: o.gen, arrow: o.arrow}
	info.hasThis = o.method || (o.arrow && parent.hasThis)
	if info.depth > x.prog.MaxDepth {
		x.prog.MaxDepth = info.depth
	}
	savedLoops, savedLabels, savedSwitch := x.loops, x.labels, x.inSwitch
	x.loops, x.labels, x.inSwitch = 0, nil, 0
	x.push(true, info)
	for _, p := range params {
		x.declare(p, "param", tNum, true)
	}
	defer func() {
		x.pop()
		x.loops, x.labels, x.inSwitch = savedLoops, savedLabels, savedSwitch
	}()
	if allowExprBody && o.arrow && x.chance("exprbody", 2) {
		x.feat("arrow-expr-body")
		e := x.exprOf(ret, d-1)
		s := x.par(e, 1)
		if strings.HasPrefix(s, "{") {
			s = "(" + s + ")"
		}
		return s
	}
	var sb strings.Builder
	sb.WriteString("{")
	if !x.strict && !o.arrow && x.chance("fnstrict", 14) {
		sb.WriteString("\"use strict\";")
		x.feat("function-use-strict")
		x.strict = true
		defer func() { x.strict = false }()
	}
	if !x.strict && !o.arrow && !o.method && x.chance("nodirective", 12) {
		// a string statement that is no directive because something precedes it; the function stays sloppy, which
		// shows in its this value when called plainly
		x.feat("string-statement-no-directive")
		nd := x.pick("nodirective2", []string{";\"use strict\";", "0;\"use strict\";", "(\"use strict\");", "\"use strict\"+\"\";", ";;'use strict';", "1?\"use strict\":0;"})
		if (strings.Contains(nd, "+") || strings.Contains(nd, "?")) && x.guard("noFoldedStringStatement") {
			x.prog.Excluded["noFoldedStringStatement"]++
			nd = "{}\"use strict\";"
		}
		sb.WriteString(nd)
		// what follows must not be an expression statement every time: those are merged with the string into one expression
		switch x.n("nodirectiveobs", 2) {
		case 0:
			sb.WriteString("$(this===void 0);")
		case 1:
			sb.WriteString("if(this===void 0)$(1);else $(2);")
		default:
			x.counter++
			sb.WriteString(fmt.Sprintf("var sd%d=this===void 0;$(sd%d);", x.counter, x.counter))
		}
	}
	n := x.n("fnstmts", 4)
	sb.WriteString(x.stmts(n, d-1))
	if x.chance("noreturn", 8) {
		sb.WriteString("}")
		return sb.String()
	}
	sb.WriteString(x.sep(sb.String()))
	sb.WriteString("return" + returnArg(x.par(x.exprOf(ret, d-1), 0)))
	sb.WriteString(x.pick("retsemi", []string{"", ";", ";\n"}))
	sb.WriteString("}")
	return sb.String()
}

func returnArg(s string) string {
	if s == "" {
		return ""
	}
	c := s[0]
	if c == '(' || c == '[' || c == '"' || c == '\'' || c == '`' || c == '!' || c == '-' || c == '+' || c == '~' || c == '{' || c == '/' || c == '.' {
		return s
	}
	return " " + s
}

// ---------------------------------------------------------------------------
// statements

// sep returns the separator to put after the previous statement text.
func (x *g) sep(prev string) string {
	if prev == "" || strings.HasSuffix(prev, "{") || strings.HasSuffix(prev, ";") || strings.HasSuffix(prev, ";\n") || strings.HasSuffix(prev, "}\n") {
		return ""
	}
	if strings.HasSuffix(prev, "}") && x.chance("nosepafterbrace", 2) {
		// statements ending in a block need no separator; expression statements ending in } do, so only skip for block-like ends
		return "\n"
	}
	switch x.n("sep", 7) {
	case 0:
		return "\n"
	case 1:
		return ";\n"
	case 2:
		return " ;"
	}
	return ";"
}

func (x *g) stmts(n int, d int) string {
	var sb strings.Builder
	for i := 0; i < n && x.budget > 0; i++ {
		s := x.stmt(d)
		if s == "" {
			continue
		}
		cur := sb.String()
		sep := x.sep(cur)
		if sep == "\n" || sep == "" && strings.HasSuffix(cur, "}") {
			// ASI: a following statement that starts with one of these would continue the previous one;
			// that is still valid JS, but after a declaration it is usually a syntax error - keep it legal
			if len(s) > 0 && strings.ContainsRune("([`+-/*.,<>=!&|^%?:", rune(s[0])) {
				sep = ";"
			}
		}
		sb.WriteString(sep)
		sb.WriteString(s)
	}
	return sb.String()
}

func (x *g) block(n, d int) string {
	x.push(false, nil)
	defer x.pop()
	return "{" + x.s() + x.stmts(n, d) + x.s() + "}"
}

// body of if/loop: block, single statement, or empty
func (x *g) subStmt(d int) string {
	switch x.n("substmt", 5) {
	case 0:
		x.push(false, nil)
		defer x.pop()
		old := x.sc.noLex
		x.sc.noLex = true
		defer func() { x.sc.noLex = old }()
		s := x.simpleStmt(d)
		if s == "" {
			return ";"
		}
		return s + ";"
	case 1:
		x.feat("empty-sub-statement")
		return ";"
	}
	return x.block(1+x.n("blockn", 2), d)
}

func (x *g) simpleStmt(d int) string {
	switch x.n("simple", 6) {
	case 0:
		return x.log(x.anyExpr(d)).s
	case 1:
		vs := x.vars(tNum, true)
		if len(vs) > 0 {
			v := vs[x.n("sv", len(vs)-1)]
			return x.ref(v) + x.s() + x.pick("sop", []string{"=", "+=", "-="}) + x.s() + x.par(x.numExpr(d), 1)
		}
	case 2:
		if x.loops > 0 && x.chance("brk", 2) {
			x.feat("break")
			if len(x.labels) > 0 && x.chance("lbl", 2) {
				x.feat("labelled-jump")
				return x.pick("jump", []string{"break", "continue"}) + " " + x.labels[x.n("lblidx", len(x.labels)-1)]
			}
			if x.inSwitch > 0 {
				return "break"
			}
			return x.pick("jump2", []string{"break", "continue"})
		}
	case 3:
		if !x.sc.fscope.top {
			x.feat("early-return")
			if x.chance("retvoid", 3) {
				return "return"
			}
			return "return" + returnArg(x.par(x.numExpr(d), 0))
		}
	case 4:
		fs := x.visible(func(b *binding) bool { return b.typ == tFn })
		if len(fs) > 0 {
			return x.call(fs[x.n("scall", len(fs)-1)], d).s
		}
	}
	e := x.numExpr(d)
	s := x.par(e, 0)
	if strings.HasPrefix(s, "{") || strings.HasPrefix(s, "function") || strings.HasPrefix(s, "class") || strings.HasPrefix(s, "let") {
		s = "(" + s + ")"
	}
	return "$(" + s + ")"
}

func (x *g) stmt(d int) string {
	if x.budget <= 0 {
		return ""
	}
	x.budget--
	if d <= 0 {
		return x.declOrSimple(d)
	}
	k := x.n("stmtkind", 32)
	if x.cfg.ScopeMode && x.chance("scopeheavy", 2) {
		// C02: favour constructs that open scopes and declare names
		k = []int{17, 18, 19, 24, 21, 10, 15, 20, 23, 22, 14, 0, 17, 24}[x.n("scopekind", 13)]
	}
	switch k {
	case 0, 1, 2, 3, 4:
		return x.varDecl(d)
	case 5, 6:
		return x.simpleStmt(d)
	case 7, 8, 9:
		return x.ifStmt(d)
	case 10, 11:
		return x.forStmt(d)
	case 12:
		return x.whileStmt(d)
	case 13:
		return x.forInOf(d)
	case 14:
		return x.switchStmt(d)
	case 15, 16:
		return x.tryStmt(d)
	case 17, 18, 19:
		return x.funcDecl(d)
	case 20:
		if x.es(2015) && !x.sc.noLex {
			return x.classDecl(d)
		}
	case 21:
		x.feat("block")
		return x.block(1+x.n("bn", 3), d-1)
	case 22:
		return x.labelled(d)
	case 23:
		if x.es(2015) {
			return x.destructure(d)
		}
	case 24:
		return x.closureStmt(d)
	case 25:
		x.feat("empty-statement")
		return ";"
	case 26:
		return x.asyncGen(d)
	case 27:
		if !x.strict && x.cfg.Goal == "sloppy" {
			// known findings C01-with-outer-rename / C02-with-nested-function: a with statement inside a
			// NESTED function interacts badly with renaming in the enclosing functions
			if x.guard("noWithInNestedFunction") && !x.sc.fscope.top {
				x.prog.Excluded["noWithInNestedFunction"]++
				return x.simpleStmt(d)
			}
			return x.withStmt(d)
		}
	case 28:
		return x.throwInTry(d)
	case 29:
		return x.objMutate(d)
	case 30, 31:
		if c := x.corner(d); c != "" {
			return c
		}
	}
	return x.declOrSimple(d)
}

// corner: statements around rarely used but valid syntax, built from templates whose holes are filled with generated
// expressions: E a number expression, S a string literal, N a number literal, V a fresh variable (declared by the
// template). Every template is self-contained (own block or function) and shows its effects through $.
func (x *g) corner(d int) string {
	type tmpl struct {
		es   int
		feat string
		t    string
	}
	ts := []tmpl{
		{2021, "logical-assignment", "{let V=N;V||=(E,E);$(V);V&&=(E,E);$(V);V??=E;if(V||=E){}$(V);void(V&&=E);$(V)}"},
		{2021, "logical-assignment", "{let V=0,W=null;$(V||=E,W??=(E,E),V&&=E);$(V,W)}"},
		{5, "string-escapes", "$(S+S,\"\\0\"+\"0\",\"a\\0\"+\"1\",\"\\1\"+\"2\",\"\\12\"+\"3\",\"\\377\",\"\\200x\")"},
		{2015, "string-escapes-unicode", "$(\"\\u005c\",\"\\u{5c}n\",\"\\u{5c}\\u{5c}\",`\\u005c`,\"\\u0022\",'\\u0027',`\\u0024{V}`,\"\\x5c\",\"\\134\")"},
		{2020, "bigint-literals", "$(typeof 0x10000000000n,0x10000000000n===1099511627776n,0b1111111111111111111111111111111111111111111111111111111111111111111n>0n,0o7777777777777777777777n>0n,0xffn,!0n,!12n)"},
		{2021, "numeric-separators", "$((1_0.5_0).toString(),(1_0e1_0).toString(),(1_000).toString(),!0.0_0,!1_0,1_0.0_1+E)"},
		{5, "underflow-literal", "$(1e-400?1:2,!1e-400,0e5?1:2,1e400?1:2,0.0e-3?E:E)"},
		{2022, "class-expression-operand", "(class{static s=0}).s||$(E);(class{static s=1}).s&&$(E);try{(class{}).x=E;$(1)}catch(e){$(e)}"},
		{2022, "class-expression-effects", "{let V=class{static x=$(E)}}void class{static{$(E)}};if(class extends $(Object){}){}(function(a=class{static{$(E)}}){})();$(E)"},
		{5, "same-constant-null-check", "(function(V){$(V===null||V===null,V===undefined||V===undefined,V!==undefined&&V!==undefined,V===null||V===undefined,V!==null&&V!==void 0)})(UNDEFNULL)"},
		{5, "bang-comment-block", "{var V=E;if(V>1e9){/*!c*/}$(1);while(typeof V==\"x\"){/*!c*/}$(2);if(V){/*!c*/}else{$(3)}do{/*!c*/}while(typeof V==\"x\");$(4)}"},
		{5, "labelled-function-block", "if(E){l:function lf(){}}"},
		{2015, "shorthand-globals", "$({undefined},{Infinity},{NaN})"},
		{5, "shadowed-globals", "$((function(undefined){return undefined})(E),(function(NaN){return NaN?1:2})(E),(function(undefined,a){return a===null||a===undefined})(E,E),(function(Infinity){return Infinity})(E))"},
		{5, "string-no-directive", "(function(){\"use\\x20strict\";return this===void 0})()"},
		{2015, "object-method-outer-ref", "(function(V){$(({m(){return [V]},get g(){return {V}}}).m())})(E)"},
		{5, "const-cond-reference", "(function(o){$((1?o.f:0)(),typeof(1?o.f:0))})({f:function(){return this===void 0||this===globalThis}})"},
		{5, "callee-before-condition", "(function(){var f=function(){return 1};function c(){f=function(){return 2};return E}$(c()?f(1):f(2))})()"},
		{2020, "generated-optional-chain", "(function(a){try{$((a==null?undefined:a.b).c)}catch(e){$(\"T\")}try{$((a==null?undefined:a.b)())}catch(e){$(\"T\")}})(UNDEFNULL)"},
		{2020, "math-trunc-coalesce", "(function(a,b){$(Math.pow(a??b,2))})(E,E)"},
		{5, "arguments-var", "(function(){var arguments;return typeof arguments})(E)"},
		{2015, "class-name-binding", "(function(){var D=E;var C=class D{m(){return typeof D}};$(new C().m())})()"},
		{2015, "param-later-param", "(function(){var q=E;function g(a=()=>q,q){return[a(),q]}$(g(void 0,E))})()"},
		{5, "catch-var-same-name", "(function(){try{throw E}catch(e){var e=E}return e})()"},
		{2022, "static-block-var", "{var sbv=E;class SK{static{var sbv=E}}$(sbv)}"},
		{5, "with-builtins", "with({undefined:E,Infinity:E})$(undefined,Infinity)"},
		{5, "comma-constant-condition", "{var V=0;var W=function(){V++;return V};$((W(),1)?E:E,(W(),0)?E:E,(W(),\"\")?E:E,(W(),null)?E:E,(W(),\"s\")?E:E,(W(),!0)?E:E);if(W(),1)$(V);else $(-V);if(W(),0)$(-V);$(V)}"},
		{2020, "cond-same-or-coalesce", "(function(V,W){$(V?V:W??E,V?V:(W??E),V?V:W||E,V?V:W&&E)})(E,UNDEFNULL)"},
		// literals only (LIT): with names kept the else block is dissolved into the switch (known finding), nothing outside may see its names
		{2015, "switch-else-lexical", "(function(pa,pb){var lc=LIT;switch(pa){case 1:if(pb>1e9){break}else{let e=LIT,t=LIT,n=LIT;$(e,t,n,pa,pb,lc)}case 2:{let r=LIT;$(r,pa)}}})(1,LIT)"},
		{2015, "switch-else-lexical", "(function(pa){let lo=LIT;switch(pa){case 1:if(lo>1e9){return}else{const t=LIT,e=LIT;class n{};$(t,e,typeof n,pa,lo)}}})(1)"},
		// the free variable of the default value gets the second (third) short name, the function has one parameter: the name falls to a body variable next
		{2015, "param-default-free-var", "(function(){var V=LIT,W=LIT;V++;V+=2;V++;$((function(pa=W){var lq=pa*2;return lq+W})(),V)})()"},
		{2015, "param-default-free-var", "(function(){var V=LIT,W=LIT,cx=LIT;V++;V++;V++;V++;W++;W++;$(((pa=cx)=>{let lq=pa+1,lr=pa+2;return lq+lr+cx})(),({m(pa=cx){const lq=3,lr=4;return lq+lr+cx+pa}}).m(),V,W)})()"},
		{5, "many-locals", "MANYLOCALS"},
	}
	t := ts[x.n("corner", len(ts)-1)]
	if !x.es(t.es) || x.strict && strings.HasPrefix(t.t, "with") || x.cfg.Goal != "sloppy" && strings.HasPrefix(t.t, "with") {
		return ""
	}
	if (t.feat == "with-builtins" || t.feat == "arguments-var" || t.feat == "class-name-binding" || t.feat == "param-later-param" || t.feat == "catch-var-same-name" || t.feat == "static-block-var" || t.feat == "object-method-outer-ref" || t.feat == "const-cond-reference" || t.feat == "callee-before-condition" || t.feat == "generated-optional-chain") && x.guard("noKnownCorner:"+t.feat) {
		x.prog.Excluded["noKnownCorner:"+t.feat]++
		return ""
	}
	if t.feat == "labelled-function-block" && (x.strict || x.cfg.Goal != "sloppy") {
		return "" // labelled function declarations are sloppy mode only
	}
	if t.feat == "string-escapes" && (x.strict || x.cfg.Goal != "sloppy") {
		return "" // legacy octal escapes
	}
	if t.feat == "string-no-directive" && (x.strict || x.cfg.Goal != "sloppy") {
		return ""
	}
	x.feat("corner:" + t.feat)
	out := t.t
	x.counter++
	if out == "MANYLOCALS" {
		// one scope with more variables than there are one-letter (and then two-letter) names
		n := []int{60, 170, 170, 300, 300, 1200}[x.n("manylocals", 5)]
		var decl, sum strings.Builder
		for i := 0; i < n; i++ {
			if i > 0 {
				decl.WriteString(",")
				sum.WriteString("+")
			}
			fmt.Fprintf(&decl, "ml%d_%d=%d", x.counter, i, i)
			fmt.Fprintf(&sum, "ml%d_%d", x.counter, i)
		}
		return "$((function(){var " + decl.String() + ";return " + sum.String() + "})())"
	}
	out = strings.ReplaceAll(out, "V", fmt.Sprintf("cv%d", x.counter))
	out = strings.ReplaceAll(out, "W", fmt.Sprintf("cw%d", x.counter))
	for strings.Contains(out, "UNDEFNULL") {
		out = strings.Replace(out, "UNDEFNULL", x.pick("undefnull", []string{"null", "void 0", "0", "\"\""}), 1)
	}
	for strings.Contains(out, "LIT") {
		out = strings.Replace(out, "LIT", x.numLit(), 1)
	}
	for strings.Contains(out, "E") {
		i := strings.Index(out, "E")
		// only a hole when it stands alone
		if i > 0 && (out[i-1] == '_' || out[i-1] >= 'a' && out[i-1] <= 'z' || out[i-1] >= 'A' && out[i-1] <= 'Z' || out[i-1] >= '0' && out[i-1] <= '9') || i+1 < len(out) && (out[i+1] >= 'a' && out[i+1] <= 'z' || out[i+1] >= 'A' && out[i+1] <= 'Z' || out[i+1] >= '0' && out[i+1] <= '9') {
			out = out[:i] + "\x00" + out[i+1:]
			continue
		}
		out = out[:i] + x.par(x.numLeaf(), 1) + out[i+1:]
	}
	out = strings.ReplaceAll(out, "\x00", "E")
	for strings.Contains(out, "S+S") {
		out = strings.Replace(out, "S+S", x.strLit()+"+"+x.strLit(), 1)
	}
	for strings.Contains(out, "=N;") {
		out = strings.Replace(out, "=N;", "="+x.numLit()+";", 1)
	}
	return out
}

func (x *g) declOrSimple(d int) string {
	if x.chance("decl", 2) {
		return x.varDecl(d)
	}
	return x.simpleStmt(d)
}

func (x *g) declKind() string {
	if x.sc.noLex || !x.es(2015) {
		return "var"
	}
	return x.pick("declkind", []string{"var", "let", "const", "let", "var"})
}

func (x *g) varDecl(d int) string {
	kind := x.declKind()
	n := 1 + x.n("ndecl", 2)
	if x.chance("singledecl", 2) {
		n = 1
	}
	var parts []string
	type pend struct {
		nm string
		ty typ
	}
	var pends []pend
	for i := 0; i < n; i++ {
		ty := []typ{tNum, tNum, tNum, tStr, tBool, tArr, tObj, tAny, tNum}[x.n("decltype", 8)]
		if kind == "var" && x.chance("noinit", 6) {
			nm := x.freshName(kind)
			x.declare(nm, kind, tAny, true)
			parts = append(parts, nm)
			x.feat("decl-without-init")
			continue
		}
		init := x.exprOf(ty, d)
		nm := x.freshName(kind)
		// the initialiser was generated before the name exists: no self reference / TDZ
		if x.sc.used[nm] && kind != "var" {
			nm = x.freshName(kind)
		}
		pends = append(pends, pend{nm, ty})
		x.declare(nm, kind, ty, kind != "const")
		parts = append(parts, nm+x.s()+"="+x.s()+x.par(init, 1))
	}
	x.feat("decl:" + kind)
	return kind + " " + strings.Join(parts, x.s()+","+x.nl())
}

func (x *g) ifStmt(d int) string {
	c := x.boolExpr(d)
	if x.chance("ifanycond", 4) {
		c = x.anyExpr(d)
	}
	x.feat("if")
	s := "if" + x.s() + "(" + x.s() + x.par(c, 0) + x.s() + ")" + x.s() + x.subStmt(d-1)
	if x.chance("else", 2) {
		x.feat("if-else")
		// known finding C01-else-unscope-keepnames: when the then-branch ends in a jump the else block is
		// dissolved into the enclosing scope, its let/const declarations included (only correct when
		// renaming). With the guard such an else branch declares nothing lexical.
		jump := strings.Contains(s, "break") || strings.Contains(s, "continue") || strings.Contains(s, "return") || strings.Contains(s, "throw")
		if jump && x.guard("noElseLexicalAfterJump") {
			x.prog.Excluded["noElseLexicalAfterJump"]++
			x.push(false, nil)
			x.sc.noLex = true
			inner := x.stmts(1+x.n("elsen", 2), d-1)
			x.pop()
			els := "{" + inner + "}"
			if strings.Contains(inner, "let ") || strings.Contains(inner, "const ") || strings.Contains(inner, "class ") || strings.Contains(inner, "function") {
				els = "{$(" + x.numLit() + ")}"
			}
			// both branches end in a jump and the then-branch declares something lexical: the condition may be inverted and
			// the then-block dissolved instead (same finding)
			if lexThen := strings.Contains(s, "let ") || strings.Contains(s, "const ") || strings.Contains(s, "class ") || strings.Contains(s, "function"); lexThen &&
				(strings.Contains(inner, "break") || strings.Contains(inner, "continue") || strings.Contains(inner, "return") || strings.Contains(inner, "throw")) {
				els = "{$(" + x.numLit() + ")}"
			}
			return s + "else" + els
		}
		lexThen := strings.Contains(s, "let ") || strings.Contains(s, "const ") || strings.Contains(s, "class ") || strings.Contains(s, "function")
		els := x.subStmt(d - 1)
		if lexThen && x.guard("noElseLexicalAfterJump") && (strings.Contains(els, "break") || strings.Contains(els, "continue") || strings.Contains(els, "return") || strings.Contains(els, "throw")) {
			// mirrored form of the same finding: if(!a){let ..}else return  =>  if(a)return;let ..
			x.prog.Excluded["noElseLexicalAfterJump"]++
			els = "{$(" + x.numLit() + ")}"
		}
		if x.chance("elseif", 4) && !(lexThen && x.guard("noElseLexicalAfterJump")) {
			x.feat("else-if")
			els = x.ifStmt(d - 1)
		}
		// the then-branch always ends in ; or }
		sep := x.s()
		if len(els) > 0 && (els[0] == '_' || els[0] == '$' || els[0] >= 'a' && els[0] <= 'z' || els[0] >= 'A' && els[0] <= 'Z' || els[0] >= '0' && els[0] <= '9') && (sep == "" || sep == "/**/") {
			sep = " "
		}
		s += "else" + sep + els
	}
	return s
}

func (x *g) loopVar() (string, string) {
	x.counter++
	nm := fmt.Sprintf("k%d", x.counter)
	return nm, fmt.Sprint(1 + x.n("bound", 3))
}

func (x *g) forStmt(d int) string {
	nm, bound := x.loopVar()
	x.feat("for")
	x.push(false, nil)
	defer x.pop()
	kind := "var"
	if x.es(2015) && x.chance("forlet", 2) {
		kind = "let"
	}
	b := x.declare(nm, kind, tNum, false)
	_ = b
	init := kind + " " + nm + x.s() + "=" + x.s() + "0"
	if kind == "var" && x.chance("forinitoutside", 5) {
		// for(;cond;upd) with the counter declared before
		x.loops++
		body := x.subStmt(d - 1)
		x.loops--
		return "var " + nm + "=0;for" + x.s() + "(" + x.s() + ";" + nm + "<" + bound + ";" + nm + "++" + x.s() + ")" + body
	}
	if x.chance("forextra", 4) {
		ie := x.par(x.numExpr(1), 1) // before the name exists: no self reference (TDZ)
		v := x.freshName(kind)
		x.declare(v, kind, tNum, true)
		init += "," + x.s() + v + "=" + ie
	}
	upd := x.pick("forupd", []string{nm + "++", "++" + nm, nm + "+=1", nm + "=" + nm + "+1"})
	pre := ""
	if x.es(2015) && x.chance("forinarrow", 5) {
		// an arrow function with a concise body that uses the in operator, in or right in front of the for initialiser
		// (a var statement in front of a loop is merged into its head): the body needs parentheses there
		x.feat("in-operator-in-arrow-near-for-init")
		f := x.freshName(kind)
		x.declare(f, kind, tAny, false)
		arrow := "k" + x.s() + "=>" + x.s() + "k in" + x.s() + "[7,8]"
		if kind == "var" && x.chance("beforeloop", 2) {
			pre = "var " + f + "=" + arrow + ";"
		} else {
			init += "," + x.s() + f + "=" + arrow
		}
		upd += "," + "$(" + f + "(" + nm + "))"
	}
	x.loops++
	body := x.subStmt(d - 1)
	x.loops--
	return pre + "for" + x.s() + "(" + x.s() + init + x.s() + ";" + x.s() + nm + x.s() + "<" + x.s() + bound + ";" + x.s() + upd + x.s() + ")" + x.s() + body
}

func (x *g) whileStmt(d int) string {
	nm, bound := x.loopVar()
	x.declare(nm, "var", tNum, false)
	x.loops++
	defer func() { x.loops-- }()
	if x.chance("dowhile", 2) {
		x.feat("do-while")
		body := x.subStmt(d - 1)
		return "var " + nm + "=0;do " + body + x.s() + "while" + x.s() + "(" + "++" + nm + "<" + bound + ")"
	}
	x.feat("while")
	return "var " + nm + "=0;while" + x.s() + "(" + nm + "++" + x.s() + "<" + x.s() + bound + ")" + x.s() + x.subStmt(d-1)
}

func (x *g) forInOf(d int) string {
	x.push(false, nil)
	defer x.pop()
	kind := x.declKind()
	if kind == "var" && x.chance("forconst", 3) && x.es(2015) {
		kind = "const"
	}
	nm := x.freshName(kind)
	x.loops++
	defer func() { x.loops-- }()
	if x.es(2015) && x.chance("forof", 2) {
		x.feat("for-of")
		src := x.arrExpr(d - 1)
		x.declare(nm, kind, tNum, false)
		return "for" + x.s() + "(" + kind + " " + nm + " of " + x.par(src, 1) + ")" + x.subStmt(d-1)
	}
	x.feat("for-in")
	src := x.objExpr(d - 1)
	x.declare(nm, kind, tStr, false)
	return "for" + x.s() + "(" + kind + " " + nm + " in " + x.par(src, 1) + ")" + x.subStmt(d-1)
}

func (x *g) switchStmt(d int) string {
	x.feat("switch")
	disc := x.numExpr(d - 1)
	var sb strings.Builder
	sb.WriteString("switch" + x.s() + "(" + x.par(disc, 0) + "%3" + ")" + x.s() + "{")
	n := 1 + x.n("ncases", 3)
	x.inSwitch++
	x.loops++ // break is legal
	hasDefault := false
	for i := 0; i < n; i++ {
		if !hasDefault && x.chance("default", 4) {
			hasDefault = true
			x.feat("switch-default-middle")
			sb.WriteString("default:")
		} else {
			sb.WriteString("case " + fmt.Sprint(i) + ":")
		}
		if x.chance("emptycase", 5) {
			continue
		}
		x.push(false, nil)
		braces := x.chance("casebraces", 3)
		x.sc.noLex = !braces
		body := x.stmts(1+x.n("casen", 1), d-1)
		x.pop()
		if braces {
			body = "{" + body + "}"
		}
		sb.WriteString(body)
		if x.chance("casebreak", 3) != true {
			if body != "" && !strings.HasSuffix(body, ";") {
				// also after }: the last statement may be a declaration that ends in an object literal
				sb.WriteString(";")
			}
			sb.WriteString("break;")
		} else {
			x.feat("switch-fallthrough")
			if body != "" && !strings.HasSuffix(body, ";") {
				// also after }: the last statement may be a declaration that ends in an object literal
				sb.WriteString(";")
			}
		}
	}
	x.loops--
	x.inSwitch--
	sb.WriteString("}")
	return sb.String()
}

func (x *g) tryStmt(d int) string {
	x.feat("try")
	var sb strings.Builder
	sb.WriteString("try" + x.s())
	x.push(false, nil)
	body := x.stmts(1+x.n("tryn", 2), d-1)
	if x.chance("trythrow", 2) {
		x.feat("throw")
		if body != "" && !strings.HasSuffix(body, ";") {
			body += ";"
		}
		body += "throw" + returnArg(x.throwable(d))
	}
	x.pop()
	sb.WriteString("{" + body + "}")
	hasCatch := !x.chance("nocatch", 5)
	if hasCatch {
		x.push(false, nil)
		if x.es(2019) && x.chance("nobinding", 4) {
			x.feat("catch-without-binding")
			sb.WriteString("catch" + x.s())
		} else {
			nm := x.freshName("catch")
			x.declare(nm, "catch", tAny, true)
			sb.WriteString("catch" + x.s() + "(" + nm + ")" + x.s())
			if x.chance("logcatch", 2) {
				cb := "$(" + nm + ")"
				rest := x.stmts(x.n("catchn", 2), d-1)
				if rest != "" {
					cb += ";" + rest
				}
				sb.WriteString("{" + cb + "}")
				x.pop()
				goto fin
			}
		}
		sb.WriteString("{" + x.stmts(x.n("catchn", 2), d-1) + "}")
		x.pop()
	}
fin:
	if !hasCatch || x.chance("finally", 3) {
		x.feat("finally")
		sb.WriteString(x.s() + "finally" + x.s() + x.block(x.n("finn", 2), d-1))
	}
	return sb.String()
}

func (x *g) throwable(d int) string {
	switch x.n("throwable", 4) {
	case 0:
		return x.par(x.numExpr(d-1), 1)
	case 1:
		return x.strLit()
	case 2:
		return "new Error(\"u:" + fmt.Sprint(x.uniq()) + "\")"
	case 3:
		return x.par(x.objExpr(d-1), 1)
	}
	return "new TypeError(\"u:t\")"
}

func (x *g) throwInTry(d int) string {
	x.feat("engine-error-in-try")
	// engine-raised errors: only their class is observed
	bad := x.pick("engineerr", []string{"null.p", "undefined.q()", "(void 0)()", "new (1)", "null[0]=1", "({}).x.y", "[].x.y.z", "(1)()"})
	x.push(false, nil)
	nm := x.freshName("catch")
	x.declare(nm, "catch", tAny, true)
	s := "try{" + bad + "}catch(" + nm + "){$(" + nm + ")}"
	x.pop()
	return s
}

func (x *g) paramList(n int) ([]string, string) {
	var names, parts []string
	used := map[string]bool{}
	for i := 0; i < n; i++ {
		nm := rapid.SampledFrom(shortNames).Draw(x.t, "param")
		if used[nm] || reservedName[nm] {
			x.counter++
			nm = fmt.Sprintf("p%d", x.counter)
		}
		used[nm] = true
		names = append(names, nm)
		switch {
		case x.es(2015) && x.chance("paramdefaulteffect", 8):
			// an initializer with an effect: it runs whenever the argument is missing, whether or not the parameter is used
			x.feat("param-default-effect")
			parts = append(parts, nm+x.s()+"="+x.s()+"$("+x.numLit()+")")
		case x.es(2015) && i > 0 && x.chance("paramdefault", 5):
			x.feat("param-default")
			parts = append(parts, nm+x.s()+"="+x.s()+names[i-1]+"+"+x.numLit())
		case x.es(2015) && i == n-1 && x.chance("restparam", 10):
			x.feat("rest-param")
			parts = append(parts, "..."+nm)
		default:
			parts = append(parts, nm)
		}
	}
	return names, strings.Join(parts, x.s()+","+x.s())
}

func (x *g) funcDecl(d int) string {
	x.fnCount++
	arity := x.n("arity", 3)
	names, plist := x.paramList(arity)
	kind := "fn"
	var nm string
	inBlock := !x.sc.fn
	if inBlock {
		if x.sc.noLex {
			return x.simpleStmt(d)
		}
		// block-level function declarations get unique names (Annex B name clashes are outside the property's domain)
		x.counter++
		nm = fmt.Sprintf("f%d", x.counter)
		kind = "class" // lexical bookkeeping
	} else {
		nm = x.freshName("fn")
	}
	// rest parameter makes the last param an array: mark by not using it as number (bodies only use params as numbers via +)
	form := x.n("fnform", 5)
	if !x.es(2015) && form >= 2 {
		form = 0
	}
	var s string
	b := &binding{name: nm, typ: tFn, arity: arity, kind: kind}
	switch form {
	case 0, 1:
		x.feat("function-declaration")
		body := x.fnBody(names, d, tNum, false, fnOpts{})
		s = "function " + nm + x.s() + "(" + plist + ")" + x.s() + body
		bb := x.declare(nm, kind, tFn, false)
		bb.arity = arity
	case 2:
		x.feat("arrow-function")
		body := x.fnBody(names, d, tNum, true, fnOpts{arrow: true})
		k := x.declKind()
		if k == "var" && inBlock {
			k = "let"
		}
		nm = x.freshName(k)
		p := "(" + plist + ")"
		if arity == 1 && !strings.ContainsAny(plist, "=.") && x.chance("bareparam", 2) {
			p = plist
		}
		s = k + " " + nm + x.s() + "=" + x.s() + p + x.s() + "=>" + x.s() + body
		bb := x.declare(nm, k, tFn, false)
		bb.arity = arity
	case 3:
		x.feat("function-expression")
		body := x.fnBody(names, d, tNum, false, fnOpts{})
		k := x.declKind()
		if k == "var" && inBlock {
			k = "let"
		}
		nm = x.freshName(k)
		inner := ""
		if x.chance("namedfnexpr", 2) {
			inner = " " + rapid.SampledFrom(shortNames).Draw(x.t, "fnexprname")
			if reservedName[strings.TrimSpace(inner)] {
				inner = " fe"
			}
			// the name of a function expression shadows an outer variable of that name inside the body: the body was
			// generated with the outer one in mind (a string, say), so the name must not occur in it
			if regexp.MustCompile(`(^|[^\w$.])` + regexp.QuoteMeta(strings.TrimSpace(inner)) + `($|[^\w$])`).MatchString(body + " " + plist) {
				inner = " fe"
			}
			x.feat("named-function-expression")
		}
		s = k + " " + nm + x.s() + "=" + x.s() + "function" + inner + x.s() + "(" + plist + ")" + body
		bb := x.declare(nm, k, tFn, false)
		bb.arity = arity
	default:
		x.feat("function-declaration")
		body := x.fnBody(names, d, tNum, false, fnOpts{})
		s = "function " + nm + "(" + plist + ")" + body
		bb := x.declare(nm, kind, tFn, false)
		bb.arity = arity
	}
	_ = b
	return s
}

func (x *g) classDecl(d int) string {
	x.feat("class")
	nm := x.freshName("class")
	var sb strings.Builder
	ext := ""
	odd := false
	cs := x.vars(tClass, false)
	if len(cs) > 0 && x.chance("extends", 3) {
		x.feat("class-extends")
		ext = " extends " + x.ref(cs[x.n("extcls", len(cs)-1)])
	}
	sb.WriteString("class " + nm + ext + x.s() + "{")
	pn := rapid.SampledFrom(shortNames).Draw(x.t, "ctorparam")
	if reservedName[pn] {
		pn = "cp"
	}
	pre := ""
	if ext != "" {
		pre = "super(" + pn + ");"
	}
	sb.WriteString("constructor(" + pn + "){" + pre + "this.p=" + pn + ";$(" + pn + ")}")
	mp := rapid.SampledFrom(shortNames).Draw(x.t, "methodparam")
	if reservedName[mp] {
		mp = "mp"
	}
	sb.WriteString(x.s() + "m(" + mp + ")" + x.fnBody([]string{mp}, d-1, tNum, false, fnOpts{method: true}))
	sb.WriteString(x.s() + "get g()" + x.fnBody(nil, 1, tNum, false, fnOpts{method: true}))
	sb.WriteString(x.s() + "static s(" + mp + ")" + x.fnBody([]string{mp}, 1, tNum, false, fnOpts{method: true}))
	if x.es(2022) && x.chance("classfield", 2) {
		x.feat("class-field")
		sb.WriteString(x.s() + "fld" + x.s() + "=" + x.s() + x.numLit() + ";")
		if x.chance("oddfieldname", 3) {
			// element names that are numbers, strings, computed or keywords, after static and without
			x.feat("class-odd-element-name")
			nm := x.pick("oddname", []string{"1", "\"s t\"", "[\"c\"+1]", "static", "get", "async", "0.5", "'q'", "in", "1e3"})
			st := x.pick("oddstatic", []string{"", "static ", "static\n"})
			odd = true
			if x.chance("oddmethod", 3) {
				sb.WriteString(st + nm + "(){return " + x.numLit() + "}")
			} else {
				sb.WriteString(st + nm + x.s() + "=" + x.s() + x.numLit() + ";")
			}
		}
		if x.chance("staticfield", 2) {
			x.feat("class-static-field")
			sb.WriteString("static sf=" + x.par(x.log(x.numLeaf()), 1) + ";")
		}
		if x.chance("privatefield", 3) {
			x.feat("class-private-field")
			sb.WriteString("#priv=" + x.numLit() + ";gp(){return this.#priv}")
		}
		if x.chance("staticblock", 3) && !x.guard("noStaticBlock") {
			x.feat("class-static-block")
			sb.WriteString("static{" + "$(" + x.numLit() + ")}")
		}
	}
	sb.WriteString("}")
	if odd {
		// show which own properties the class, its prototype and an instance have
		sb.WriteString(";$(Object.getOwnPropertyNames(" + nm + ").sort().join()+\"|\"+Object.getOwnPropertyNames(" + nm + ".prototype).sort().join()+\"|\"+Object.keys(new " + nm + "(0)).sort().join())")
	}
	x.declare(nm, "class", tClass, false)
	x.prog.Public = append(x.prog.Public, "m", "g", "s", "p")
	return sb.String()
}

func stripReturn(body string) string {
	// constructors must not return primitives with meaning; "return <num>" is legal (ignored) so keep as is
	return body
}

func (x *g) labelled(d int) string {
	x.feat("label")
	lbl := rapid.SampledFrom(shortNames).Draw(x.t, "label")
	if reservedName[lbl] {
		lbl = "lb"
	}
	for _, l := range x.labels {
		if l == lbl {
			x.counter++
			lbl = fmt.Sprintf("L%d", x.counter)
		}
	}
	x.prog.Public = append(x.prog.Public, lbl)
	x.labels = append(x.labels, lbl)
	defer func() { x.labels = x.labels[:len(x.labels)-1] }()
	nm, bound := x.loopVar()
	x.push(false, nil)
	defer x.pop()
	kind := "var"
	if x.es(2015) && x.chance("lbllet", 2) {
		kind = "let"
	}
	x.declare(nm, kind, tNum, false)
	x.loops++
	body := x.block(1+x.n("lbln", 2), d-1)
	x.loops--
	return lbl + x.s() + ":" + x.s() + "for(" + kind + " " + nm + "=0;" + nm + "<" + bound + ";" + nm + "++)" + body
}

func (x *g) destructure(d int) string {
	kind := x.declKind()
	x.feat("destructuring")
	// optionally a declarator with a logged initializer in front of the pattern and a logged source: the
	// evaluation order of the initializers is then part of the observation
	lead := ""
	wrap := func(s string) string { return s }
	if x.chance("leaddeclarator", 2) {
		x.feat("destructuring-after-initializer")
		v := x.freshName(kind)
		lead = v + x.s() + "=" + x.s() + "$(" + x.numLit() + ")" + x.s() + "," + x.s()
		x.declare(v, kind, tNum, kind != "const")
		wrap = func(s string) string { return "($(" + v + ")," + "$(" + s + "))" }
	}
	if x.chance("objpattern", 2) {
		src := x.objExpr(d - 1)
		a, b := x.freshName(kind), ""
		x.declare(a, kind, tAny, kind != "const")
		b = x.freshName(kind)
		x.declare(b, kind, tAny, kind != "const")
		pat := "{" + x.s() + "p" + x.s() + ":" + x.s() + a + x.s() + "," + x.s() + "q" + ":" + b + x.s() + "=" + x.s() + x.numLit()
		if x.es(2018) && x.chance("objrest", 3) {
			c := x.freshName(kind)
			x.declare(c, kind, tObj, false)
			pat += ",..." + c
			x.feat("object-rest")
		}
		pat += "}"
		x.prog.Public = append(x.prog.Public, "p", "q")
		return kind + " " + lead + pat + x.s() + "=" + x.s() + wrap(x.par(src, 1))
	}
	src := x.arrExpr(d - 1)
	a := x.freshName(kind)
	x.declare(a, kind, tAny, kind != "const")
	b := x.freshName(kind)
	x.declare(b, kind, tAny, kind != "const")
	pat := "[" + a + x.s() + "," + x.s() + b + "=" + x.numLit()
	if x.chance("arrrest", 3) {
		c := x.freshName(kind)
		x.declare(c, kind, tArr, false)
		pat += ",..." + c
		x.feat("array-rest")
	} else if x.chance("arrelision", 4) {
		pat = "[," + a + ",," + b
	}
	pat += "]"
	return kind + " " + lead + pat + x.s() + "=" + x.s() + wrap(x.par(src, 1))
}

// closure: a counter-like function capturing a mutable outer variable
func (x *g) closureStmt(d int) string {
	x.feat("closure")
	kind := x.declKind()
	if x.sc.noLex {
		kind = "var"
	}
	v := x.freshName(kind)
	x.declare(v, kind, tNum, kind != "const")
	init := x.numLit()
	var sb strings.Builder
	sb.WriteString(kind + " " + v + "=" + init + ";")
	fk := x.declKind()
	f := x.freshName(fk)
	vs := x.vars(tNum, true)
	target := v
	if len(vs) > 0 {
		target = x.ref(vs[x.n("closuretarget", len(vs)-1)])
	}
	var fn string
	if x.es(2015) && x.chance("closurearrow", 2) {
		fn = "()" + x.s() + "=>" + x.s() + "$(" + target + x.pick("clop", []string{"++", "+=2", "--"}) + ")"
	} else {
		fn = "function(){" + "return $(" + "++" + target + ")}"
	}
	sb.WriteString(fk + " " + f + "=" + fn + ";")
	bb := x.declare(f, fk, tFn, false)
	bb.arity = 0
	sb.WriteString(f + "()," + f + "()")
	return sb.String()
}

func (x *g) asyncGen(d int) string {
	if x.sc.noLex {
		return x.simpleStmt(d)
	}
	if x.es(2015) && x.chance("generator", 2) {
		x.feat("generator")
		x.counter++
		nm := fmt.Sprintf("gen%d", x.counter)
		body := x.fnBody(nil, d-1, tNum, false, fnOpts{gen: true})
		body = "{yield " + x.numLit() + ";" + strings.TrimPrefix(body, "{")
		k := "class"
		if x.sc.fn {
			k = "fn"
		}
		bb := x.declare(nm, k, tFn, false)
		bb.generator = true
		use := x.pick("genuse", []string{"$([..." + nm + "()])", "for(var gv of " + nm + "())$(gv)", "$(" + nm + "().next())"})
		if strings.HasPrefix(use, "for(var gv") {
			x.sc.fscope.varNames["gv"] = true
		}
		return "function*" + x.s() + nm + "()" + body + ";" + use
	}
	if x.es(2017) {
		x.feat("async-function")
		x.counter++
		nm := fmt.Sprintf("af%d", x.counter)
		body := x.fnBody(nil, d-1, tNum, false, fnOpts{async: true})
		k := "class"
		if x.sc.fn {
			k = "fn"
		}
		bb := x.declare(nm, k, tFn, false)
		bb.async = true
		return "async function " + nm + "()" + body + ";" + nm + "().then(" + x.pick("thenfn", []string{"$", "function(v){$(v)}", "v=>$(v,1)"}) + ")"
	}
	return x.simpleStmt(d)
}

func (x *g) withStmt(d int) string {
	x.feat("with")
	x.sc.fscope.varNames["__with"] = true
	nv := x.vars(tNum, false)
	prop := "p"
	if len(nv) > 0 && x.chance("withshadow", 2) {
		b := nv[x.n("withvar", len(nv)-1)]
		// property named like a visible local. Known finding C01-with-outer-rename: a variable of an
		// ENCLOSING function is renamed although a with object inside a nested function shadows it;
		// with the guard only variables of the function that contains the with statement are shadowed.
		if !x.guard("noWithOuterShadow") || b.scope.fscope == x.sc.fscope {
			prop = b.name
			x.markUsed(prop)
		} else {
			x.prog.Excluded["noWithOuterShadow"]++
		}
	}
	x.prog.Public = append(x.prog.Public, prop)
	ref := prop
	body := "$(" + ref + ")"
	if len(nv) > 0 {
		body += ";$(" + x.ref(nv[0]) + ")"
	}
	return "with" + x.s() + "(" + "{" + prop + ":" + x.numLit() + "}" + ")" + "{" + body + "}"
}

func (x *g) objMutate(d int) string {
	os := x.vars(tObj, false)
	if len(os) == 0 {
		return x.simpleStmt(d)
	}
	o := os[x.n("mutobj", len(os)-1)]
	x.feat("object-mutation")
	switch x.n("mutkind", 3) {
	case 0:
		return x.ref(o) + ".p" + x.s() + x.pick("mutop", []string{"=", "+=", "*="}) + x.s() + x.par(x.numExpr(d-1), 1)
	case 1:
		return "delete " + x.ref(o) + "." + x.pick("delprop", propNames)
	case 2:
		return x.ref(o) + "[" + x.strLit() + "]=" + x.par(x.numExpr(d-1), 1)
	}
	return "$(" + x.ref(o) + ")"
}

// ---------------------------------------------------------------------------
// program

func Gen(t *rapid.T, cfg Config) Program {
	p := Program{Feats: map[string]int{}, Excluded: map[string]int{}}
	x := &g{t: t, cfg: cfg, prog: &p}
	if cfg.MaxStmts <= 0 {
		cfg.MaxStmts = 12
	}
	x.budget = 40 + rapid.IntRange(0, 260).Draw(t, "budget")
	x.strict = cfg.Goal != "sloppy"
	p.Strict = x.strict
	p.Goal = "script"
	if cfg.Goal == "module" {
		p.Goal = "module"
	}
	info := &fnInfo{varNames: map[string]bool{}, lexNames: map[string]bool{}, top: true}
	x.sc = &scope{fn: true, used: map[string]bool{}, fscope: info}
	// free globals with the names the renamer hands out first
	nfree := 0
	if cfg.ScopeMode {
		nfree = 1 + x.n("nfree", 4)
	} else if x.chance("somefree", 3) {
		nfree = 1 + x.n("nfree", 2)
	}
	for i := 0; i < nfree; i++ {
		nm := rapid.SampledFrom([]string{"e", "t", "n", "s", "o", "i", "a", "r", "c", "l", "d", "u"}).Draw(t, "freename")
		if !x.isPredef(nm) {
			p.Predef = append(p.Predef, nm)
			x.sc.vars = append(x.sc.vars, &binding{name: nm, kind: "free", typ: tStr, scope: x.sc})
			p.Public = append(p.Public, nm)
		}
	}
	var sb strings.Builder
	if x.chance("shebang", 25) {
		x.feat("shebang")
		sb.WriteString(x.pick("shebangline", []string{"#!/usr/bin/env node\n", "#!x\n", "#!\r\n", "#! a b \n"}))
	}
	if cfg.Goal == "strict" {
		sb.WriteString(x.pick("usestrict", []string{"\"use strict\";", "'use strict';", "\"use strict\"\n"}))
	}
	if cfg.Goal == "module" && x.chance("import", 2) {
		x.feat("import")
		switch x.n("importform", 3) {
		case 0:
			sb.WriteString("import dflt from \"dep\";")
			x.sc.vars = append(x.sc.vars, &binding{name: "dflt", kind: "const", typ: tStr, scope: x.sc})
			info.lexNames["dflt"] = true
		case 1:
			sb.WriteString("import {x as ix, y} from \"dep\";")
			x.sc.vars = append(x.sc.vars, &binding{name: "ix", kind: "const", typ: tStr, scope: x.sc}, &binding{name: "y", kind: "const", typ: tStr, scope: x.sc})
			info.lexNames["ix"], info.lexNames["y"] = true, true
		case 2:
			sb.WriteString("import * as ns from \"dep\";$(ns.x);")
			info.lexNames["ns"] = true
		default:
			sb.WriteString("import dflt, {f as depf} from \"dep\";$(depf(1));")
			info.lexNames["dflt"], info.lexNames["depf"] = true, true
		}
	}
	n := 2 + x.n("nstmts", cfg.MaxStmts)
	depth := 2 + x.n("depth", 2)
	if cfg.ScopeMode {
		depth = 3 + x.n("depth", 2)
	}
	body := x.stmts(n, depth)
	sb.WriteString(body)
	// final observation of everything visible at top level
	var refs []string
	for _, b := range x.visible(func(b *binding) bool { return b.typ != tFn && b.typ != tClass && b.kind != "free" }) {
		refs = append(refs, b.name)
		if len(refs) >= 8 {
			break
		}
	}
	if len(refs) > 0 {
		cur := sb.String()
		if cur != "" && !strings.HasSuffix(cur, ";") && !strings.HasSuffix(cur, "\n") && !strings.HasSuffix(cur, "}") {
			sb.WriteString(";")
		} else if strings.HasSuffix(cur, "}") || strings.HasSuffix(cur, "\n") {
			sb.WriteString(";")
		}
		sb.WriteString("$(" + strings.Join(refs, ",") + ")")
	}
	if cfg.Goal == "module" {
		var exps []string
		for _, b := range x.visible(func(b *binding) bool {
			return b.scope == x.sc && b.kind != "free" && b.kind != "fn" || b.scope == x.sc && b.kind == "fn"
		}) {
			if info.lexNames[b.name] && (b.name == "dflt" || b.name == "ix" || b.name == "y" || b.name == "ns" || b.name == "depf") {
				continue
			}
			exps = append(exps, b.name)
			if len(exps) >= 4 {
				break
			}
		}
		if len(exps) > 0 {
			x.feat("export")
			parts := []string{}
			for i, e := range exps {
				if i == 1 {
					parts = append(parts, e+" as ex"+fmt.Sprint(i))
					p.Public = append(p.Public, "ex"+fmt.Sprint(i))
				} else {
					parts = append(parts, e)
				}
			}
			sb.WriteString(";export{" + strings.Join(parts, ",") + "}")
			if x.chance("exportdefault", 2) {
				sb.WriteString(";export default " + x.numLit())
			}
		}
	}
	p.Src = sb.String()
	return p
}
