// Package xmlgen draws well-formed XML 1.0 documents (construction, not rejection).
package xmlgen

import (
	"fmt"
	"strings"

	"pgregory.net/rapid"
)

// NoBracketsBeforeGT is the generator guard of known finding C06-gt-after-brackets.
var NoBracketsBeforeGT bool

type Doc struct {
	Src      string
	Entities map[string]string // internal-subset entities the reference decoder must know
	Feats    map[string]int
}

type g struct {
	t      *rapid.T
	feats  map[string]int
	budget int
	ents   map[string]string
	svg    bool
}

func (x *g) n(l string, max int) int            { return rapid.IntRange(0, max).Draw(x.t, l) }
func (x *g) pick(l string, xs []string) string  { return rapid.SampledFrom(xs).Draw(x.t, l) }
func (x *g) chance(l string, oneIn int) bool    { return rapid.IntRange(0, oneIn-1).Draw(x.t, l) == 0 }

var names = []string{"a", "b", "item", "x", "A", "ns:el", "a-b", "_u", "data"}
var attrNames = []string{"id", "x", "xml:lang", "xml:space", "ns:att", "title", "a", "B"}
var ws = []string{" ", "  ", "\n", "\t", " \n ", "\r\n", ""}
var words = []string{"a", "word", "x1", "é", "two words", "-", ".", "=", "]]", "]", ">", "'", "\""}
var refs = []string{"&lt;", "&amp;", "&gt;", "&quot;", "&apos;", "&#10;", "&#9;", "&#13;", "&#x41;", "&#65;", "&#xe9;", "&#233;", "&#x20;", "&#32;", "&#x3C;", "&#38;", "&#x2028;", "&#160;"}

func (x *g) text() string {
	var sb strings.Builder
	n := 1 + x.n("textn", 4)
	for i := 0; i < n; i++ {
		switch x.n("textkind", 5) {
		case 0, 1:
			sb.WriteString(x.pick("word", words))
		case 2:
			sb.WriteString(x.pick("ws", ws))
		case 3:
			sb.WriteString(x.pick("ref", refs))
			x.feats["text-ref"]++
		case 4:
			if len(x.ents) > 0 {
				sb.WriteString("&e1;")
				x.feats["entity-ref"]++
			} else {
				sb.WriteString(" ")
			}
		default:
			sb.WriteString(x.pick("word", words) + x.pick("ws", ws))
		}
	}
	return strings.ReplaceAll(sb.String(), "]]>", "]] >") // "]]>" must not occur in character data
}

func (x *g) cdata() string {
	x.feats["cdata"]++
	var sb strings.Builder
	n := x.n("cdn", 4)
	for i := 0; i < n; i++ {
		sb.WriteString(x.pick("cdpiece", []string{"a", " ", "  ", "\n", "<", "&", "<b>", "]]", "]", ">", "&amp;", "x y", "<<<<<<<<<<", "'", "\"", "\t"}))
	}
	s := strings.ReplaceAll(sb.String(), "]]>", "]] >")
	return "<![CDATA[" + s + "]]>"
}

func (x *g) comment() string {
	x.feats["comment"]++
	return "<!--" + x.pick("comment", []string{"", " c ", "a-b", "<x>", "&amp;", "\n"}) + "-->"
}

func (x *g) pi() string {
	x.feats["pi"]++
	return "<?" + x.pick("pitarget", []string{"php", "target", "xml-stylesheet"}) + x.pick("pidata", []string{"", " a=\"b\"", " echo 1; ", "  x  y ", " a = \"b\"", " x=\"&apos;\"", " x='&quot;'", " x=\"&#65;\"", " echo \"a  b\"; ", " a='b' c=\"d\"", " x ", " href=\"a.css\" type=\"text/css\""}) + "?>"
}

func (x *g) attrValue() string {
	q := x.pick("quote", []string{"\"", "'"})
	var sb strings.Builder
	n := x.n("avn", 4)
	for i := 0; i < n; i++ {
		switch x.n("avkind", 6) {
		case 0, 1:
			sb.WriteString(x.pick("avword", []string{"a", "v", "x y", "1", "é", "#id", "url(#a)", "=", ">"}))
		case 2:
			// no literal CR: known finding C06-attr-literal-crlf
			sb.WriteString(x.pick("avws", []string{" ", "  ", "\t", "\n"}))
			x.feats["attr-literal-ws"]++
		case 3:
			sb.WriteString(x.pick("avref", []string{"&lt;", "&amp;", "&gt;", "&quot;", "&apos;", "&#10;", "&#9;", "&#13;", "&#xA;", "&#x9;", "&#x20;", "&#34;", "&#39;", "&#x41;", "&#233;", "&#60;", "&#38;", "&#x3c;", "&#x26;", "&#62;"}))
			x.feats["attr-ref"]++
		case 4:
			o := "'"
			if q == "'" {
				o = "\""
			}
			sb.WriteString(o)
			x.feats["attr-other-quote"]++
		case 5:
			if q == "\"" {
				sb.WriteString("&quot;")
			} else {
				sb.WriteString("&apos;")
			}
		default:
			if len(x.ents) > 0 {
				sb.WriteString("&e1;")
			}
		}
	}
	return q + sb.String() + q
}

func (x *g) element(depth int) string {
	name := x.pick("name", names)
	if x.svg {
		name = x.pick("svgname", []string{"g", "rect", "text", "tspan", "a", "defs", "title"})
	}
	var sb strings.Builder
	sb.WriteString("<" + name)
	na := x.n("nattrs", 3)
	used := map[string]bool{}
	for i := 0; i < na; i++ {
		an := x.pick("attrname", attrNames)
		if used[an] {
			continue
		}
		used[an] = true
		sb.WriteString(x.pick("attrsp", []string{" ", " ", "  ", "\n"}) + an + x.pick("eqsp", []string{"=", "=", " = "}) + x.attrValue())
	}
	sb.WriteString(x.pick("tagendsp", []string{"", "", " "}))
	if depth <= 0 || x.budget <= 0 || x.chance("void", 5) {
		switch x.n("emptyform", 3) {
		case 0:
			x.feats["empty:void"]++
			return sb.String() + "/>"
		case 1:
			x.feats["empty:pair"]++
			return sb.String() + "></" + name + ">"
		case 2:
			x.feats["empty:ws-only"]++
			return sb.String() + ">" + x.pick("onlyws", []string{" ", "\n", "  "}) + "</" + name + ">"
		}
		return sb.String() + ">" + x.text() + "</" + name + x.pick("endsp", []string{"", " "}) + ">"
	}
	sb.WriteString(">")
	nc := x.n("nchildren", 5)
	for i := 0; i < nc; i++ {
		x.budget--
		switch x.n("childkind", 9) {
		case 0, 1, 2:
			sb.WriteString(x.element(depth - 1))
		case 3, 4, 5:
			sb.WriteString(x.text())
		case 6:
			sb.WriteString(x.cdata())
		case 7:
			sb.WriteString(x.comment())
		case 8:
			sb.WriteString(x.pi())
		default:
			sb.WriteString(x.pick("childws", ws))
		}
	}
	sb.WriteString("</" + name + x.pick("endsp", []string{"", "", " "}) + ">")
	return sb.String()
}

// Gen draws a whole document.
func Gen(t *rapid.T) Doc {
	x := &g{t: t, feats: map[string]int{}, budget: 6 + rapid.IntRange(0, 40).Draw(t, "budget"), ents: map[string]string{}}
	var sb strings.Builder
	if x.chance("prolog", 3) {
		sb.WriteString("<?xml version=\"1.0\"" + x.pick("enc", []string{"", " encoding=\"UTF-8\""}) + "?>" + x.pick("ws", ws))
		x.feats["prolog"]++
	}
	if x.chance("comment0", 5) {
		sb.WriteString(x.comment() + x.pick("ws", ws))
	}
	rootName := "root"
	if x.chance("doctype", 3) {
		x.feats["doctype"]++
		switch x.n("doctypekind", 4) {
		case 0:
			sb.WriteString("<!DOCTYPE root>")
		case 1:
			sb.WriteString("<!DOCTYPE root SYSTEM \"a b.dtd\">")
		case 2:
			x.ents["e1"] = "ent value"
			x.feats["internal-subset"]++
			sb.WriteString("<!DOCTYPE root [\n <!ENTITY e1 \"ent value\">\n <!ELEMENT root ANY> ]>")
		case 4:
			// literals with whitespace runs: they are part of the entity value / default value
			x.ents["e1"] = "ent   value  with runs"
			x.feats["internal-subset"]++
			x.feats["doctype-literal-with-whitespace-runs"]++
			sb.WriteString("<!DOCTYPE root [ <!ENTITY e1 \"ent   value  with runs\"> <!ATTLIST root fmt CDATA '%d   %s'> ]>")
		default:
			sb.WriteString("<!DOCTYPE   root   PUBLIC \"-//X//Y\"   \"u\">")
		}
		sb.WriteString(x.pick("ws", ws))
	}
	if x.chance("pi0", 6) {
		sb.WriteString(x.pi())
	}
	// root with namespace declarations for the prefixes used
	body := x.element(2 + x.n("depth", 2))
	// make the root carry xmlns:ns
	root := "<" + rootName + " xmlns:ns=\"urn:x\">" + x.pick("ws", ws) + body + x.pick("ws", ws)
	if x.chance("rootextra", 2) {
		root += x.text() + x.element(1)
	}
	root += "</" + rootName + ">"
	sb.WriteString(root)
	if x.chance("trailing", 4) {
		sb.WriteString(x.pick("ws", ws) + x.comment() + x.pick("ws", ws))
	}
	src := sb.String()
	if NoBracketsBeforeGT {
		// known finding C06-gt-after-brackets: "]]" directly followed by something that is written as ">"
		for _, bad := range []string{"]]&gt;", "]]&#62;", "]]&#x3E;", "]]&#x3e;", "]]<![CDATA[>", "]]<![CDATA[]]>", "]]<!--"} {
			src = strings.ReplaceAll(src, bad, "]] "+bad[2:])
		}
		src = strings.ReplaceAll(src, "]]]]><", "]] ]]><")
	}
	return Doc{Src: src, Entities: x.ents, Feats: x.feats}
}

var _ = fmt.Sprint
