// Package cssgen draws stylesheets and inline declaration lists from
// per-property value grammars (construction, not rejection).
package cssgen

import (
	"fmt"
	"strings"

	"pgregory.net/rapid"
)

type G struct {
	T      *rapid.T
	Feats  map[string]int
	Guards map[string]bool
}

func (x *G) n(l string, max int) int           { return rapid.IntRange(0, max).Draw(x.T, l) }
func (x *G) pick(l string, xs []string) string { return rapid.SampledFrom(xs).Draw(x.T, l) }
func (x *G) chance(l string, oneIn int) bool   { return rapid.IntRange(0, oneIn-1).Draw(x.T, l) == 0 }
func (x *G) guard(g string) bool               { return x.Guards != nil && x.Guards[g] }

func (x *G) ws() string { return x.pick("ws", []string{" ", " ", "  ", "\n", "\t", " /* c */ "}) }
func (x *G) ows() string {
	return x.pick("ows", []string{"", "", " ", "\n", "/**/"})
}

var numbers = []string{"0", "1", "2", "10", "0.5", ".5", "1.0", "1.50", "100", "1000", "10000", "0.0", "-1", "+2", "-0.5", "1e2", "1E-2", "0.001", "12.345", "050", "-0", "3", "0.10", "1e3", "1e+1"}
var lenUnits = []string{"px", "em", "rem", "%", "pt", "vh", "vw", "cm", "mm", "ex", "ch", "PX", "Em", "vmin", "in", "q"}

func (x *G) number() string { return x.pick("num", numbers) }

func (x *G) length() string {
	if x.chance("zero", 5) {
		return x.pick("zerolen", []string{"0", "0px", "0em", "0%", "0.0px", "-0px", "0pt", "0vh", "0rem", "0cm"})
	}
	if x.chance("calc", 12) {
		x.Feats["calc"]++
		return "calc(" + x.ows() + x.number() + "px" + " " + x.pick("calcop", []string{"+", "-"}) + " " + x.pick("calcarg", []string{"0px", "1em", "10%", "0", "2px * 3"}) + x.ows() + ")"
	}
	return x.number() + x.pick("unit", lenUnits)
}

var colorNames = []string{"red", "Red", "BLUE", "black", "white", "gray", "grey", "transparent", "currentColor", "currentcolor", "fuchsia", "magenta", "navy", "orange", "darkgoldenrod", "lightgoldenrodyellow", "tan", "azure", "teal", "lime", "rebeccapurple", "silver", "olive", "indigo", "gold", "snow"}

func (x *G) color() string {
	switch x.n("colorkind", 9) {
	case 0, 1:
		return x.pick("colorname", colorNames)
	case 2:
		return x.pick("hex3", []string{"#f00", "#F00", "#000", "#fff", "#abc", "#ABC", "#0f08", "#fff0", "#123"})
	case 3:
		return x.pick("hex6", []string{"#ff0000", "#FF0000", "#000000", "#ffffff", "#aabbcc", "#AABBCD", "#808080", "#c0c0c0", "#ffa500", "#f0f8ff", "#00000000", "#ff000080", "#FFFFFFFF", "#112233", "#123456", "#d2b48c"})
	case 4:
		x.Feats["rgb()"]++
		sep := x.pick("rgbsep", []string{",", ", ", " , ", " "})
		v := func() string { return x.pick("rgbv", []string{"0", "255", "128", "51", "102", "300", "-5", "12.5", "1e2"}) }
		if x.chance("rgbpct", 3) {
			v = func() string { return x.pick("rgbp", []string{"0%", "100%", "50%", "20%", "40%", "60%", "80%", "33.3%", "110%", "12.5%"}) }
		}
		s := "rgb(" + x.ows() + v() + sep + v() + sep + v()
		if x.chance("rgbalpha", 3) {
			if sep == " " {
				s += " / " + x.pick("alpha", []string{"1", "0.5", ".5", "0", "100%", "50%", "0.0", "1.0", "0.999999", "0.000001"})
			} else {
				s = "rgba(" + s[4:] + sep + x.pick("alpha", []string{"1", "0.5", ".5", "0", "100%", "50%", "0.0", "1.0", "0.999999", "0.000001"})
			}
		}
		return s + x.ows() + ")"
	case 5:
		x.Feats["hsl()"]++
		h := x.pick("hue", []string{"0", "120", "240", "360", "480", "-120", "60", "180", "300", "30", "0.5"})
		s := x.pick("sat", []string{"100%", "50%", "0%", "25%"})
		l := x.pick("light", []string{"50%", "0%", "100%", "25%", "75%"})
		if x.chance("hsla", 3) {
			return "hsla(" + h + "," + s + "," + l + "," + x.pick("alpha", []string{"1", "0.5", "0", "1.0"}) + ")"
		}
		if x.chance("hslmodern", 3) {
			// space separated form, where saturation and lightness may be plain numbers
			x.Feats["hsl()-space-separated"]++
			if x.chance("hslnumbers", 2) {
				s, l = strings.TrimSuffix(s, "%"), strings.TrimSuffix(l, "%")
			}
			a := ""
			if x.chance("hslslash", 3) {
				a = " / " + x.pick("alpha", []string{"1", "0.5", "50%"})
			}
			return "hsl(" + h + " " + s + " " + l + a + ")"
		}
		return "hsl(" + h + x.pick("hslsep", []string{",", ", "}) + s + "," + l + ")"
	case 6:
		return "var(--c)"
	}
	return x.pick("colorname", colorNames)
}

var borderStyles = []string{"none", "solid", "dashed", "dotted", "double", "hidden", "groove", "inset"}

func (x *G) shuffle3(a, b, c string) string {
	parts := []string{}
	for _, s := range []string{a, b, c} {
		if s != "" {
			parts = append(parts, s)
		}
	}
	// rotate/permutation by draws
	for i := len(parts) - 1; i > 0; i-- {
		j := x.n("perm", i)
		parts[i], parts[j] = parts[j], parts[i]
	}
	return strings.Join(parts, x.ws())
}

func (x *G) opt(s string) string {
	if x.chance("omit", 3) {
		return ""
	}
	return s
}

func (x *G) position() string {
	kwx := []string{"left", "center", "right"}
	kwy := []string{"top", "center", "bottom"}
	lp := func() string {
		return x.pick("poslp", []string{"0", "0%", "50%", "100%", "10%", "90%", "10px", "0px", "25%", "1em", "-5px", "33.3%"})
	}
	switch x.n("posform", 6) {
	case 0:
		return x.pick("pos1", append(append([]string{}, kwx...), "top", "bottom", "10px", "50%", "0"))
	case 1:
		return x.pick("px", kwx) + " " + x.pick("py", kwy)
	case 2:
		return x.pick("py", kwy) + " " + x.pick("px", kwx)
	case 3:
		return lp() + " " + lp()
	case 4:
		return x.pick("px", kwx) + " " + lp()
	case 5:
		// 3/4 value syntax
		s := x.pick("ex", []string{"left", "right"}) + " " + lp() + " " + x.pick("ey", []string{"top", "bottom"})
		if x.chance("pos4", 2) {
			s += " " + lp()
		}
		if x.chance("posswap", 3) {
			s = x.pick("ey", []string{"top", "bottom"}) + " " + lp() + " " + x.pick("ex", []string{"left", "right"}) + " " + lp()
		}
		return s
	}
	return lp() + " " + x.pick("py", kwy)
}

func (x *G) bgLayer(final bool) string {
	var parts []string
	if x.chance("bgimage", 2) {
		parts = append(parts, x.pick("image", []string{"url(a.png)", "url( \"a b.png\" )", "url('x.svg')", "none", "linear-gradient(red, blue)", "url(data:image/png;base64,AAAA)"}))
	}
	if x.chance("bgpos", 2) {
		p := x.position()
		if x.chance("bgsize", 3) {
			p += x.pick("slash", []string{"/", " / "}) + x.pick("size", []string{"auto", "cover", "contain", "10px", "10px auto", "auto auto", "50% 50%", "auto 10px", "0 0"})
		}
		parts = append(parts, p)
	}
	if x.chance("bgrepeat", 2) {
		parts = append(parts, x.pick("repeat", []string{"repeat", "no-repeat", "repeat-x", "repeat-y", "repeat repeat", "repeat no-repeat", "no-repeat repeat", "space", "round space", "no-repeat no-repeat"}))
	}
	if x.chance("bgattach", 3) {
		parts = append(parts, x.pick("attach", []string{"scroll", "fixed", "local"}))
	}
	if x.chance("bgbox", 4) {
		parts = append(parts, x.pick("box", []string{"padding-box", "border-box", "padding-box border-box", "content-box", "border-box padding-box", "content-box content-box"}))
	}
	if final && x.chance("bgcolor", 2) {
		parts = append(parts, x.color())
	}
	if len(parts) == 0 {
		parts = append(parts, x.pick("bgsingle", []string{"none", "transparent", "0 0", "red"}))
	}
	for i := len(parts) - 1; i > 0; i-- {
		j := x.n("bgperm", i)
		parts[i], parts[j] = parts[j], parts[i]
	}
	return strings.Join(parts, " ")
}

var families = []string{"Arial", "\"Helvetica Neue\"", "'Times New Roman'", "serif", "sans-serif", "monospace", "Times New Roman", "\"serif\"", "'Inherit'", "\"Arial\"", "\"a  b\"", "'1abc'", "\"-x\"", "Open Sans", "\"Foo, Bar\"", "system-ui", "\"MONOSPACE\"", "-apple-system", "\"\"", "\"initial\""}

func (x *G) familyList() string {
	n := 1 + x.n("nfam", 2)
	var fs []string
	for i := 0; i < n; i++ {
		f := x.pick("family", families)
		if x.chance("rndfamily", 3) {
			// a family name of any words, unquoted: a sequence of identifiers none of which is a keyword
			x.Feats["random-family-words"]++
			var ws []string
			for j, m := 0, 1+x.n("nfamwords", 2); j < m; j++ {
				ws = append(ws, x.rndIdent("[A-Za-z][a-z]{2,9}"))
			}
			f = strings.Join(ws, " ")
		}
		if x.guard("noQuotedKeywordFamily") {
			switch strings.ToLower(strings.Trim(f, "\"'")) {
			case "serif", "inherit", "monospace", "initial", "sans-serif":
				if f[0] == '"' || f[0] == '\'' {
					x.Feats["excluded:quoted-keyword-family"]++
					f = "Arial"
				}
			}
		}
		fs = append(fs, f)
	}
	return strings.Join(fs, x.pick("famsep", []string{",", ", ", " , "}))
}

var cssWords = map[string]bool{"serif": true, "inherit": true, "initial": true, "unset": true, "revert": true, "default": true, "bold": true, "bolder": true, "lighter": true, "normal": true, "italic": true, "oblique": true, "small": true, "large": true, "larger": true, "smaller": true, "medium": true, "cursive": true, "fantasy": true, "emoji": true, "math": true, "none": true, "auto": true, "caption": true, "icon": true, "menu": true, "margin": true, "padding": true, "inset": true, "color": true, "font": true, "flex": true, "width": true, "height": true, "filter": true, "content": true, "border": true, "outline": true, "background": true, "transform": true, "src": true, "top": true, "left": true, "right": true, "bottom": true}

// rndIdent: an identifier of random letters that is no CSS keyword or property the generator or the oracle knows
func (x *G) rndIdent(pattern string) string {
	w := rapid.StringMatching(pattern).Draw(x.T, "rndident")
	if cssWords[strings.ToLower(w)] || len(w) <= 4 {
		w += "qz"
	}
	return w
}

// Decl draws one declaration "name:value".
func (x *G) Decl() string {
	k := x.n("prop", 42)
	var name, val string
	switch k {
	case 42:
		// a property the minifier does not know, with a value it has no reason to touch
		x.Feats["random-property"]++
		name := x.rndIdent("[a-z]{3,9}(-[a-z]{2,6})?")
		return name + x.ows() + ":" + x.ows() + x.pick("rndpropval", []string{"1 2 1 2", "a b a b", "x 1 x 1", "auto", "1 1 1 1", "a,b", "7 7", "none none"})
	case 41:
		// values with blocks, which are written without being processed: nothing but whitespace may change
		x.Feats["unprocessed-value"]++
		pv := [][2]string{{"c", "(1/ *2)"}, {"grid-template-columns", "[full-start] minmax(1em,1fr) [main-start]"}, {"x", "[a]  b / *c"}, {"width", "calc((1px + 2px) / 3)"}, {"--y", "{a:b}"}, {"grid-area", "1 / 2 / 3"}, {"aspect-ratio", "16 / 9"}, {"font", "12px/ 1.5 a"}, {"c", "a/ *b"}, {"margin", "( 1px )"}}[x.n("unprocessedpv", 9)]
		return pv[0] + x.ows() + ":" + x.ows() + pv[1]
	case 0, 1:
		name = x.pick("boxprop", []string{"margin", "padding", "border-width", "margin", "inset", "border-style", "border-color"})
		n := 1 + x.n("nbox", 3)
		var vs []string
		same := x.chance("same", 2)
		first := ""
		for i := 0; i < n; i++ {
			var v string
			switch name {
			case "border-style":
				v = x.pick("bstyle", borderStyles)
			case "border-color":
				v = x.color()
				if x.guard("noMultiBorderColorCurrent") && n > 1 && strings.EqualFold(v, "currentcolor") {
					x.Feats["excluded:border-color-currentcolor-list"]++
					v = "green"
				}
			default:
				v = x.length()
				if name == "margin" && x.chance("auto", 5) {
					v = "auto"
				}
			}
			if i == 0 {
				first = v
			} else if same && x.chance("repeatfirst", 2) {
				v = first
			}
			vs = append(vs, v)
		}
		val = strings.Join(vs, x.ws())
	case 2, 3:
		name = x.pick("borderprop", []string{"border", "border-top", "border-left", "outline", "column-rule", "border-bottom", "border-right"})
		w := x.opt(x.pick("bw", []string{"1px", "medium", "thin", "0", "2em", "0px", "thick"}))
		st := x.opt(x.pick("bstyle", borderStyles))
		c := x.opt(x.color())
		if name == "outline" && x.chance("invert", 4) {
			c = "invert"
		}
		val = x.shuffle3(w, st, c)
		if val == "" {
			val = x.pick("bnone", []string{"none", "0", "medium none", "currentcolor"})
		}
	case 4, 5, 6:
		name = "background"
		n := 1 + x.n("nlayers", 2)
		var ls []string
		for i := 0; i < n; i++ {
			ls = append(ls, x.bgLayer(i == n-1))
		}
		val = strings.Join(ls, x.pick("layersep", []string{",", ", "}))
		x.Feats["background"]++
	case 7:
		name = "background-position"
		val = x.position()
		if x.chance("multipos", 4) {
			val += ", " + x.position()
		}
		x.Feats["background-position"]++
	case 8:
		name = x.pick("bgsub", []string{"background-size", "background-repeat", "background-color", "background-image"})
		switch name {
		case "background-size":
			val = x.pick("bgsize", []string{"auto", "auto auto", "10px auto", "10px", "cover", "50% auto, contain", "0 0", "1px 2px"})
		case "background-repeat":
			val = x.pick("bgrep", []string{"repeat", "repeat repeat", "repeat no-repeat", "no-repeat repeat", "no-repeat", "space round", "repeat-x", "round round, repeat no-repeat"})
		case "background-color":
			val = x.color()
		default:
			val = x.pick("bgimg", []string{"none", "url(a.png)", "url( 'a.png' )", "url(\"a(b).png\")"})
		}
	case 9, 10:
		name = "font"
		pre := x.shuffle3(x.opt(x.pick("fstyle", []string{"italic", "normal", "oblique"})), x.opt(x.pick("fweight", []string{"bold", "normal", "400", "700", "300", "bolder"})), x.opt(x.pick("fvariant", []string{"small-caps", "normal"})))
		size := x.pick("fsize", []string{"12px", "1em", "medium", "larger", "100%", "0", "1.5rem", "x-small"})
		if x.chance("lineheight", 2) {
			size += x.pick("lhsep", []string{"/", " / "}) + x.pick("lh", []string{"normal", "1.5", "20px", "120%", "1"})
		}
		val = strings.TrimSpace(pre + " " + size + " " + x.familyList())
		x.Feats["font"]++
	case 11:
		name = "font-family"
		val = x.familyList()
		x.Feats["font-family"]++
	case 12:
		name = "font-weight"
		val = x.pick("fw", []string{"normal", "bold", "400", "700", "bolder", "NORMAL", "Bold", "100", "inherit"})
	case 13, 14:
		name = "flex"
		val = x.pick("flex", []string{"1", "0 1 auto", "1 1 auto", "0 0 auto", "1 1 0", "1 1 0px", "1 1 0%", "2 1 0", "1 0", "1 0px", "1 2 10px", "none", "auto", "initial", "0 0 0", "1 1 10%", "2", "0.5 1 0%", "1 1 calc(10px + 1%)", "10px", "1 10px"})
		if x.chance("flexbuilt", 2) {
			// grow and shrink factors with any number of digits
			grow := x.pick("flexgrow", []string{"0", "1", "2", "10", "12", "1.5", ".5", "100", "1e1", "01"})
			shrink := x.pick("flexshrink", []string{"0", "1", "2", "10", "1.0", "11"})
			basis := x.pick("flexbasis", []string{"auto", "0", "0px", "0%", "10px", "10%", "content", "AUTO"})
			switch x.n("flexform", 3) {
			case 0:
				val = grow
			case 1:
				val = grow + x.ws() + shrink
			case 2:
				val = grow + x.ws() + basis
			default:
				val = grow + x.ws() + shrink + x.ws() + basis
			}
			x.Feats["flex-built"]++
		}
		x.Feats["flex"]++
	case 15:
		if x.chance("zerounit", 2) {
			// zero with a unit that is not a length (or an uncommon length): the unit stays unless the grammar allows a bare 0
			pv := [][2]string{{"grid-template-columns", "0fr 1fr"}, {"grid-template-rows", "0fr"}, {"grid-template-columns", "1fr 0FR 2fr"}, {"transition-duration", "0s"}, {"transition-delay", "0ms"}, {"animation-duration", "0s,0ms"}, {"animation-delay", "0S"},
				{"grid-template-columns", "minmax(0fr,1fr)"}, {"width", "0cqw"}, {"height", "0dvh"}, {"min-width", "0vi"}, {"line-height", "0lh"}, {"image-resolution", "0dppx"}, {"grid-auto-rows", "0fr"}, {"voice-pitch", "0hz"}, {"margin-left", "0rlh"}, {"width", "0pc"}, {"width", "0vmax"}}[x.n("zerounitpv", 17)]
			x.Feats["zero-uncommon-unit"]++
			return pv[0] + x.ows() + ":" + x.ows() + pv[1]
		}
		name = x.pick("flexsub", []string{"flex-basis", "flex-grow", "flex-shrink", "order"})
		val = x.pick("flexsubv", []string{"initial", "0", "1", "auto", "0px", "10px", "0%", "2", "-1", "inherit"})
	case 16, 17:
		name = x.pick("shadowprop", []string{"box-shadow", "text-shadow"})
		n := 1 + x.n("nshadow", 1)
		var ss []string
		for i := 0; i < n; i++ {
			lens := []string{x.length(), x.length()}
			if x.chance("blur", 2) {
				lens = append(lens, x.pick("blur", []string{"0", "0px", "2px", "1em"}))
				if name == "box-shadow" && x.chance("spread", 2) {
					lens = append(lens, x.pick("spread", []string{"0", "0px", "1px", "-1px"}))
				}
			}
			s := strings.Join(lens, " ")
			if x.chance("shadowcolor", 2) {
				if x.chance("colorfirst", 2) {
					s = x.color() + " " + s
				} else {
					s += " " + x.color()
				}
			}
			if name == "box-shadow" && x.chance("inset", 4) {
				s = "inset " + s
			}
			ss = append(ss, s)
		}
		val = strings.Join(ss, ", ")
		if x.chance("shadownone", 10) {
			val = x.pick("shadowkw", []string{"none", "initial", "inherit"})
		}
	case 18, 19:
		name = x.pick("colorprop", []string{"color", "background-color", "border-color", "border-top-color", "outline-color", "fill", "stroke", "caret-color", "text-decoration-color", "border-left-color"})
		val = x.color()
		if name == "border-color" && x.chance("multi", 3) {
			val += " " + x.color()
			if x.guard("noMultiBorderColorCurrent") && strings.Contains(strings.ToLower(val), "currentcolor") {
				x.Feats["excluded:border-color-currentcolor-list"]++
				val = "red blue"
			}
		}
	case 20:
		name = x.pick("tdprop", []string{"text-decoration", "text-emphasis"})
		if name == "text-decoration" {
			val = x.shuffle3(x.opt(x.pick("tdline", []string{"underline", "none", "line-through", "underline overline"})), x.opt(x.pick("tdstyle", []string{"solid", "wavy", "double", "dotted"})), x.opt(x.color()))
		} else {
			val = x.shuffle3(x.opt(x.pick("testyle", []string{"none", "filled", "open dot", "\"x\""})), x.opt(x.color()), "")
		}
		if val == "" {
			val = "none"
		}
	case 21:
		name = "unicode-range"
		n := 1 + x.n("nranges", 3)
		var rs []string
		for i := 0; i < n; i++ {
			rs = append(rs, x.pick("urange", []string{"U+26", "U+0-7F", "U+0025-00FF", "U+4??", "u+0-10ffff", "U+80-FF", "U+0100-01FF", "U+00-7f", "U+1F600-1F64F", "U+??", "U+100-17F", "U+2000-2000", "U+FF", "U+0-FF"}))
		}
		val = strings.Join(rs, x.pick("rangesep", []string{",", ", "}))
		x.Feats["unicode-range"]++
	case 22, 23:
		name = x.pick("lenprop", []string{"width", "height", "top", "left", "line-height", "font-size", "letter-spacing", "border-radius", "max-width", "gap", "z-index", "opacity", "transition-delay", "transition-duration", "animation-duration", "rotate", "transform"})
		switch name {
		case "z-index":
			val = x.pick("zindex", []string{"0", "1", "10", "-1", "1000", "auto", "+5"})
		case "opacity":
			val = x.pick("opacity", []string{"0", "1", "0.5", ".5", "0.50", "1.0", "100%", "0.0"})
		case "transition-delay", "transition-duration", "animation-duration":
			val = x.pick("time", []string{"0s", "0ms", "1s", "0.5s", ".5s", "100ms", "0.0s", "1.0S", "+0s", "1000ms"})
		case "rotate":
			val = x.pick("angle", []string{"0deg", "90deg", "0", "0.5turn", "100grad", "0rad", "-45DEG"})
		case "transform":
			val = x.pick("transform", []string{"rotate(0deg)", "translate(0px, 10px)", "scale(1.0, 0.5)", "translate(0, 0)", "rotate(0)", "matrix(1, 0, 0, 1, 0px, 0)", "translateX(-0px)"})
		case "line-height":
			val = x.pick("lineheight", []string{"0", "1", "1.5", "normal", "0px", "120%", "1.50"})
		case "border-radius":
			val = x.length() + " " + x.length() + x.pick("radius", []string{"", " / 0px 1px", "/2px"})
		default:
			val = x.length()
		}
	case 24:
		name = x.pick("stringprop", []string{"content", "quotes", "font-feature-settings", "grid-template-areas"})
		val = x.pick("string", []string{"\"a\"", "'a'", "\"a\\\"b\"", "'it\\'s'", "\"\\201C\"", "\"a\\\nb\"", "\"</style>\"", "'\\A'", "\"x\" attr(data-x) 'y'", "\"a b\" \"c d\"", "counter(Item) \". \"", "\"\\a0 \"", "'\"'", "\"a   b\"", "'two  spaces' \"three   spaces\""})
		x.Feats["string-value"]++
	case 25:
		name = x.pick("urlprop", []string{"cursor", "list-style", "src", "mask", "border-image"})
		val = x.pick("url", []string{"url(a.png)", "url( a.png )", "url(\"a.png\")", "url('a b.png')", "url(\"a)b.png\")", "url(data:text/plain;base64,YWJj)", "url('data:image/svg+xml,<svg xmlns=\"http://www.w3.org/2000/svg\"/>')", "url(\"\")", "URL(a.png)", "url(a\\ b.png)"})
		if name == "src" {
			val += " format(\"woff2\")" + x.pick("src2", []string{"", ", local(\"Foo Bar\")", ", local(Foo)", ", local('Foo')"})
		} else if name == "cursor" {
			val += ", auto"
		}
		x.Feats["url-value"]++
	case 26:
		name = "--" + x.pick("customname", []string{"c", "Main-Color", "x_1", "empty"})
		val = x.pick("customval", []string{"red", " #FF0000 ", "{ a : b }", "1px  solid  RED", "", " ", "calc( 1px + 2px )", "\"str\"", "[a, b]", "0px", "Url(x)", "1.0", "a  /  b", "\"a  b\"", "'x    y' 1px", "\"tab\tand  spaces\""})
		x.Feats["custom-property"]++
	case 27:
		name = x.pick("unknownprop", []string{"-webkit-foo", "zoom", "-ms-filter", "filter", "unknown-thing", "-moz-appearance", "speak"})
		val = x.pick("unknownval", []string{"alpha(opacity=50)", "\"progid:DXImageTransform.Microsoft.Alpha(Opacity=50)\"", "1", "none", "expression(a+b)", "0px 0px", "RED", "1.0", "a(b(c))", "50%", "foo bar , baz", "progid:DXImageTransform.Microsoft.gradient(startColorstr='#80000000', endColorstr='#80000000')"})
		x.Feats["unknown-declaration"]++
	case 28:
		name = x.pick("kwprop", []string{"display", "position", "float", "overflow", "text-align", "white-space", "visibility", "animation-name", "animation", "transition", "will-change", "grid-area", "counter-reset", "list-style-type"})
		switch name {
		case "animation-name", "grid-area", "will-change", "list-style-type":
			val = x.pick("customident", []string{"Foo", "fooBar", "red", "None", "slide-IN", "a1"})
		case "animation":
			val = x.pick("animation", []string{"Foo 1s ease 0s", "fade 0.5s linear infinite", "1s Slide", "none", "x 0s"})
		case "transition":
			val = x.pick("transition", []string{"all 0s ease 0s", "opacity .3s ease-in-out", "color 1s, Width 2s 0.5s", "none", "transform 0.0s"})
		case "counter-reset":
			val = x.pick("counter", []string{"Item 0", "a 1 b 2", "none", "section"})
		default:
			val = x.pick("kw", []string{"none", "block", "BLOCK", "inherit", "initial", "absolute", "hidden", "Center", "nowrap", "unset"})
		}
	default:
		name = x.pick("misc", []string{"margin-top", "padding-left", "width", "color"})
		if name == "color" {
			val = x.color()
		} else {
			val = x.length()
		}
	}
	switch {
	case strings.HasPrefix(name, "border") || name == "outline" || name == "column-rule" || name == "background" || strings.HasSuffix(name, "-shadow") || name == "text-decoration" || name == "text-emphasis" || name == "font":
		// var() inside a shorthand whose components may be dropped cannot be judged: keep it out of the domain
		val = strings.ReplaceAll(val, "var(--c)", "teal")
	}
	imp := ""
	if x.chance("important", 8) {
		imp = x.pick("imp", []string{"!important", " !important", " ! important", "!IMPORTANT", " !important "})
		x.Feats["important"]++
	}
	x.Feats["prop:"+strings.TrimLeft(name, "-")]++
	return name + x.ows() + ":" + x.ows() + val + imp
}

func (x *G) DeclList(max int) string {
	n := x.n("ndecl", max)
	var ds []string
	for i := 0; i < n; i++ {
		ds = append(ds, x.Decl())
		if x.chance("junkdecl", 16) {
			// a malformed declaration: browsers skip to the next semicolon, the rule structure must survive
			j := x.pick("junk", []string{"*", "!", "$", "&", "+", ".x", "123", "color", "color red", ": red", "*zoom", "$x:1", "#a", "@x", "1px", "a,b", "x:"})
			if j == "*" && x.guard("noLoneStarDecl") {
				j = "*zoom"
				x.Feats["excluded:noLoneStarDecl"]++
			}
			ds = append(ds, j)
			x.Feats["malformed-declaration"]++
		}
	}
	s := strings.Join(ds, x.pick("declsep", []string{";", "; ", ";\n", " ; ", ";;"}))
	if n > 0 && x.chance("trailingsemi", 2) {
		s += ";"
	}
	return s
}

var simpleSelectors = []string{"a", "DIV", "p", "*", ".cls", ".Cls", "#id", "#ID", "h1", "li", "[href]", "[HREF]", "[type=text]", "[type=\"text\"]", "[type='a b']", "[data-x=\"1a\"]", "[lang|=EN]", "[title~=\"x\" i]", "[a=\"\"]", "a:hover", "a:HOVER", "p::before", "P::After", "li:nth-child(2n+1)", "li:nth-child( 2N + 1 )", ":not(.x)", ":is(h1, h2)", ":root", "input[type=checkbox]:checked", "svg|rect", "*|*", "a.b.c", "ul > li", "h1 + p", "h1 ~ p", "a  b", "&"}

func (x *G) selector() string {
	n := 1 + x.n("nsel", 2)
	var ss []string
	for i := 0; i < n; i++ {
		s := x.pick("sel", simpleSelectors)
		if x.chance("combine", 3) {
			s += x.pick("comb", []string{" ", " > ", ">", " + ", "+", " ~ ", "  "}) + x.pick("sel2", simpleSelectors)
		}
		ss = append(ss, s)
	}
	return strings.Join(ss, x.pick("selsep", []string{",", ", ", " ,\n"}))
}

func (x *G) rule(depth int) string {
	k := x.n("rulekind", 14)
	switch {
	case k == 0 && depth > 0:
		x.Feats["@media"]++
		q := x.pick("mq", []string{"screen", "SCREEN and (min-width:100px)", "(max-width: 600PX)", "print,  screen", "not all and (monochrome)", "(min-resolution: 2dppx)", "screen and (min-width : 0px)"})
		return "@media " + q + x.ows() + "{" + x.rules(depth-1) + "}"
	case k == 1 && depth > 0:
		x.Feats["@supports"]++
		return "@supports " + x.pick("sq", []string{"(display:grid)", "(display: grid) and (not (display: inline-grid))", "not (color: red)"}) + "{" + x.rules(depth-1) + "}"
	case k == 2:
		x.Feats["@font-face"]++
		return "@font-face" + x.ows() + "{font-family:" + x.pick("ffname", []string{"\"My Font\"", "Foo", "'serif'"}) + ";src:url(a.woff2) format(\"woff2\"),local(\"A B\");" + x.pick("ffextra", []string{"", "unicode-range:U+0-7F,U+80-FF;", "font-weight:normal;", "font-display:swap"}) + "}"
	case k == 3:
		x.Feats["@keyframes"]++
		return x.pick("kf", []string{"@keyframes", "@-webkit-keyframes", "@KEYFRAMES"}) + " " + x.pick("kfname", []string{"Foo", "fade-in", "x1"}) + "{" + x.pick("kfsel", []string{"from", "0%", "FROM", "0.0%"}) + "{" + x.DeclList(2) + "}" + x.pick("kfsel2", []string{"to", "100%", "50%, 100.0%"}) + "{" + x.DeclList(2) + "}}"
	case k == 4:
		x.Feats["@import"]++
		return "@import " + x.pick("import", []string{"url(a.css)", "\"a.css\"", "url( \"a.css\" )", "'a.css' screen", "url(a.css) SCREEN and (orientation:landscape)", "url(a)", "url( a )", "url()", "url(ab)", "\"a\"", "url('a')"}) + ";"
	case k == 5:
		x.Feats["comment"]++
		return x.pick("comment", []string{"/* c */", "/*! keep */", "/*!  keep   me  */", "/*# sourceMappingURL=a.map */", "/**/"})
	case k == 6:
		x.Feats["@page/@layer"]++
		return x.pick("atmisc", []string{"@page :first{margin:1in 2in}", "@layer base, Theme;", "@layer x{a{color:red}}", "@namespace svg url(http://www.w3.org/2000/svg);", "@charset \"utf-8\";", "@container Card (min-width: 400px){a{color:red}}", "@page{@top-left{content:\"x\"}}"})
	}
	return x.selector() + x.ows() + "{" + x.ows() + x.DeclList(4) + x.ows() + "}"
}

func (x *G) rules(depth int) string {
	n := x.n("nrules", 4)
	var sb strings.Builder
	for i := 0; i < n; i++ {
		sb.WriteString(x.rule(depth))
		sb.WriteString(x.pick("rulesep", []string{"", "\n", " ", "\n\n"}))
	}
	return sb.String()
}

// Stylesheet draws a whole stylesheet.
func (x *G) Stylesheet() string {
	return x.pick("lead", []string{"", "\n", "/* head */"}) + x.rules(2)
}

var _ = fmt.Sprint
