// Package hx is the shared core of the verification harness: environment
// handling, seeding of rapid, the evidence collector, failure (replay) files and
// the known-findings registry. Every props/cNN test package uses it.
package hx

import (
	"crypto/sha256"
	"encoding/binary"
	"encoding/hex"
	"encoding/json"
	"flag"
	"fmt"
	"hash/fnv"
	"os"
	"path/filepath"
	"runtime"
	"sort"
	"strconv"
	"strings"
	"sync"
	"testing"
	"time"
)

// Env is the run configuration handed down by the driver (cmd/vp).
type Env struct {
	Prop    string // C01..C20
	Tier    string // quick | thorough
	Seed    uint64 // VERIF_SEED
	Shard   int
	NShards int
	Out     string // directory for shard output (evidence parts, fail files)
	Root    string // /verif
	Repo    string // /repo
	Replay  string // file to replay (TestReplay*)
}

var E = loadEnv()

func loadEnv() Env {
	e := Env{Tier: "quick", Seed: 1, NShards: 1, Root: "/verif", Repo: "/repo"}
	if v := os.Getenv("VERIF_PROP"); v != "" {
		e.Prop = v
	}
	if v := os.Getenv("VERIF_TIER"); v == "thorough" {
		e.Tier = v
	}
	if v := os.Getenv("VERIF_SEED"); v != "" {
		if n, err := strconv.ParseInt(v, 10, 64); err == nil {
			e.Seed = uint64(n)
		}
	}
	if v := os.Getenv("VERIF_SHARD"); v != "" {
		e.Shard, _ = strconv.Atoi(v)
	}
	if v := os.Getenv("VERIF_NSHARDS"); v != "" {
		e.NShards, _ = strconv.Atoi(v)
		if e.NShards < 1 {
			e.NShards = 1
		}
	}
	e.Out = os.Getenv("VERIF_OUT")
	if v := os.Getenv("VERIF_ROOT"); v != "" {
		e.Root = v
	}
	if v := os.Getenv("VERIF_REPO"); v != "" {
		e.Repo = v
	}
	e.Replay = os.Getenv("VERIF_REPLAY")
	return e
}

func Thorough() bool { return E.Tier == "thorough" }

// N picks the per-tier budget and divides it over the shards (at least 1).
func N(quick, thorough int) int {
	n := quick
	if Thorough() {
		n = thorough
	}
	n = (n + E.NShards - 1) / E.NShards
	if n < 1 {
		n = 1
	}
	return n
}

// Pick returns quick or thorough without dividing.
func Pick(quick, thorough int) int {
	if Thorough() {
		return thorough
	}
	return quick
}

// SeedFor derives the rapid seed of a campaign: a pure function of
// (VERIF_SEED, property, campaign name, shard). 0 means "random" to rapid and
// is remapped.
func SeedFor(name string) uint64 {
	h := fnv.New64a()
	fmt.Fprintf(h, "%d|%s|%s|%d", E.Seed, E.Prop, name, E.Shard)
	s := h.Sum64()
	if s == 0 {
		s = 1
	}
	return s
}

// Setup configures rapid for one campaign: number of checks for this shard and
// a derived seed. No fail files are written into testdata/.
func Setup(name string, quick, thorough int) int {
	n := N(quick, thorough)
	flag.Set("rapid.checks", strconv.Itoa(n))
	flag.Set("rapid.seed", strconv.FormatUint(SeedFor(name), 10))
	flag.Set("rapid.nofailfile", "true")
	flag.Set("rapid.shrinktime", "20s")
	return n
}

// ---------------------------------------------------------------------------
// Evidence collector

type Collector struct {
	mu          sync.Mutex
	failed      bool
	Evaluations int64
	nontrivial  map[uint64]struct{}
	Classes     map[string]int64
	Excluded    map[string]int64
	KnownHits   map[string]int64
	samples     []sample
	Exhaustive  *bool
	Extra       map[string]interface{}
	Sums        map[string]int64
	Rule        string
	Assumptions []string
	Skipped     map[string]int64
	distinctBC  int64 // non-trivial cases that are distinct by construction (enumerations)
}

type sample struct {
	size int
	v    interface{}
}

var C = &Collector{
	nontrivial: map[uint64]struct{}{},
	Classes:    map[string]int64{},
	Excluded:   map[string]int64{},
	KnownHits:  map[string]int64{},
	Extra:      map[string]interface{}{},
	Sums:       map[string]int64{},
	Skipped:    map[string]int64{},
}

func Hash(parts ...string) uint64 {
	h := fnv.New64a()
	for _, p := range parts {
		h.Write([]byte(p))
		h.Write([]byte{0})
	}
	return h.Sum64()
}

// Case records one evaluated case. key identifies the case for distinctness;
// nontrivial is the property-specific rule.
func (c *Collector) Case(key uint64, nontrivial bool, classes ...string) {
	c.mu.Lock()
	defer c.mu.Unlock()
	if c.failed {
		return // shrink replays are not counted
	}
	c.Evaluations++
	if nontrivial {
		c.nontrivial[key] = struct{}{}
	}
	for _, cl := range classes {
		if cl != "" {
			c.Classes[cl]++
		}
	}
}

// CaseEnum records a case of an enumeration that never repeats a case: distinct
// by construction, so no hash needs to be kept.
func (c *Collector) CaseEnum(nontrivial bool) {
	c.mu.Lock()
	if !c.failed {
		c.Evaluations++
		if nontrivial {
			c.distinctBC++
		}
	}
	c.mu.Unlock()
}

// Eval adds n executions without touching the distinct count.
func (c *Collector) Eval(n int64) {
	c.mu.Lock()
	if !c.failed {
		c.Evaluations += n
	}
	c.mu.Unlock()
}

// Distinct adds a non-trivial case key without counting an execution.
func (c *Collector) Distinct(key uint64) {
	c.mu.Lock()
	if !c.failed {
		c.nontrivial[key] = struct{}{}
	}
	c.mu.Unlock()
}

func (c *Collector) Class(cl string) {
	c.mu.Lock()
	if !c.failed {
		c.Classes[cl]++
	}
	c.mu.Unlock()
}

func (c *Collector) ClassN(cl string, n int64) {
	c.mu.Lock()
	if !c.failed {
		c.Classes[cl] += n
	}
	c.mu.Unlock()
}

func (c *Collector) Skip(why string) {
	c.mu.Lock()
	if !c.failed {
		c.Skipped[why]++
	}
	c.mu.Unlock()
}

func (c *Collector) Exclude(id string) {
	c.mu.Lock()
	if !c.failed {
		c.Excluded[id]++
	}
	c.mu.Unlock()
}

func (c *Collector) Known(id string) {
	c.mu.Lock()
	c.KnownHits[id]++
	c.mu.Unlock()
}

// Sample keeps a few non-trivial cases (smallest, a few in between, largest).
func (c *Collector) Sample(size int, v interface{}) {
	c.mu.Lock()
	defer c.mu.Unlock()
	if c.failed {
		return
	}
	if len(c.samples) < 6 {
		c.samples = append(c.samples, sample{size, v})
		return
	}
	// keep smallest at [0] and largest at [1]
	mi, ma := 0, 0
	for i, s := range c.samples {
		if s.size < c.samples[mi].size {
			mi = i
		}
		if s.size > c.samples[ma].size {
			ma = i
		}
	}
	if size > c.samples[ma].size && size < 4000 {
		c.samples[ma] = sample{size, v}
	} else if size < c.samples[mi].size {
		c.samples[mi] = sample{size, v}
	}
}

func (c *Collector) SetExhaustive(b bool) {
	c.mu.Lock()
	c.Exhaustive = &b
	c.mu.Unlock()
}

func (c *Collector) SetRule(rule string) {
	c.mu.Lock()
	c.Rule = rule
	c.mu.Unlock()
}

func (c *Collector) Assume(a ...string) {
	c.mu.Lock()
	c.Assumptions = append(c.Assumptions, a...)
	c.mu.Unlock()
}

func (c *Collector) SetExtra(k string, v interface{}) {
	c.mu.Lock()
	c.Extra[k] = v
	c.mu.Unlock()
}

func (c *Collector) AddExtra(k string, n int64) {
	c.mu.Lock()
	if !c.failed {
		c.Sums[k] += n
	}
	c.mu.Unlock()
}

func (c *Collector) markFailed() {
	c.mu.Lock()
	c.failed = true
	c.mu.Unlock()
}

// Part is what one shard writes and the driver merges.
type Part struct {
	Shard       int                    `json:"shard"`
	Evaluations int64                  `json:"evaluations"`
	Classes     map[string]int64       `json:"classes"`
	Excluded    map[string]int64       `json:"excluded"`
	KnownHits   map[string]int64       `json:"known_hits"`
	Skipped     map[string]int64       `json:"skipped"`
	Samples     []interface{}          `json:"samples"`
	Exhaustive  *bool                  `json:"exhaustive,omitempty"`
	Extra       map[string]interface{} `json:"extra"`
	Sums        map[string]int64       `json:"sums"`
	Rule        string                 `json:"rule"`
	Assumptions []string               `json:"assumptions"`
	NDistinct   int                    `json:"ndistinct"`
	DistinctBC  int64                  `json:"distinct_by_construction"`
}

func (c *Collector) Flush() {
	if E.Out == "" {
		return
	}
	c.mu.Lock()
	defer c.mu.Unlock()
	p := Part{Shard: E.Shard, Evaluations: c.Evaluations, Classes: c.Classes, Excluded: c.Excluded,
		KnownHits: c.KnownHits, Skipped: c.Skipped, Exhaustive: c.Exhaustive, Extra: c.Extra, Sums: c.Sums, Rule: c.Rule,
		Assumptions: c.Assumptions, NDistinct: len(c.nontrivial), DistinctBC: c.distinctBC}
	sort.Slice(c.samples, func(i, j int) bool { return c.samples[i].size < c.samples[j].size })
	for _, s := range c.samples {
		p.Samples = append(p.Samples, s.v)
	}
	b, _ := json.Marshal(p)
	os.WriteFile(filepath.Join(E.Out, fmt.Sprintf("part-%d.json", E.Shard)), b, 0o644)
	hb := make([]byte, 0, 8*len(c.nontrivial))
	var tmp [8]byte
	for k := range c.nontrivial {
		binary.LittleEndian.PutUint64(tmp[:], k)
		hb = append(hb, tmp[:]...)
	}
	os.WriteFile(filepath.Join(E.Out, fmt.Sprintf("hashes-%d.bin", E.Shard)), hb, 0o644)
}

// Main is the TestMain body of every props package.
func Main(m *testing.M) {
	code := m.Run()
	C.Flush()
	os.Exit(code)
}

// ---------------------------------------------------------------------------
// Failure / replay files

// Failure is the on-disk form of a (shrunk) violating case. Case is whatever
// the property needs to re-run its oracle without rapid.
type Failure struct {
	Property string          `json:"property"`
	Check    string          `json:"check"` // which campaign / oracle inside the property
	Case     json.RawMessage `json:"case"`
	Message  string          `json:"message"`
}

type TB interface {
	Fatalf(format string, args ...interface{})
	Helper()
}

// Fail records the failing case (the last call wins: rapid re-runs the minimal
// case last) and fails the test.
func Fail(t TB, check string, cs interface{}, format string, args ...interface{}) {
	t.Helper()
	msg := fmt.Sprintf(format, args...)
	C.markFailed()
	SaveFailure(check, cs, msg)
	t.Fatalf("%s: %s", check, msg)
}

func SaveFailure(check string, cs interface{}, msg string) {
	if E.Out == "" {
		return
	}
	cb, err := json.Marshal(cs)
	if err != nil {
		cb, _ = json.Marshal(fmt.Sprintf("%#v", cs))
	}
	f := Failure{Property: E.Prop, Check: check, Case: cb, Message: msg}
	b, _ := json.MarshalIndent(f, "", " ")
	name := fmt.Sprintf("fail-%d-%s.json", E.Shard, sanitize(check))
	os.WriteFile(filepath.Join(E.Out, name), b, 0o644)
}

func sanitize(s string) string {
	return strings.Map(func(r rune) rune {
		if r >= 'a' && r <= 'z' || r >= 'A' && r <= 'Z' || r >= '0' && r <= '9' || r == '_' || r == '-' {
			return r
		}
		return '_'
	}, s)
}

func LoadFailure(path string) (Failure, error) {
	var f Failure
	b, err := os.ReadFile(path)
	if err != nil {
		return f, err
	}
	err = json.Unmarshal(b, &f)
	return f, err
}

func ShaPrefix(b []byte) string {
	s := sha256.Sum256(b)
	return hex.EncodeToString(s[:8])
}

// ---------------------------------------------------------------------------
// Known findings (read-only at run time)

type Finding struct {
	ID        string `json:"id"`
	Property  string `json:"property"`
	Status    string `json:"status"` // known | fixed
	Title     string `json:"title"`
	Witness   string `json:"witness"` // path relative to /verif
	FixCommit string `json:"fix_commit,omitempty"`
	Note      string `json:"note,omitempty"`
	Guard     string `json:"generator_guard,omitempty"` // generator flag that steers around the finding
}

var (
	findingsOnce sync.Once
	findings     []Finding
)

func Findings() []Finding {
	findingsOnce.Do(func() {
		b, err := os.ReadFile(filepath.Join(E.Root, "known_findings.json"))
		if err != nil {
			return
		}
		var doc struct {
			Findings []Finding `json:"findings"`
		}
		if json.Unmarshal(b, &doc) == nil {
			findings = doc.Findings
		}
	})
	return findings
}

// IsKnown reports whether finding id is listed with status "known" (only then
// may a matcher classify a failing case as that finding).
func IsKnown(id string) bool {
	for _, f := range Findings() {
		if f.ID == id && f.Status == "known" {
			return true
		}
	}
	return false
}

// KnownOrFail is the standard tail of a property: given an oracle error for a
// case, ask the matcher whether it is a listed known finding; if so count it and
// continue, otherwise fail.
func KnownOrFail(t TB, check string, cs interface{}, err error, match func() string) {
	t.Helper()
	if err == nil {
		return
	}
	if match != nil {
		if id := match(); id != "" && IsKnown(id) {
			C.Known(id)
			return
		}
	}
	Fail(t, check, cs, "%v", err)
}

// ReplayTest is the body of TestReplay in every props package.
func ReplayTest(t *testing.T, fn func(f Failure) error) {
	if E.Replay == "" {
		t.Skip("no VERIF_REPLAY")
	}
	f, err := LoadFailure(E.Replay)
	if err != nil {
		t.Fatalf("cannot load replay file: %v", err)
	}
	if err := fn(f); err != nil {
		t.Fatalf("replay %s: %v", E.Replay, err)
	}
}

// ---------------------------------------------------------------------------
// Watchdog: hang guard. A property marks the case in flight; if the mark does
// not change for the given duration the case is saved as a failure and the
// process exits (the driver then reports it as a violation with that case).

var (
	wdMu    sync.Mutex
	wdSeq   uint64
	wdCheck string
	wdCase  interface{}
	wdOnce  sync.Once
)

func InFlight(check string, cs interface{}) {
	wdMu.Lock()
	wdSeq++
	wdCheck, wdCase = check, cs
	wdMu.Unlock()
}

func StartWatchdog(limit time.Duration) {
	wdOnce.Do(func() {
		go func() {
			var last uint64
			var since time.Time
			for {
				time.Sleep(2 * time.Second)
				wdMu.Lock()
				seq, check, cs := wdSeq, wdCheck, wdCase
				wdMu.Unlock()
				if seq != last || cs == nil {
					last, since = seq, time.Now()
					continue
				}
				if time.Since(since) > 6*time.Second {
					// the same call for seconds and the heap beyond anything a case needs: it allocates without bound, do not
					// wait for the machine to run out of memory
					var ms runtime.MemStats
					runtime.ReadMemStats(&ms)
					if ms.HeapAlloc > 3<<30 {
						C.markFailed()
						SaveFailure(check, cs, fmt.Sprintf("hang: the call has not returned after %v and the process holds %d MB of heap (memory without bound)", time.Since(since).Round(time.Second), ms.HeapAlloc>>20))
						C.Flush()
						fmt.Printf("--- FAIL: watchdog: %s allocates without bound\n", check)
						os.Exit(1)
					}
				}
				if time.Since(since) > limit {
					C.markFailed()
					SaveFailure(check, cs, fmt.Sprintf("hang: the call did not return within %v", limit))
					C.Flush()
					fmt.Printf("--- FAIL: watchdog: %s did not return within %v\n", check, limit)
					os.Exit(1)
				}
			}
		}()
	})
}

// InFlightOnDisk writes the case to <out>/inflight-<shard>-<check>.json before it runs, for checks in which the
// process can die without a chance to report (race detector with halt_on_error, fatal runtime errors). The
// returned function removes the mark.
func InFlightOnDisk(check string, cs interface{}, message string) func() {
	if E.Out == "" {
		return func() {}
	}
	raw, _ := json.Marshal(cs)
	b, _ := json.MarshalIndent(Failure{Property: E.Prop, Check: check, Case: raw, Message: message}, "", " ")
	p := filepath.Join(E.Out, fmt.Sprintf("inflight-%d-%s.json", E.Shard, check))
	os.WriteFile(p, b, 0o644)
	return func() { os.Remove(p) }
}

// Idle tells the watchdog that nothing is in flight.
func Idle() {
	wdMu.Lock()
	wdSeq++
	wdCase = nil
	wdMu.Unlock()
}
