package hx

import (
	"fmt"
	"strconv"
	"strings"
)

// ParseGoFuzz decodes a "go test fuzz v1" corpus file into its argument values
// (string, []byte, bool, int, int64, uint..., as Go values).
func ParseGoFuzz(s string) ([]interface{}, error) {
	lines := strings.Split(strings.TrimSpace(s), "\n")
	if len(lines) == 0 || !strings.HasPrefix(lines[0], "go test fuzz v1") {
		return nil, fmt.Errorf("not a go fuzz corpus file")
	}
	var out []interface{}
	for _, l := range lines[1:] {
		l = strings.TrimSpace(l)
		if l == "" {
			continue
		}
		i := strings.IndexByte(l, '(')
		if i < 0 || !strings.HasSuffix(l, ")") {
			return nil, fmt.Errorf("bad line %q", l)
		}
		typ, arg := l[:i], l[i+1:len(l)-1]
		switch typ {
		case "string":
			v, err := strconv.Unquote(arg)
			if err != nil {
				return nil, err
			}
			out = append(out, v)
		case "[]byte":
			v, err := strconv.Unquote(arg)
			if err != nil {
				return nil, err
			}
			out = append(out, []byte(v))
		case "bool":
			out = append(out, arg == "true")
		case "int", "int8", "int16", "int32", "int64":
			v, err := strconv.ParseInt(arg, 0, 64)
			if err != nil {
				return nil, err
			}
			out = append(out, int(v))
		case "uint", "uint8", "uint16", "uint32", "uint64", "byte":
			v, err := strconv.ParseUint(arg, 0, 64)
			if err != nil {
				return nil, err
			}
			out = append(out, int(v))
		default:
			return nil, fmt.Errorf("unsupported type %q", typ)
		}
	}
	return out, nil
}
