module verifharness

go 1.23

toolchain go1.23.5

require (
	github.com/tdewolff/minify/v2 v2.0.0
	github.com/tdewolff/parse/v2 v2.7.23
	golang.org/x/net v0.34.0
	pgregory.net/rapid v1.3.0
)

require golang.org/x/image v0.0.0-20190802002840-cff245a6509b

replace github.com/tdewolff/minify/v2 => /repo
