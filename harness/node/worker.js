// Persistent V8 worker: reads one JSON request per line on stdin, runs the
// program in a fresh vm context and answers with its observation.
// request : {id, goal: "script"|"module", src, probes: [names], predef: [names], syntaxOnly: bool}
// response: {id, status: "ok"|"syntax"|"timeout"|"tdz", obs: string}
'use strict';
const vm = require('vm');
const readline = require('readline');

// The prelude runs inside every fresh context. It defines the host function $
// (logs structurally serialised arguments, returns its first argument) and
// neutralises the reflection a minifier is entitled to disturb.
const PRELUDE = new vm.Script(`(function(){
  const LOG = [];
  const hasOwn = Object.prototype.hasOwnProperty;
  const objToString = Object.prototype.toString;
  const isArray = Array.isArray;
  const getProto = Object.getPrototypeOf;
  const ObjProto = Object.prototype;
  const keysOf = Object.keys;
  const MapP = Map, SetP = Set, ErrorP = Error, PromiseP = Promise;
  function ser(v, depth, seen) {
    const t = typeof v;
    if (v === null) return 'null';
    if (t === 'undefined') return 'undef';
    if (t === 'number') return Object.is(v, -0) ? 'n:-0' : 'n:' + String(v);
    if (t === 'string') return 's:' + JSON.stringify(v);
    if (t === 'boolean') return 'b:' + v;
    if (t === 'bigint') return 'big:' + v.toString();
    if (t === 'symbol') return 'sym:' + String(v.description);
    if (t === 'function') return 'f';
    if (depth > 6) return '...';
    if (seen.indexOf(v) >= 0) return 'cycle';
    seen.push(v);
    let out;
    try {
      if (isArray(v)) {
        const parts = [];
        for (let i = 0; i < v.length && i < 64; i++) parts.push(i in v ? ser(v[i], depth + 1, seen) : 'hole');
        out = '[' + parts.join(',') + ']';
      } else if (v instanceof ErrorP) {
        const m = typeof v.message === 'string' && v.message.indexOf('u:') === 0 ? v.message : '';
        out = 'err:' + (v.constructor && v.constructor.name) + ':' + m;
      } else if (v instanceof MapP) {
        const parts = [];
        v.forEach((val, key) => parts.push(ser(key, depth + 1, seen) + '=>' + ser(val, depth + 1, seen)));
        out = 'map{' + parts.join(',') + '}';
      } else if (v instanceof SetP) {
        const parts = [];
        v.forEach((val) => parts.push(ser(val, depth + 1, seen)));
        out = 'set{' + parts.join(',') + '}';
      } else if (v instanceof RegExp) {
        out = 're:' + v.flags + ':' + v.lastIndex;
      } else if (v instanceof PromiseP) {
        out = 'promise';
      } else {
        const parts = [];
        const ks = keysOf(v);
        for (let i = 0; i < ks.length && i < 64; i++) parts.push(JSON.stringify(ks[i]) + ':' + ser(v[ks[i]], depth + 1, seen));
        const p = getProto(v);
        const tag = p === ObjProto ? '' : p === null ? 'null-proto' : (p.constructor && p.constructor !== Object && typeof p.constructor.name === 'string' ? 'inst' : 'proto');
        out = tag + '{' + parts.join(',') + '}';
      }
    } catch (e) {
      out = 'ser-threw:' + ser(e, depth + 1, seen);
    }
    seen.pop();
    return out;
  }
  // serialisation invokes accessors; an accessor that calls $ again must not log or recurse
  let busy = false;
  const dollar = function () {
    if (busy) return arguments[0];
    busy = true;
    try {
      const parts = [];
      for (let i = 0; i < arguments.length; i++) parts.push(ser(arguments[i], 0, []));
      if (LOG.length < 4000) LOG.push(parts.join(' '));
    } finally {
      busy = false;
    }
    return arguments[0];
  };
  const serGuarded = function (v) {
    if (busy) return 'busy';
    busy = true;
    try { return ser(v, 0, []); } finally { busy = false; }
  };
  Object.defineProperty(globalThis, '$', { value: dollar, writable: false, configurable: false, enumerable: false });
  Object.defineProperty(globalThis, '__verif', { value: { LOG, ser: serGuarded }, writable: false, configurable: false, enumerable: false });
  // reflection the minifier may disturb
  Function.prototype.toString = function () { return 'function(){}'; };
  Object.defineProperty(RegExp.prototype, 'source', { get() { return 're'; }, configurable: true });
  RegExp.prototype.toString = function () { return '/re/'; };
  Error.stackTraceLimit = 0;
})()`, { filename: 'prelude.js' });

const baseNames = (() => {
  const ctx = vm.createContext({});
  PRELUDE.runInContext(ctx);
  return new Set(vm.runInContext('Object.getOwnPropertyNames(globalThis)', ctx));
})();

function isTDZ(e) {
  return e && e.name === 'ReferenceError' && typeof e.message === 'string' &&
    (e.message.indexOf('before initialization') >= 0 || e.message.indexOf("Cannot access '") === 0);
}

const tick = () => new Promise((r) => setImmediate(r));

async function run(req) {
  const ctx = vm.createContext({});
  PRELUDE.runInContext(ctx);
  const V = vm.runInContext('__verif', ctx);
  for (const name of req.predef || []) {
    vm.runInContext('globalThis[' + JSON.stringify(name) + '] = ' + JSON.stringify('G:' + name), ctx);
  }
  const predefSet = new Set(req.predef || []);
  let completion = 'normal';
  let tdz = false;
  let ns = null;
  let mod = null, script = null;
  try {
    if (req.goal === 'module') mod = new vm.SourceTextModule(req.src, { context: ctx, identifier: 'main.mjs' });
    else script = new vm.Script(req.src, { filename: 'main.js' });
  } catch (e) {
    return { status: 'syntax', obs: String(e && e.message) };
  }
  if (req.syntaxOnly) return { status: 'ok', obs: '' };
  try {
    if (mod) {
      const dep = new vm.SyntheticModule(['default', 'x', 'y', 'f'], function () {
        this.setExport('default', 'D:default');
        this.setExport('x', 'D:x');
        this.setExport('y', 'D:y');
        this.setExport('f', vm.runInContext('(function(a){ return $("dep.f", a); })', ctx));
      }, { context: ctx, identifier: 'dep' });
      try {
        await mod.link(() => dep);
      } catch (e) {
        return { status: 'syntax', obs: 'link: ' + String(e && e.message) };
      }
      await mod.evaluate({ timeout: req.timeout || 400 });
      ns = mod.namespace;
    } else {
      script.runInContext(ctx, { timeout: req.timeout || 400 });
    }
  } catch (e) {
    if (e && e.code === 'ERR_SCRIPT_EXECUTION_TIMEOUT') return { status: 'timeout', obs: '' };
    if (isTDZ(e)) tdz = true;
    let s;
    try { s = V.ser(e); } catch (e2) { s = 'unserialisable'; }
    completion = 'throw ' + s;
  }
  // drain promise jobs / immediates so async programs are observed deterministically
  await tick(); await tick(); await tick();
  const out = [];
  out.push('completion: ' + completion);
  out.push('log:');
  for (const l of V.LOG) out.push('  ' + l);
  // new global properties (var / function declarations and implicit globals)
  const names = vm.runInContext('Object.getOwnPropertyNames(globalThis)', ctx).filter((n) => !baseNames.has(n)).sort();
  out.push('globals:');
  for (const n of names) {
    let s;
    try { s = V.ser(vm.runInContext('globalThis[' + JSON.stringify(n) + ']', ctx)); } catch (e) { s = 'threw'; }
    if (predefSet.has(n) && s === 's:' + JSON.stringify('G:' + n)) continue;
    out.push('  ' + n + ' = ' + s);
  }
  // top-level lexical bindings (let/const/class) named by the generator
  if (req.goal !== 'module') {
    out.push('lexical:');
    for (const n of req.probes || []) {
      let s;
      try { s = V.ser(vm.runInContext('(typeof ' + n + ' === "undefined") ? undefined : ' + n, ctx)); } catch (e) { s = 'threw:' + (e && e.name); }
      out.push('  ' + n + ' = ' + s);
    }
  } else if (ns) {
    out.push('namespace:');
    for (const k of Object.keys(ns).sort()) {
      let s;
      try { s = V.ser(ns[k]); } catch (e) { s = 'threw:' + (e && e.name); }
      out.push('  ' + k + ' = ' + s);
    }
  }
  return { status: tdz ? 'tdz' : 'ok', obs: out.join('\n') };
}

const rl = readline.createInterface({ input: process.stdin, terminal: false });
const queue = [];
let busy = false;
async function pump() {
  if (busy) return;
  busy = true;
  while (queue.length) {
    const line = queue.shift();
    let req;
    try { req = JSON.parse(line); } catch (e) { continue; }
    let res;
    try { res = await run(req); } catch (e) {
      if (e instanceof SyntaxError || (e && e.name === 'SyntaxError')) res = { status: 'syntax', obs: String(e.message) };
      else res = { status: 'error', obs: String(e && e.stack || e) };
    }
    res.id = req.id;
    process.stdout.write(JSON.stringify(res) + '\n');
  }
  busy = false;
}
rl.on('line', (line) => { queue.push(line); pump(); });
rl.on('close', () => { const t = setInterval(() => { if (!busy && !queue.length) { clearInterval(t); process.exit(0); } }, 5); });
process.on('unhandledRejection', () => {});
