// Package decnum is an exact decimal reference for number lexemes of the
// grammar [+-]?(d+.?d*|.d+)([eE][+-]?d+)?. A value is sign * D * 10^E with D a
// digit string without leading or trailing zeros and E an arbitrary-size
// integer, so "1E400000000000000000000" costs nothing.
package decnum

import (
	"math/big"
)

type Dec struct {
	Neg    bool
	Digits string   // "" for zero; no leading/trailing zeros
	Exp    *big.Int // value = 0.Digits * 10^Exp  (i.e. normalised: 0.1 <= |m| < 1)
}

// Valid reports whether s is in the number grammar; allowExp=false forbids the exponent part.
func Valid(s []byte, allowExp bool) bool {
	i := 0
	n := len(s)
	if i < n && (s[i] == '+' || s[i] == '-') {
		i++
	}
	intDigits := 0
	for i < n && s[i] >= '0' && s[i] <= '9' {
		i++
		intDigits++
	}
	fracDigits := 0
	if i < n && s[i] == '.' {
		i++
		for i < n && s[i] >= '0' && s[i] <= '9' {
			i++
			fracDigits++
		}
	}
	if intDigits == 0 && fracDigits == 0 {
		return false
	}
	if i < n && (s[i] == 'e' || s[i] == 'E') {
		if !allowExp {
			return false
		}
		i++
		if i < n && (s[i] == '+' || s[i] == '-') {
			i++
		}
		ed := 0
		for i < n && s[i] >= '0' && s[i] <= '9' {
			i++
			ed++
		}
		if ed == 0 {
			return false
		}
	}
	return i == n
}

// Parse assumes Valid(s, true).
func Parse(s []byte) Dec {
	i := 0
	n := len(s)
	d := Dec{}
	if i < n && (s[i] == '+' || s[i] == '-') {
		d.Neg = s[i] == '-'
		i++
	}
	digits := make([]byte, 0, n)
	intLen := 0
	for i < n && s[i] >= '0' && s[i] <= '9' {
		digits = append(digits, s[i])
		i++
		intLen++
	}
	if i < n && s[i] == '.' {
		i++
		for i < n && s[i] >= '0' && s[i] <= '9' {
			digits = append(digits, s[i])
			i++
		}
	}
	exp := new(big.Int)
	if i < n && (s[i] == 'e' || s[i] == 'E') {
		i++
		exp.SetString(string(s[i:]), 10) // handles sign
		if exp == nil {
			exp = new(big.Int)
		}
	}
	// value = 0.digits * 10^(intLen+exp); strip leading zeros (each lowers the exponent)
	lead := 0
	for lead < len(digits) && digits[lead] == '0' {
		lead++
	}
	digits = digits[lead:]
	for len(digits) > 0 && digits[len(digits)-1] == '0' {
		digits = digits[:len(digits)-1]
	}
	if len(digits) == 0 {
		return Dec{Neg: false, Digits: "", Exp: new(big.Int)}
	}
	exp.Add(exp, big.NewInt(int64(intLen-lead)))
	d.Digits = string(digits)
	d.Exp = exp
	return d
}

func (a Dec) IsZero() bool { return a.Digits == "" }

// Equal: exact numeric equality (sign of zero ignored).
func Equal(a, b Dec) bool {
	if a.IsZero() || b.IsZero() {
		return a.IsZero() && b.IsZero()
	}
	return a.Neg == b.Neg && a.Digits == b.Digits && a.Exp.Cmp(b.Exp) == 0
}

// WithinHalfUnit reports |out-in| <= 1/2 * 10^(e-p+1) where e is the decimal
// exponent of the leading significant digit of in (in = d.ddd * 10^e) and p the
// number of significant digits kept.
func WithinHalfUnit(in, out Dec, p int) bool {
	if in.IsZero() {
		return out.IsZero()
	}
	// in = 0.D * 10^E  => leading digit exponent e = E-1; bound = 0.5*10^(E-p) = 5*10^(E-p-1)
	// Work relative to E: scale everything by 10^(-E+K) with K large enough to make all integers.
	if out.IsZero() {
		// |in| <= bound ?  in = 0.D*10^E ; bound = 0.5*10^(E-p): only if p==0 and D<=5: p>=1 here => false unless..
		// 0.D >= 0.1 ; bound/10^E = 0.5*10^-p <= 0.05 for p>=1
		return false
	}
	diff := new(big.Int).Sub(out.Exp, in.Exp)
	if !diff.IsInt64() || diff.Int64() > 4 || diff.Int64() < -int64(p)-4 {
		return false // magnitudes too far apart to be within the bound
	}
	de := int(diff.Int64()) // out.Exp - in.Exp
	// choose scale S = max(len(in.Digits), len(out.Digits)-de, p+1) so that
	// in*10^(S-E) , out*10^(S-E), bound*10^(S-E) are integers
	S := len(in.Digits)
	if l := len(out.Digits) - de; l > S {
		S = l
	}
	if p+1 > S {
		S = p + 1
	}
	ten := big.NewInt(10)
	pow := func(k int) *big.Int { return new(big.Int).Exp(ten, big.NewInt(int64(k)), nil) }
	ai, _ := new(big.Int).SetString(in.Digits, 10)
	ai.Mul(ai, pow(S-len(in.Digits)))
	if in.Neg {
		ai.Neg(ai)
	}
	bi, _ := new(big.Int).SetString(out.Digits, 10)
	// out = 0.Dout*10^(E+de) => scaled: Dout * 10^(S+de-len)
	k := S + de - len(out.Digits)
	if k < 0 {
		return false
	}
	bi.Mul(bi, pow(k))
	if out.Neg {
		bi.Neg(bi)
	}
	d := new(big.Int).Sub(ai, bi)
	d.Abs(d)
	bound := new(big.Int).Mul(big.NewInt(5), pow(S-p-1))
	return d.Cmp(bound) <= 0
}

func (a Dec) String() string {
	if a.IsZero() {
		return "0"
	}
	s := "0." + a.Digits + "e" + a.Exp.String()
	if a.Neg {
		s = "-" + s
	}
	return s
}
