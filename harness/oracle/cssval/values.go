package cssval

import (
	"fmt"
	"math"
	"sort"
	"strconv"
	"strings"

	"golang.org/x/image/colornames"

	"verifharness/oracle/decnum"
	"verifharness/oracle/rfc2397"
)

// Atom is one canonical component value.
type Atom struct {
	K    string  // n p d i I c s u f x(delim/comma) r(unicode-range) w(whitespace marker, only inside functions that need it)
	S    string  // canonical text
	RGBA [4]float64
	Approx bool  // colour computed from hsl()/percentages: compared with one 8-bit step of tolerance
	Args []Atom  // for functions
}

var lengthUnits = map[string]bool{}
var angleUnits = map[string]bool{"deg": true, "grad": true, "rad": true, "turn": true}

func init() {
	for _, u := range strings.Fields("px mm q cm in pt pc ch em ex rem vh vw vmin vmax vi vb lh rlh cap ic rex rch svh svw lvh lvw dvh dvw svmin svmax lvmin lvmax dvmin dvmax cqw cqh cqi cqb cqmin cqmax") {
		lengthUnits[u] = true
	}
}

var namedColors = func() map[string][3]uint8 {
	m := map[string][3]uint8{"rebeccapurple": {0x66, 0x33, 0x99}}
	for n, c := range colornames.Map {
		m[n] = [3]uint8{c.R, c.G, c.B}
	}
	return m
}()

var mathFuncs = map[string]bool{"calc": true, "min": true, "max": true, "clamp": true, "-webkit-calc": true, "-moz-calc": true}

type ctx struct {
	prop       string
	inMath     bool
	inFunc     string
	caseSens   bool
	keepZeroUnit bool
}

func numCanon(lex string) string {
	if !decnum.Valid([]byte(lex), true) {
		return "?" + lex
	}
	return decnum.Parse([]byte(lex)).String()
}

func isZero(lex string) bool {
	return decnum.Valid([]byte(lex), true) && decnum.Parse([]byte(lex)).IsZero()
}

func hexColor(h string) (Atom, bool) {
	for _, c := range []byte(h) {
		if !isHexD(c) {
			return Atom{}, false
		}
	}
	h = strings.ToLower(h)
	var v [4]float64
	hx := func(s string) float64 { n, _ := strconv.ParseUint(s, 16, 16); return float64(n) }
	switch len(h) {
	case 3, 4:
		for i := 0; i < len(h); i++ {
			v[i] = hx(string([]byte{h[i], h[i]}))
		}
		if len(h) == 3 {
			v[3] = 255
		}
	case 6, 8:
		for i := 0; i < len(h)/2; i++ {
			v[i] = hx(h[2*i : 2*i+2])
		}
		if len(h) == 6 {
			v[3] = 255
		}
	default:
		return Atom{}, false
	}
	return Atom{K: "c", RGBA: [4]float64{v[0], v[1], v[2], v[3] / 255}}, true
}

func hsl2rgb(h, s, l float64) (float64, float64, float64) {
	h = math.Mod(h, 360)
	if h < 0 {
		h += 360
	}
	f := func(n float64) float64 {
		k := math.Mod(n+h/30, 12)
		a := s * math.Min(l, 1-l)
		return l - a*math.Max(-1, math.Min(math.Min(k-3, 9-k), 1))
	}
	return f(0), f(8), f(4)
}

// colorFunc evaluates rgb()/rgba()/hsl()/hsla() with plain numeric arguments.
func colorFunc(name string, args []Token) (Atom, bool) {
	var nums []Token
	sawSlash := false
	for _, t := range args {
		switch t.T {
		case Whitespace, Comment, Comma:
		case Delim:
			if t.Raw != "/" {
				return Atom{}, false
			}
			sawSlash = true
		case Number, Percentage:
			nums = append(nums, t)
		case Dimension:
			if (name == "hsl" || name == "hsla") && len(nums) == 0 && strings.EqualFold(t.Unit, "deg") {
				nums = append(nums, Token{T: Number, Val: t.Val})
			} else {
				return Atom{}, false
			}
		default:
			return Atom{}, false
		}
	}
	_ = sawSlash
	if len(nums) != 3 && len(nums) != 4 {
		return Atom{}, false
	}
	val := func(t Token) float64 { f, _ := strconv.ParseFloat(t.Val, 64); return f }
	a := Atom{K: "c"}
	alpha := 1.0
	if len(nums) == 4 {
		alpha = val(nums[3])
		if nums[3].T == Percentage {
			alpha /= 100
		}
		alpha = math.Max(0, math.Min(1, alpha))
	}
	if name == "rgb" || name == "rgba" {
		for i := 0; i < 3; i++ {
			v := val(nums[i])
			if nums[i].T == Percentage {
				v = v / 100 * 255
				a.Approx = true
			}
			if v != math.Trunc(v) {
				a.Approx = true
			}
			a.RGBA[i] = math.Max(0, math.Min(255, v))
		}
	} else {
		sawComma := false
		for _, t := range args {
			sawComma = sawComma || t.T == Comma
		}
		// CSS Color 4: in the space separated form saturation and lightness may be plain numbers, N means N%
		if nums[0].T != Number || sawComma && (nums[1].T != Percentage || nums[2].T != Percentage) {
			return Atom{}, false
		}
		r, g, b := hsl2rgb(val(nums[0]), math.Max(0, math.Min(1, val(nums[1])/100)), math.Max(0, math.Min(1, val(nums[2])/100)))
		a.RGBA[0], a.RGBA[1], a.RGBA[2] = r*255, g*255, b*255
		a.Approx = true
	}
	a.RGBA[3] = alpha
	return a, true
}

// canonTokens turns a component value list into atoms. Whitespace is dropped
// except inside math functions, where "a - b" and "a -b" differ.
func canonTokens(ts []Token, c ctx) []Atom {
	var out []Atom
	for i := 0; i < len(ts); i++ {
		t := ts[i]
		switch t.T {
		case Whitespace:
			if c.inMath {
				// significant around + and - only; normalise to a single marker
				if len(out) > 0 && out[len(out)-1].K != "w" {
					out = append(out, Atom{K: "w"})
				}
			}
		case Comment:
		case Number:
			out = append(out, Atom{K: "n", S: numCanon(t.Val)})
		case Percentage:
			out = append(out, Atom{K: "p", S: numCanon(t.Val) + "%"})
		case Dimension:
			u := strings.ToLower(t.Unit)
			if isZero(t.Val) && (lengthUnits[u] || angleUnits[u]) && !c.inMath && !c.keepZeroUnit {
				out = append(out, Atom{K: "n", S: "0"})
			} else {
				out = append(out, Atom{K: "d", S: numCanon(t.Val) + u})
			}
		case Ident:
			l := strings.ToLower(t.Val)
			if rgb, ok := namedColors[l]; ok && !c.caseSens {
				out = append(out, Atom{K: "c", RGBA: [4]float64{float64(rgb[0]), float64(rgb[1]), float64(rgb[2]), 1}})
			} else if l == "transparent" && !c.caseSens {
				out = append(out, Atom{K: "c", RGBA: [4]float64{0, 0, 0, 0}})
			} else if c.caseSens {
				out = append(out, Atom{K: "I", S: t.Val})
			} else {
				out = append(out, Atom{K: "i", S: l})
			}
		case Hash:
			if a, ok := hexColor(t.Val); ok {
				out = append(out, a)
			} else {
				out = append(out, Atom{K: "I", S: "#" + t.Val})
			}
		case String:
			out = append(out, Atom{K: "s", S: t.Val})
		case URL:
			out = append(out, Atom{K: "u", S: rfc2397.Canon(strings.TrimSpace(t.Val))})
		case UnicodeRange:
			out = append(out, Atom{K: "r", S: strings.ToUpper(t.Raw)})
		case Comma:
			out = append(out, Atom{K: "x", S: ","})
		case Delim, Colon, Semicolon:
			out = append(out, Atom{K: "x", S: t.Raw})
		case LParen, LBracket, LBrace:
			out = append(out, Atom{K: "x", S: t.Raw})
		case RParen, RBracket, RBrace:
			out = append(out, Atom{K: "x", S: t.Raw})
		case Function:
			// collect args up to the matching paren
			depth := 1
			j := i + 1
			for ; j < len(ts); j++ {
				if ts[j].T == Function || ts[j].T == LParen {
					depth++
				} else if ts[j].T == RParen {
					depth--
					if depth == 0 {
						break
					}
				}
			}
			args := ts[i+1 : min(j, len(ts))]
			name := strings.ToLower(t.Val)
			i = j
			if name == "rgb" || name == "rgba" || name == "hsl" || name == "hsla" {
				if a, ok := colorFunc(name, args); ok {
					out = append(out, a)
					continue
				}
			}
			if name == "url" {
				// url( "string" )
				for _, a := range args {
					if a.T == String {
						out = append(out, Atom{K: "u", S: rfc2397.Canon(strings.TrimSpace(a.Val))})
					}
				}
				continue
			}
			c2 := c
			c2.inFunc = name
			c2.inMath = c.inMath || mathFuncs[name]
			if name == "var" || name == "env" || name == "attr" || name == "counter" || name == "counters" || name == "local" || name == "format" {
				c2.caseSens = true
			}
			out = append(out, Atom{K: "f", S: name, Args: trimW(canonTokens(args, c2))})
		case BadString, BadURL, AtKeyword, CDO, CDC:
			out = append(out, Atom{K: "x", S: t.Raw})
		}
	}
	return trimW(out)
}

func trimW(a []Atom) []Atom {
	for len(a) > 0 && a[0].K == "w" {
		a = a[1:]
	}
	for len(a) > 0 && a[len(a)-1].K == "w" {
		a = a[:len(a)-1]
	}
	// whitespace next to commas/parens is never significant
	var out []Atom
	for i, x := range a {
		if x.K == "w" {
			prev, next := a[i-1], a[i+1]
			if prev.K == "x" && (prev.S == "," || prev.S == "(" || prev.S == "/" || prev.S == "*") || next.K == "x" && (next.S == "," || next.S == ")" || next.S == "/" || next.S == "*") {
				continue
			}
		}
		out = append(out, x)
	}
	return out
}

func min(a, b int) int {
	if a < b {
		return a
	}
	return b
}

func (a Atom) String() string {
	switch a.K {
	case "c":
		return fmt.Sprintf("color(%.2f,%.2f,%.2f,%.4f)", a.RGBA[0], a.RGBA[1], a.RGBA[2], a.RGBA[3])
	case "f":
		return a.S + "(" + AtomsString(a.Args) + ")"
	case "w":
		return "_"
	}
	return a.K + ":" + a.S
}

func AtomsString(as []Atom) string {
	parts := make([]string, len(as))
	for i, a := range as {
		parts[i] = a.String()
	}
	return strings.Join(parts, " ")
}

func atomEq(a, b Atom) bool {
	if a.K != b.K {
		return false
	}
	switch a.K {
	case "c":
		tol := 0.0
		if a.Approx || b.Approx {
			tol = 1.0
		}
		for i := 0; i < 3; i++ {
			x, y := math.Floor(a.RGBA[i]+0.5), math.Floor(b.RGBA[i]+0.5)
			if a.RGBA[3] == 0 && b.RGBA[3] == 0 {
				continue // fully transparent: channels do not matter for rendering... but keep black==black
			}
			if math.Abs(x-y) > tol && math.Abs(a.RGBA[i]-b.RGBA[i]) > tol {
				return false
			}
		}
		return math.Abs(a.RGBA[3]-b.RGBA[3]) <= 0.002
	case "f":
		return a.S == b.S && atomsEq(a.Args, b.Args)
	}
	return a.S == b.S
}

func atomsEq(a, b []Atom) bool {
	if len(a) != len(b) {
		return false
	}
	for i := range a {
		if !atomEq(a[i], b[i]) {
			return false
		}
	}
	return true
}

// --- property specific canonical forms ------------------------------------------

func isIdent(a Atom, names ...string) bool {
	if a.K != "i" {
		return false
	}
	for _, n := range names {
		if a.S == n {
			return true
		}
	}
	return false
}

func splitComma(as []Atom) [][]Atom {
	var out [][]Atom
	cur := []Atom{}
	for _, a := range as {
		if a.K == "x" && a.S == "," {
			out = append(out, cur)
			cur = []Atom{}
		} else {
			cur = append(cur, a)
		}
	}
	return append(out, cur)
}

var borderStyles = map[string]bool{"none": true, "hidden": true, "dotted": true, "dashed": true, "solid": true, "double": true, "groove": true, "ridge": true, "inset": true, "outset": true}
var wideKeywords = map[string]bool{"inherit": true, "initial": true, "unset": true, "revert": true, "revert-layer": true}

func hasOpaque(as []Atom) bool {
	for _, a := range as {
		if a.K == "f" && (a.S == "var" || a.S == "env") {
			return true
		}
	}
	return false
}

func expand4(as []Atom) []Atom {
	switch len(as) {
	case 1:
		return []Atom{as[0], as[0], as[0], as[0]}
	case 2:
		return []Atom{as[0], as[1], as[0], as[1]}
	case 3:
		return []Atom{as[0], as[1], as[2], as[1]}
	}
	return as
}

func numAtom(s string) Atom   { return Atom{K: "n", S: numCanon(s)} }
func identAtom(s string) Atom { return Atom{K: "i", S: s} }
func pctAtom(s string) Atom   { return Atom{K: "p", S: numCanon(s) + "%"} }

var currentColor = identAtom("currentcolor")
var transparent = Atom{K: "c", RGBA: [4]float64{0, 0, 0, 0}}

func isLengthish(a Atom) bool { return a.K == "n" || a.K == "d" || a.K == "p" || a.K == "f" && mathFuncs[a.S] }

// borderLike: <width> || <style> || <color> with the given defaults.
func borderLike(as []Atom, defColor Atom) ([]Atom, bool) {
	if len(as) == 1 && isIdent(as[0], "inherit", "initial", "unset", "revert") || hasOpaque(as) {
		return as, false
	}
	width, style, color := identAtom("medium"), identAtom("none"), defColor
	seenW, seenS, seenC := false, false, false
	for _, a := range as {
		switch {
		case a.K == "i" && borderStyles[a.S] && !seenS:
			style, seenS = a, true
		case (isLengthish(a) || isIdent(a, "thin", "medium", "thick")) && !seenW:
			width, seenW = a, true
		case (a.K == "c" || isIdent(a, "currentcolor", "invert") || a.K == "f") && !seenC:
			color, seenC = a, true
		default:
			return as, false
		}
	}
	if isIdent(color, "invert") && isIdent(defColor, "invert") {
		color = defColor
	}
	return []Atom{width, style, color}, true
}

// position: canonical (x, y) for the 1-4 value syntax; ok=false if not understood.
func canonPosition(as []Atom) ([]Atom, bool) {
	type edge struct {
		kw  string // left right top bottom center ""
		off *Atom
	}
	isKW := func(a Atom) bool { return isIdent(a, "left", "right", "top", "bottom", "center") }
	isLP := func(a Atom) bool { return a.K == "n" || a.K == "d" || a.K == "p" || a.K == "f" && mathFuncs[a.S] }
	for _, a := range as {
		if !isKW(a) && !isLP(a) {
			return nil, false
		}
	}
	var x, y *edge
	switch len(as) {
	case 1:
		a := as[0]
		if isKW(a) {
			switch a.S {
			case "left", "right":
				x, y = &edge{kw: a.S}, &edge{kw: "center"}
			case "top", "bottom":
				x, y = &edge{kw: "center"}, &edge{kw: a.S}
			default:
				x, y = &edge{kw: "center"}, &edge{kw: "center"}
			}
		} else {
			x, y = &edge{off: &as[0]}, &edge{kw: "center"}
		}
	case 2:
		a, b := as[0], as[1]
		// keyword order may be swapped only if both are keywords (or the first is vertical)
		if isKW(a) && (a.S == "top" || a.S == "bottom") || isKW(b) && (b.S == "left" || b.S == "right") {
			if !(isKW(a) && isKW(b)) && !(isKW(a) && (a.S == "top" || a.S == "bottom") && isKW(b)) {
				// e.g. "top 10px" is invalid; "10px left" is invalid
				if !isKW(a) || !isKW(b) {
					return nil, false
				}
			}
			a, b = b, a
		}
		mk := func(v Atom) *edge {
			if isKW(v) {
				return &edge{kw: v.S}
			}
			vv := v
			return &edge{off: &vv}
		}
		x, y = mk(a), mk(b)
	case 3, 4:
		// [ center | [ left | right ] <lp>? ] && [ center | [ top | bottom ] <lp>? ]
		var groups []edge
		for i := 0; i < len(as); i++ {
			if !isKW(as[i]) {
				return nil, false
			}
			e := edge{kw: as[i].S}
			if i+1 < len(as) && isLP(as[i+1]) && as[i].S != "center" {
				v := as[i+1]
				e.off = &v
				i++
			}
			groups = append(groups, e)
		}
		if len(groups) != 2 {
			return nil, false
		}
		a, b := groups[0], groups[1]
		if a.kw == "top" || a.kw == "bottom" || b.kw == "left" || b.kw == "right" {
			a, b = b, a
		}
		x, y = &a, &b
	default:
		return nil, false
	}
	conv := func(e *edge, lo, hi string) (Atom, bool) {
		switch {
		case e.kw == "" && e.off != nil:
			return normZero(*e.off), true
		case e.kw == "center":
			return pctAtom("50"), true
		case e.kw == lo:
			if e.off == nil {
				return pctAtom("0"), true
			}
			return normZero(*e.off), true
		case e.kw == hi:
			if e.off == nil {
				return pctAtom("100"), true
			}
			if e.off.K == "p" {
				f, err := strconv.ParseFloat(strings.TrimSuffix(decStr(e.off.S), "%"), 64)
				if err == nil {
					return pctAtom(strconv.FormatFloat(100-f, 'f', -1, 64)), true
				}
			}
			if e.off.K == "n" && e.off.S == "0" {
				return pctAtom("100"), true
			}
			return Atom{K: "f", S: "from-" + hi, Args: []Atom{*e.off}}, true
		}
		return Atom{}, false
	}
	cx, ok1 := conv(x, "left", "right")
	cy, ok2 := conv(y, "top", "bottom")
	if !ok1 || !ok2 {
		return nil, false
	}
	return []Atom{cx, cy}, true
}

// decStr converts the canonical decnum string "0.5e2" style back to a plain decimal for arithmetic.
func decStr(s string) string {
	pct := strings.HasSuffix(s, "%")
	s = strings.TrimSuffix(s, "%")
	f, err := strconv.ParseFloat(s, 64)
	if err != nil {
		return s
	}
	r := strconv.FormatFloat(f, 'f', -1, 64)
	if pct {
		r += "%"
	}
	return r
}

// zero percentage == zero length in positions
func normZero(a Atom) Atom {
	if (a.K == "p" || a.K == "n" || a.K == "d") && (a.S == "0" || a.S == "0%") {
		return pctAtom("0")
	}
	if a.K == "d" && strings.HasPrefix(a.S, "0") && isZero(strings.TrimRight(a.S, "abcdefghijklmnopqrstuvwxyz%")) {
		return pctAtom("0")
	}
	return a
}

func canonFamilies(ts []Token) []Atom {
	// split the raw tokens at commas; each family is a string or a sequence of idents
	var out []Atom
	var cur []Token
	flush := func() {
		cur = trimTokens(cur)
		if len(cur) == 0 {
			return
		}
		if len(cur) == 1 && cur[0].T == String {
			out = append(out, Atom{K: "s", S: "family:" + strings.ToLower(strings.Join(strings.Fields(cur[0].Val), " "))})
		} else {
			var words []string
			for _, t := range cur {
				if t.T == Ident || t.T == String {
					words = append(words, t.Val)
				} else if t.T != Whitespace {
					words = append(words, t.Raw)
				}
			}
			name := strings.ToLower(strings.Join(words, " "))
			if genericFamilies[name] || wideKeywords[name] || name == "default" {
				out = append(out, Atom{K: "i", S: "generic:" + name})
			} else {
				out = append(out, Atom{K: "s", S: "family:" + name})
			}
		}
		cur = nil
	}
	for _, t := range ts {
		if t.T == Comma {
			flush()
			continue
		}
		cur = append(cur, t)
	}
	flush()
	return out
}

var genericFamilies = map[string]bool{"serif": true, "sans-serif": true, "monospace": true, "cursive": true, "fantasy": true, "system-ui": true, "ui-serif": true, "ui-sans-serif": true, "ui-monospace": true, "ui-rounded": true, "math": true, "emoji": true, "fangsong": true}

func unicodeRangeSet(as []Atom) (string, bool) {
	type rg struct{ lo, hi int }
	var rs []rg
	for _, a := range as {
		if a.K == "x" && a.S == "," {
			continue
		}
		if isIdent(a, "initial") {
			rs = append(rs, rg{0, 0x10FFFF})
			continue
		}
		if a.K != "r" {
			return "", false
		}
		s := strings.TrimPrefix(a.S, "U+")
		lo, hi := 0, 0
		if i := strings.IndexByte(s, '-'); i >= 0 {
			l, e1 := strconv.ParseInt(s[:i], 16, 32)
			h, e2 := strconv.ParseInt(s[i+1:], 16, 32)
			if e1 != nil || e2 != nil {
				return "", false
			}
			lo, hi = int(l), int(h)
		} else {
			l, e1 := strconv.ParseInt(strings.ReplaceAll(s, "?", "0"), 16, 32)
			h, e2 := strconv.ParseInt(strings.ReplaceAll(s, "?", "F"), 16, 32)
			if e1 != nil || e2 != nil {
				return "", false
			}
			lo, hi = int(l), int(h)
		}
		if hi < lo {
			hi = lo
		}
		rs = append(rs, rg{lo, hi})
	}
	sort.Slice(rs, func(i, j int) bool { return rs[i].lo < rs[j].lo })
	var merged []rg
	for _, r := range rs {
		if len(merged) > 0 && r.lo <= merged[len(merged)-1].hi+1 {
			if r.hi > merged[len(merged)-1].hi {
				merged[len(merged)-1].hi = r.hi
			}
			continue
		}
		merged = append(merged, r)
	}
	var sb strings.Builder
	for _, r := range merged {
		fmt.Fprintf(&sb, "%X-%X,", r.lo, r.hi)
	}
	return sb.String(), true
}
