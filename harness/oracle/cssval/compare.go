package cssval

import (
	"fmt"
	"strings"
)

var caseSensitiveProps = map[string]bool{"animation": true, "animation-name": true, "grid-area": true, "grid-template-areas": true, "grid-template": true, "grid": true, "grid-row": true, "grid-column": true, "grid-row-start": true, "grid-row-end": true, "grid-column-start": true, "grid-column-end": true, "counter-reset": true, "counter-increment": true, "counter-set": true, "content": true, "will-change": true, "transition": true, "transition-property": true, "list-style": true, "list-style-type": true, "view-transition-name": true, "container": true, "container-name": true, "src": true, "font-feature-settings": true, "quotes": true, "voice-family": true}

var box4Props = map[string]bool{"margin": true, "padding": true, "border-width": true, "border-style": true, "border-color": true, "inset": true, "scroll-margin": true, "scroll-padding": true}

// CanonDecl returns the canonical atoms of a declaration value.
func CanonDecl(d Decl, opts Options) []Atom {
	if d.Custom || d.Name == "\x00invalid" {
		// custom properties / invalid: token for token, modulo leading/trailing whitespace and comments
		var out []Atom
		for _, t := range d.Value {
			if t.T == Comment {
				continue
			}
			if t.T == Whitespace {
				if len(out) > 0 && out[len(out)-1].K != "w" {
					out = append(out, Atom{K: "w"})
				}
				continue
			}
			out = append(out, Atom{K: "x", S: t.Raw})
		}
		for len(out) > 0 && out[len(out)-1].K == "w" {
			out = out[:len(out)-1]
		}
		if !d.Custom {
			// an invalid declaration is passed through; whitespace next to its colon is not significant
			var o2 []Atom
			for i, a := range out {
				if a.K == "w" && (i > 0 && out[i-1].S == ":" || i+1 < len(out) && out[i+1].S == ":") {
					continue
				}
				o2 = append(o2, a)
			}
			out = o2
		}
		return out
	}
	name := d.Name
	if name == "filter" || name == "-ms-filter" {
		// legacy IE filters: the long alpha filter name equals the short one; everything else generic
		raw := Raw(d.Value)
		if i := strings.Index(strings.ToLower(raw), "progid:dximagetransform.microsoft.alpha(opacity="); i >= 0 {
			raw = raw[:i] + "alpha(opacity=" + raw[i+len("progid:dximagetransform.microsoft.alpha(opacity="):]
		}
		as := canonTokens(Tokenize(raw), ctx{prop: name})
		for i, a := range as {
			if a.K == "s" {
				as[i].S = strings.ToLower(a.S)
			}
		}
		return as
	}
	c := ctx{prop: name, caseSens: caseSensitiveProps[name], keepZeroUnit: name == "flex" || name == "flex-basis"}
	if name == "font-family" {
		return canonFamilies(d.Value)
	}
	as := canonTokens(d.Value, c)
	if hasOpaque(as) && name != "background" {
		return as
	}
	sole := func(names ...string) bool { return len(as) == 1 && isIdent(as[0], names...) }
	switch {
	case box4Props[name]:
		if len(as) >= 1 && len(as) <= 4 {
			ok := true
			for i, a := range as {
				if a.K == "x" {
					ok = false
				}
				if name == "border-color" && isIdent(a, "initial") && len(as) == 1 {
					as[i] = currentColor
				}
			}
			if ok && !(len(as) == 1 && wideKeywords[as[0].S] && as[0].K == "i") {
				return expand4(as)
			}
		}
	case name == "border" || name == "border-top" || name == "border-right" || name == "border-bottom" || name == "border-left" || name == "column-rule":
		if r, ok := borderLike(as, currentColor); ok {
			return r
		}
	case name == "outline":
		if r, ok := borderLike(as, identAtom("invert")); ok {
			return r
		}
	case name == "text-decoration" || name == "text-emphasis":
		if sole("inherit", "initial", "unset", "revert") {
			return as
		}
		// drop the components that equal their initial values; order-insensitive
		var rest []string
		var cols []Atom
		for _, a := range as {
			if isIdent(a, "none", "currentcolor") || name == "text-decoration" && isIdent(a, "solid") {
				continue
			}
			if a.K == "c" {
				cols = append(cols, a)
				continue
			}
			rest = append(rest, a.String())
		}
		sortStrings(rest)
		return append(cols, Atom{K: "x", S: strings.Join(rest, " ")})
	case name == "background-color":
		if sole("initial") && !opts.KeepCSS2Strict {
			return []Atom{transparent}
		}
	case name == "border-top-color" || name == "border-right-color" || name == "border-bottom-color" || name == "border-left-color" || name == "text-decoration-color" || name == "text-emphasis-color":
		if sole("initial") {
			return []Atom{currentColor}
		}
	case name == "font-weight":
		if sole("normal") {
			return []Atom{numAtom("400")}
		} else if sole("bold") {
			return []Atom{numAtom("700")}
		}
	case name == "flex-basis":
		if sole("initial") {
			return []Atom{identAtom("auto")}
		}
		if len(as) == 1 {
			return []Atom{zeroAny(as[0])}
		}
	case name == "order" || name == "flex-grow":
		if sole("initial") {
			return []Atom{numAtom("0")}
		}
	case name == "flex-shrink":
		if sole("initial") {
			return []Atom{numAtom("1")}
		}
	case name == "flex":
		if r, ok := canonFlex(as); ok {
			return r
		}
	case name == "background-position":
		var out []Atom
		for i, layer := range splitComma(as) {
			if i > 0 {
				out = append(out, Atom{K: "x", S: ","})
			}
			if p, ok := canonPosition(layer); ok {
				out = append(out, p...)
			} else {
				out = append(out, layer...)
			}
		}
		return out
	case name == "background-size":
		var out []Atom
		for i, layer := range splitComma(as) {
			if i > 0 {
				out = append(out, Atom{K: "x", S: ","})
			}
			if len(layer) == 1 && !isIdent(layer[0], "cover", "contain") && !(layer[0].K == "i" && wideKeywords[layer[0].S]) {
				layer = []Atom{layer[0], identAtom("auto")}
			}
			out = append(out, layer...)
		}
		return out
	case name == "background-repeat":
		var out []Atom
		for i, layer := range splitComma(as) {
			if i > 0 {
				out = append(out, Atom{K: "x", S: ","})
			}
			out = append(out, canonRepeat(layer)...)
		}
		return out
	case name == "background":
		var out []Atom
		for i, layer := range splitComma(as) {
			if i > 0 {
				out = append(out, Atom{K: "x", S: ","})
			}
			out = append(out, canonBackgroundLayer(layer)...)
		}
		return out
	case name == "box-shadow" || name == "text-shadow":
		if sole("initial") && name == "box-shadow" {
			return []Atom{identAtom("none")}
		}
		var out []Atom
		for i, layer := range splitComma(as) {
			if i > 0 {
				out = append(out, Atom{K: "x", S: ","})
			}
			out = append(out, canonShadow(layer, name == "box-shadow")...)
		}
		return out
	case name == "unicode-range":
		if s, ok := unicodeRangeSet(as); ok {
			return []Atom{{K: "x", S: s}}
		}
	case name == "font":
		return canonFont(d.Value, as)
	case name == "-ms-filter" || name == "filter":
		for i, a := range as {
			if a.K == "s" {
				as[i].S = strings.Replace(strings.ToLower(a.S), "progid:dximagetransform.microsoft.alpha(opacity=", "alpha(opacity=", 1)
			}
		}
	}
	return as
}

func sortStrings(s []string) {
	for i := 1; i < len(s); i++ {
		for j := i; j > 0 && s[j] < s[j-1]; j-- {
			s[j], s[j-1] = s[j-1], s[j]
		}
	}
}

func zeroAny(a Atom) Atom {
	if a.K == "d" || a.K == "p" || a.K == "n" {
		num := strings.TrimRight(a.S, "abcdefghijklmnopqrstuvwxyz%")
		if num == "0" {
			return numAtom("0")
		}
	}
	return a
}

func canonFlex(as []Atom) ([]Atom, bool) {
	auto := identAtom("auto")
	one, zero := numAtom("1"), numAtom("0")
	switch len(as) {
	case 1:
		a := as[0]
		switch {
		case isIdent(a, "none"):
			return []Atom{zero, zero, auto}, true
		case isIdent(a, "auto"):
			return []Atom{one, one, auto}, true
		case isIdent(a, "initial"):
			return []Atom{zero, one, auto}, true
		case a.K == "n":
			return []Atom{a, one, zero}, true
		case a.K == "d" || a.K == "p" || isIdent(a, "content", "max-content", "min-content", "fit-content"):
			return []Atom{one, one, zeroAny(a)}, true
		}
	case 2:
		if as[0].K == "n" && as[1].K == "n" {
			return []Atom{as[0], as[1], zero}, true
		}
		if as[0].K == "n" {
			return []Atom{as[0], one, zeroAny(as[1])}, true
		}
	case 3:
		if as[0].K == "n" && as[1].K == "n" {
			return []Atom{as[0], as[1], zeroAny(as[2])}, true
		}
	}
	return nil, false
}

func canonRepeat(layer []Atom) []Atom {
	rep, no := identAtom("repeat"), identAtom("no-repeat")
	if len(layer) == 1 {
		switch {
		case isIdent(layer[0], "repeat-x"):
			return []Atom{rep, no}
		case isIdent(layer[0], "repeat-y"):
			return []Atom{no, rep}
		case isIdent(layer[0], "repeat", "space", "round", "no-repeat"):
			return []Atom{layer[0], layer[0]}
		}
	}
	return layer
}

func canonShadow(layer []Atom, box bool) []Atom {
	var lens, rest []Atom
	for _, a := range layer {
		if a.K == "n" || a.K == "d" || a.K == "f" && mathFuncs[a.S] {
			lens = append(lens, zeroAny(a))
		} else {
			rest = append(rest, a)
		}
	}
	if len(lens) < 2 || len(lens) > 4 {
		return layer
	}
	for len(lens) < 4 {
		lens = append(lens, numAtom("0"))
	}
	var rs []string
	for _, r := range rest {
		rs = append(rs, r.String())
	}
	sortStrings(rs)
	out := append([]Atom{}, lens...)
	// colours compared with tolerance: keep colour atoms as atoms, others as sorted text
	for _, r := range rest {
		if r.K == "c" {
			out = append(out, r)
		}
	}
	var others []string
	for _, r := range rest {
		if r.K != "c" {
			others = append(others, r.String())
		}
	}
	sortStrings(others)
	return append(out, Atom{K: "x", S: strings.Join(others, " ")})
}

var boxKW = map[string]bool{"border-box": true, "padding-box": true, "content-box": true}
var repeatKW = map[string]bool{"repeat": true, "repeat-x": true, "repeat-y": true, "no-repeat": true, "space": true, "round": true}
var attachKW = map[string]bool{"scroll": true, "fixed": true, "local": true}

// canonBackgroundLayer expands one background layer to
// color image repeat(2) attachment position(2) size(2) origin clip.
func canonBackgroundLayer(layer []Atom) []Atom {
	if len(layer) == 1 && layer[0].K == "i" && wideKeywords[layer[0].S] || hasOpaque(layer) {
		return layer
	}
	color, image := transparent, identAtom("none")
	repeat := []Atom{identAtom("repeat"), identAtom("repeat")}
	attach := identAtom("scroll")
	var pos, size, boxes, repeats []Atom
	seenColor, seenImage := false, false
	inSize := false
	for _, a := range layer {
		switch {
		case a.K == "x" && a.S == "/":
			inSize = true
		case inSize && (isLengthish(a) || isIdent(a, "auto", "cover", "contain")):
			size = append(size, a)
		case isLengthish(a) || isIdent(a, "left", "right", "top", "bottom", "center"):
			inSize = false
			pos = append(pos, a)
		case a.K == "i" && repeatKW[a.S]:
			inSize = false
			repeats = append(repeats, a)
		case a.K == "i" && attachKW[a.S]:
			inSize = false
			attach = a
		case a.K == "i" && boxKW[a.S]:
			inSize = false
			boxes = append(boxes, a)
		case isIdent(a, "none") && !seenImage:
			inSize = false
			seenImage = true
		case (a.K == "u" || a.K == "f") && !seenImage:
			inSize = false
			image, seenImage = a, true
		case (a.K == "c" || isIdent(a, "currentcolor")) && !seenColor:
			inSize = false
			color, seenColor = a, true
		default:
			return layer // not understood: compare as is
		}
	}
	switch len(repeats) {
	case 1:
		repeat = canonRepeat(repeats)
	case 2:
		repeat = repeats
	case 0:
	default:
		return layer
	}
	p := []Atom{pctAtom("0"), pctAtom("0")}
	if len(pos) > 0 {
		cp, ok := canonPosition(pos)
		if !ok {
			return layer
		}
		p = cp
	}
	sz := []Atom{identAtom("auto"), identAtom("auto")}
	switch len(size) {
	case 1:
		if isIdent(size[0], "cover", "contain") {
			sz = []Atom{size[0], size[0]}
		} else {
			sz = []Atom{zeroAny(size[0]), identAtom("auto")}
		}
	case 2:
		sz = []Atom{zeroAny(size[0]), zeroAny(size[1])}
	case 0:
	default:
		return layer
	}
	origin, clip := identAtom("padding-box"), identAtom("border-box")
	switch len(boxes) {
	case 1:
		origin, clip = boxes[0], boxes[0]
	case 2:
		origin, clip = boxes[0], boxes[1]
	case 0:
	default:
		return layer
	}
	out := []Atom{color, image}
	out = append(out, repeat...)
	out = append(out, attach)
	out = append(out, p...)
	out = append(out, sz...)
	return append(out, origin, clip)
}

// canonFont: [style variant weight stretch]* size[/line-height] family-list.
func canonFont(raw []Token, as []Atom) []Atom {
	if len(as) == 1 && as[0].K == "i" {
		return as // system fonts / wide keywords
	}
	// find where the family starts: after the size (first length/percentage/size keyword) and optional /line-height
	sizeKW := map[string]bool{"xx-small": true, "x-small": true, "small": true, "medium": true, "large": true, "x-large": true, "xx-large": true, "xxx-large": true, "smaller": true, "larger": true}
	// work on raw tokens so that family names keep their spelling
	toks := trimTokens(raw)
	i := 0
	var pre []Atom
	sizeFound := false
	for i < len(toks) {
		t := toks[i]
		if t.T == Whitespace {
			i++
			continue
		}
		if t.T == Dimension || t.T == Percentage || t.T == Ident && sizeKW[strings.ToLower(t.Val)] || t.T == Number && isZero(t.Val) || t.T == Function && mathFuncs[strings.ToLower(t.Val)] {
			// but a plain number 100..900 is a weight; zero/dimension/percentage is the size
			sizeFound = true
			break
		}
		a := canonTokens([]Token{t}, ctx{prop: "font"})
		if len(a) == 1 {
			switch {
			case isIdent(a[0], "normal"):
				// initial value of every optional component
			case isIdent(a[0], "bold"):
				pre = append(pre, numAtom("700"))
			case a[0].K == "n" && a[0].S == numCanon("400"):
			default:
				pre = append(pre, a[0])
			}
		}
		i++
	}
	if !sizeFound {
		return as
	}
	// size
	j := i
	depth := 0
	for j < len(toks) {
		if toks[j].T == Function {
			depth++
		} else if toks[j].T == RParen {
			depth--
		}
		j++
		if depth == 0 {
			break
		}
	}
	size := canonTokens(toks[i:j], ctx{prop: "font"})
	// optional / line-height
	k := j
	for k < len(toks) && toks[k].T == Whitespace {
		k++
	}
	var lh []Atom
	if k < len(toks) && toks[k].T == Delim && toks[k].Raw == "/" {
		k++
		for k < len(toks) && toks[k].T == Whitespace {
			k++
		}
		e := k + 1
		lh = canonTokens(toks[k:min(e, len(toks))], ctx{prop: "font"})
		if len(lh) == 1 && isIdent(lh[0], "normal") {
			lh = nil
		}
		k = e
	}
	var preS []string
	for _, p := range pre {
		preS = append(preS, p.String())
	}
	sortStrings(preS)
	out := []Atom{{K: "x", S: strings.Join(preS, " ")}}
	out = append(out, size...)
	out = append(out, Atom{K: "x", S: "/"})
	out = append(out, lh...)
	out = append(out, Atom{K: "x", S: "|"})
	return append(out, canonFamilies(toks[k:])...)
}

// ---------------------------------------------------------------------------
// structure

type Options struct {
	Inline         bool
	KeepCSS2Strict bool
}

// preludeCanon: whitespace/comment normalised prelude; selectors lowercase type
// selectors, attribute names and pseudo names; at-rule preludes lowercase
// keywords outside strings.
func preludeCanon(r Rule) string {
	var sb strings.Builder
	ts := r.Prelude
	inAttr := 0
	prevSig := Token{T: Whitespace}
	pendingWS := false
	for i := 0; i < len(ts); i++ {
		t := ts[i]
		if t.T == Comment {
			continue
		}
		if t.T == Whitespace {
			pendingWS = true
			continue
		}
		// whitespace is significant only between two tokens that are both "word-like" (descendant combinator / media query words)
		if pendingWS && sb.Len() > 0 {
			if wordLike(prevSig) && prevSig.T != Colon && prevSig.T != LBracket && wordLike(t) && !(t.T == Colon && r.At != "") && prevSig.T != Function && t.T != RParen {
				sb.WriteByte(' ')
			}
		}
		pendingWS = false
		switch t.T {
		case LBracket:
			inAttr++
			sb.WriteString("[")
		case RBracket:
			if inAttr > 0 {
				inAttr--
			}
			sb.WriteString("]")
		case Ident:
			switch {
			case r.At != "":
				if r.At == "keyframes" || strings.HasSuffix(r.At, "keyframes") || r.At == "font-feature-values" || r.At == "counter-style" || r.At == "layer" || r.At == "container" || r.At == "property" || r.At == "namespace" || r.At == "page" {
					sb.WriteString(t.Val)
				} else {
					sb.WriteString(strings.ToLower(t.Val))
				}
			case inAttr > 0:
				// attribute name case-insensitive in HTML; value identifiers are case-sensitive
				if prevSig.T == LBracket || prevSig.T == Delim && prevSig.Raw == "|" {
					sb.WriteString(strings.ToLower(t.Val))
				} else if len(t.Val) == 1 && (t.Val == "i" || t.Val == "I" || t.Val == "s" || t.Val == "S") && (prevSig.T == String || prevSig.T == Ident) {
					sb.WriteString(" " + strings.ToLower(t.Val))
				} else {
					sb.WriteString("\"" + t.Val + "\"")
				}
			case prevSig.T == Delim && prevSig.Raw == ".":
				sb.WriteString(t.Val) // class: case-sensitive
			default:
				sb.WriteString(strings.ToLower(t.Val))
			}
		case String:
			sb.WriteString("\"" + t.Val + "\"")
		case Hash:
			sb.WriteString("#" + t.Val)
		case Function:
			sb.WriteString(strings.ToLower(t.Val) + "(")
		case URL:
			sb.WriteString("url(" + strings.TrimSpace(t.Val) + ")")
		case Number:
			if strings.HasPrefix(t.Val, "+") {
				sb.WriteString("+") // An+B: "2n+1" lexes as dimension and signed number, "2n + 1" as dimension, delim, number
			}
			sb.WriteString(numCanon(t.Val))
		case Percentage:
			sb.WriteString(numCanon(t.Val) + "%")
		case Dimension:
			sb.WriteString(numCanon(t.Val) + strings.ToLower(t.Unit))
		default:
			sb.WriteString(t.Raw)
		}
		prevSig = t
	}
	return sb.String()
}

func wordLike(t Token) bool {
	switch t.T {
	case Ident, Hash, Number, Percentage, Dimension, String, Function, RParen, RBracket, URL:
		return true
	case Delim:
		return t.Raw == "*" || t.Raw == "." || t.Raw == "&"
	case LBracket, Colon:
		return true
	}
	return false
}

// Compare checks that out preserves the cascade input of in.
func Compare(in, out string, opts Options) error {
	var a, b []Item
	if opts.Inline {
		a, b = ParseInline(in), ParseInline(out)
	} else {
		a, b = ParseStylesheet(in), ParseStylesheet(out)
	}
	return compareItems(a, b, opts, "")
}

func compareItems(a, b []Item, opts Options, where string) error {
	a, b = dropEmpty(a), dropEmpty(b)
	if len(a) != len(b) {
		return fmt.Errorf("%s: %d items became %d (%s | %s)", whereOr(where), len(a), len(b), describe(a), describe(b))
	}
	for i := range a {
		x, y := a[i], b[i]
		if (x.Decl == nil) != (y.Decl == nil) {
			return fmt.Errorf("%s: item %d changed kind", whereOr(where), i)
		}
		if x.Decl != nil {
			if x.Decl.Name != y.Decl.Name {
				return fmt.Errorf("%s: declaration %q became %q", whereOr(where), x.Decl.Name, y.Decl.Name)
			}
			if x.Decl.Important != y.Decl.Important {
				return fmt.Errorf("%s: !important of %q changed", whereOr(where), x.Decl.Name)
			}
			ca, cb := CanonDecl(*x.Decl, opts), CanonDecl(*y.Decl, opts)
			if !atomsEq(ca, cb) {
				return fmt.Errorf("%s: value of %s changed meaning: %q -> %q\n   canonical: %s\n          vs: %s", whereOr(where), x.Decl.Name, Raw(x.Decl.Value), Raw(y.Decl.Value), AtomsString(ca), AtomsString(cb))
			}
			continue
		}
		if x.Rule.At != y.Rule.At {
			return fmt.Errorf("%s: rule %d: @%s became @%s", whereOr(where), i, x.Rule.At, y.Rule.At)
		}
		pa, pb := preludeCanon(*x.Rule), preludeCanon(*y.Rule)
		if x.Rule.At == "import" {
			pa, pb = strings.Replace(pa, "url(", "\"", 1), strings.Replace(pb, "url(", "\"", 1)
			pa, pb = strings.Replace(pa, ")", "\"", 1), strings.Replace(pb, ")", "\"", 1)
			pa, pb = strings.ReplaceAll(pa, "\"\"", "\""), strings.ReplaceAll(pb, "\"\"", "\"")
		}
		if pa != pb {
			return fmt.Errorf("%s: prelude changed: %q -> %q (canonical %q vs %q)", whereOr(where), Raw(x.Rule.Prelude), Raw(y.Rule.Prelude), pa, pb)
		}
		if x.Rule.HasBlock != y.Rule.HasBlock {
			return fmt.Errorf("%s: %s: block appeared/disappeared", whereOr(where), x.Rule.String())
		}
		if err := compareItems(x.Rule.Items, y.Rule.Items, opts, strings.TrimSpace(where+" "+x.Rule.String())); err != nil {
			return err
		}
	}
	return nil
}

func whereOr(w string) string {
	if w == "" {
		return "top level"
	}
	return w
}

// the minifier does not drop empty rules; nothing is dropped here either, except
// opaque pseudo-declarations that are empty
func dropEmpty(items []Item) []Item {
	var out []Item
	for _, it := range items {
		if it.Decl != nil && it.Decl.Name == "\x00invalid" && len(it.Decl.Value) == 0 {
			continue
		}
		out = append(out, it)
	}
	return out
}

func describe(items []Item) string {
	var parts []string
	for _, it := range items {
		if it.Decl != nil {
			parts = append(parts, it.Decl.Name)
		} else {
			parts = append(parts, it.Rule.String())
		}
	}
	s := strings.Join(parts, "; ")
	if len(s) > 300 {
		s = s[:300] + "..."
	}
	return s
}
