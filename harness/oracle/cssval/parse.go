package cssval

import (
	"fmt"
	"strings"
)

type Decl struct {
	Name      string // lowercased unless custom property
	Value     []Token
	Important bool
	Custom    bool
}

type Item struct {
	Decl *Decl
	Rule *Rule
}

type Rule struct {
	At      string  // lowercased at-keyword name, "" for a qualified rule
	Prelude []Token // without leading/trailing whitespace and comments
	Items   []Item  // block contents; nil and HasBlock=false for ";"-terminated at-rules
	HasBlock bool
}

var ruleListAt = map[string]bool{"media": true, "supports": true, "document": true, "-moz-document": true, "layer": true, "container": true, "keyframes": true, "-webkit-keyframes": true, "-moz-keyframes": true, "-o-keyframes": true, "scope": true, "starting-style": true}

type parser struct {
	t []Token
	i int
}

func (p *parser) eof() bool { return p.i >= len(p.t) }

func trimTokens(ts []Token) []Token {
	var out []Token
	for _, t := range ts {
		if t.T == Comment {
			continue
		}
		out = append(out, t)
	}
	for len(out) > 0 && out[0].T == Whitespace {
		out = out[1:]
	}
	for len(out) > 0 && out[len(out)-1].T == Whitespace {
		out = out[:len(out)-1]
	}
	return out
}

// consume tokens until a top-level stop token; nested blocks are balanced
func (p *parser) until(stop func(Token) bool) []Token {
	var out []Token
	depth := 0
	for !p.eof() {
		t := p.t[p.i]
		if depth == 0 && stop(t) {
			break
		}
		switch t.T {
		case LParen, LBracket, LBrace, Function:
			depth++
		case RParen, RBracket, RBrace:
			if depth > 0 {
				depth--
			}
		}
		out = append(out, t)
		p.i++
	}
	return out
}

func (p *parser) skipWS() {
	for !p.eof() && (p.t[p.i].T == Whitespace || p.t[p.i].T == Comment) {
		p.i++
	}
}

func (p *parser) atRule() Rule {
	r := Rule{At: strings.ToLower(p.t[p.i].Val)}
	p.i++
	r.Prelude = trimTokens(p.until(func(t Token) bool { return t.T == Semicolon || t.T == LBrace || t.T == RBrace }))
	if p.eof() || p.t[p.i].T == RBrace {
		return r
	}
	if p.t[p.i].T == Semicolon {
		p.i++
		return r
	}
	p.i++ // {
	r.HasBlock = true
	if ruleListAt[r.At] {
		r.Items = p.ruleList(true)
	} else {
		r.Items = p.declList()
	}
	return r
}

func (p *parser) ruleList(nested bool) []Item {
	var items []Item
	for {
		p.skipWS()
		if p.eof() {
			return items
		}
		t := p.t[p.i]
		switch {
		case t.T == RBrace:
			p.i++
			if nested {
				return items
			}
		case t.T == CDO || t.T == CDC || t.T == Semicolon && nested:
			// a semicolon at the top level is part of the prelude of a qualified rule (and makes it invalid)
			p.i++
		case t.T == AtKeyword:
			r := p.atRule()
			items = append(items, Item{Rule: &r})
		default:
			r := Rule{}
			r.Prelude = trimTokens(p.until(func(t Token) bool { return t.T == LBrace || nested && t.T == RBrace }))
			if p.eof() {
				return items // parse error: rule without block is dropped
			}
			if p.t[p.i].T == RBrace {
				continue
			}
			p.i++
			r.HasBlock = true
			r.Items = p.declList()
			items = append(items, Item{Rule: &r})
		}
	}
}

func (p *parser) declList() []Item {
	var items []Item
	for {
		p.skipWS()
		if p.eof() {
			return items
		}
		t := p.t[p.i]
		switch {
		case t.T == RBrace:
			p.i++
			return items
		case t.T == Semicolon:
			p.i++
		case t.T == AtKeyword:
			r := p.atRule()
			items = append(items, Item{Rule: &r})
		default:
			ts := p.until(func(t Token) bool { return t.T == Semicolon || t.T == RBrace })
			if d, ok := parseDecl(ts); ok {
				items = append(items, Item{Decl: &d})
			} else {
				// not a declaration: keep as an opaque pseudo-declaration so that pass-through can be compared
				items = append(items, Item{Decl: &Decl{Name: "\x00invalid", Value: trimTokens(ts)}})
			}
		}
	}
}

func parseDecl(ts []Token) (Decl, bool) {
	ts = trimTokens(ts)
	if len(ts) == 0 || ts[0].T != Ident {
		return Decl{}, false
	}
	i := 1
	for i < len(ts) && ts[i].T == Whitespace {
		i++
	}
	if i >= len(ts) || ts[i].T != Colon {
		return Decl{}, false
	}
	d := Decl{Name: ts[0].Val}
	d.Custom = strings.HasPrefix(d.Name, "--")
	if !d.Custom {
		d.Name = strings.ToLower(d.Name)
	}
	val := trimTokens(ts[i+1:])
	// !important
	n := len(val)
	j := n - 1
	if j >= 0 && val[j].T == Ident && strings.EqualFold(val[j].Val, "important") {
		k := j - 1
		for k >= 0 && val[k].T == Whitespace {
			k--
		}
		if k >= 0 && val[k].T == Delim && val[k].Raw == "!" {
			d.Important = true
			val = trimTokens(val[:k])
		}
	}
	d.Value = val
	return d, true
}

// ParseStylesheet parses a whole stylesheet.
func ParseStylesheet(s string) []Item {
	p := &parser{t: Tokenize(s)}
	return p.ruleList(false)
}

// ParseInline parses a declaration list (style attribute).
func ParseInline(s string) []Item {
	p := &parser{t: Tokenize(s)}
	return p.declList()
}

// BadTokens reports bad-string / bad-url tokens and whether all brackets nest properly (for C09):
// every closer matches the innermost open bracket and nothing is left open at the end.
func BadTokens(s string) (bad int, balanced bool) {
	var stack []TT
	balanced = true
	for _, t := range Tokenize(s) {
		switch t.T {
		case BadString, BadURL:
			bad++
		case URL, String:
			if t.EOF {
				balanced = false // ended by the end of the input: a parse error as well
				bad++
			}
		case LParen, Function:
			stack = append(stack, RParen)
		case LBracket:
			stack = append(stack, RBracket)
		case LBrace:
			stack = append(stack, RBrace)
		case RParen, RBracket, RBrace:
			if len(stack) == 0 || stack[len(stack)-1] != t.T {
				balanced = false
			} else {
				stack = stack[:len(stack)-1]
			}
		}
	}
	if len(stack) != 0 {
		balanced = false
	}
	return
}

func (r Rule) String() string {
	if r.At != "" {
		return "@" + r.At + " " + Raw(r.Prelude)
	}
	return Raw(r.Prelude)
}

func Raw(ts []Token) string {
	var sb strings.Builder
	for _, t := range ts {
		sb.WriteString(t.Raw)
	}
	return sb.String()
}

var _ = fmt.Sprint
