// Package cssval is an own CSS Syntax Level 3 tokenizer, a rule/declaration
// parser and a value interpreter used to compare a stylesheet with its minified
// form by meaning. Nothing is shared with tdewolff/parse.
package cssval

import (
	"strings"
	"unicode/utf8"
)

type TT int

const (
	Ident TT = iota
	Function // name without "("
	AtKeyword
	Hash
	String
	BadString
	URL
	BadURL
	Delim
	Number
	Percentage
	Dimension
	Whitespace
	CDO
	CDC
	Colon
	Semicolon
	Comma
	LBracket
	RBracket
	LParen
	RParen
	LBrace
	RBrace
	Comment
	UnicodeRange
)

type Token struct {
	T    TT
	Raw  string
	Val  string // decoded ident / string / url value, number lexeme, function name
	Unit string // dimension unit (decoded)
	EOF  bool   // string or url token ended by the end of the input (a parse error)
}

func isNameStart(c byte) bool {
	return c >= 'a' && c <= 'z' || c >= 'A' && c <= 'Z' || c == '_' || c >= 0x80
}
func isName(c byte) bool { return isNameStart(c) || c >= '0' && c <= '9' || c == '-' }
func isDigit(c byte) bool { return c >= '0' && c <= '9' }
func isHexD(c byte) bool {
	return isDigit(c) || c >= 'a' && c <= 'f' || c >= 'A' && c <= 'F'
}
func isWS(c byte) bool { return c == ' ' || c == '\t' || c == '\n' || c == '\r' || c == '\f' }

type lexer struct {
	s string
	i int
}

func (l *lexer) peek(k int) byte {
	if l.i+k < len(l.s) {
		return l.s[l.i+k]
	}
	return 0
}

func validEscape(a, b byte) bool { return a == '\\' && b != '\n' && b != '\r' && b != '\f' && b != 0 }

func (l *lexer) startsIdent() bool {
	c := l.peek(0)
	if c == '-' {
		return isNameStart(l.peek(1)) || l.peek(1) == '-' || validEscape(l.peek(1), l.peek(2))
	}
	if isNameStart(c) {
		return true
	}
	return validEscape(c, l.peek(1))
}

func (l *lexer) startsNumber() bool {
	c := l.peek(0)
	if c == '+' || c == '-' {
		if isDigit(l.peek(1)) {
			return true
		}
		return l.peek(1) == '.' && isDigit(l.peek(2))
	}
	if c == '.' {
		return isDigit(l.peek(1))
	}
	return isDigit(c)
}

func (l *lexer) escape() string {
	// l.i is after the backslash
	if l.i >= len(l.s) {
		return "�"
	}
	c := l.s[l.i]
	if isHexD(c) {
		n := 0
		v := 0
		for n < 6 && l.i < len(l.s) && isHexD(l.s[l.i]) {
			d := l.s[l.i]
			switch {
			case d <= '9':
				v = v*16 + int(d-'0')
			case d <= 'F':
				v = v*16 + int(d-'A') + 10
			default:
				v = v*16 + int(d-'a') + 10
			}
			l.i++
			n++
		}
		if l.i < len(l.s) && isWS(l.s[l.i]) {
			if l.s[l.i] == '\r' && l.i+1 < len(l.s) && l.s[l.i+1] == '\n' {
				l.i++
			}
			l.i++
		}
		if v == 0 || v > 0x10FFFF || v >= 0xD800 && v <= 0xDFFF {
			return "�"
		}
		return string(rune(v))
	}
	r, sz := utf8.DecodeRuneInString(l.s[l.i:])
	l.i += sz
	return string(r)
}

func (l *lexer) name() string {
	var sb strings.Builder
	for l.i < len(l.s) {
		c := l.s[l.i]
		if isName(c) {
			sb.WriteByte(c)
			l.i++
		} else if validEscape(c, l.peek(1)) {
			l.i++
			sb.WriteString(l.escape())
		} else {
			break
		}
	}
	return sb.String()
}

func (l *lexer) number() string {
	start := l.i
	if c := l.peek(0); c == '+' || c == '-' {
		l.i++
	}
	for isDigit(l.peek(0)) {
		l.i++
	}
	if l.peek(0) == '.' && isDigit(l.peek(1)) {
		l.i++
		for isDigit(l.peek(0)) {
			l.i++
		}
	}
	if c := l.peek(0); c == 'e' || c == 'E' {
		if isDigit(l.peek(1)) || (l.peek(1) == '+' || l.peek(1) == '-') && isDigit(l.peek(2)) {
			l.i += 2
			for isDigit(l.peek(0)) {
				l.i++
			}
		}
	}
	return l.s[start:l.i]
}

func (l *lexer) str(q byte) Token {
	start := l.i
	l.i++
	var sb strings.Builder
	for l.i < len(l.s) {
		c := l.s[l.i]
		switch {
		case c == q:
			l.i++
			return Token{T: String, Raw: l.s[start:l.i], Val: sb.String()}
		case c == '\n' || c == '\r' || c == '\f':
			return Token{T: BadString, Raw: l.s[start:l.i]}
		case c == '\\':
			if l.i+1 >= len(l.s) {
				l.i++
				continue
			}
			n := l.s[l.i+1]
			if n == '\n' || n == '\f' {
				l.i += 2
			} else if n == '\r' {
				l.i += 2
				if l.peek(0) == '\n' {
					l.i++
				}
			} else {
				l.i++
				sb.WriteString(l.escape())
			}
		default:
			sb.WriteByte(c)
			l.i++
		}
	}
	return Token{T: String, Raw: l.s[start:l.i], Val: sb.String(), EOF: true} // unterminated at EOF: parse error but a string
}

func (l *lexer) url(start int) Token {
	// after "url(", unquoted form
	for isWS(l.peek(0)) {
		l.i++
	}
	var sb strings.Builder
	for l.i < len(l.s) {
		c := l.s[l.i]
		switch {
		case c == ')':
			l.i++
			return Token{T: URL, Raw: l.s[start:l.i], Val: sb.String()}
		case isWS(c):
			for isWS(l.peek(0)) {
				l.i++
			}
			if l.peek(0) == ')' || l.i >= len(l.s) {
				eof := l.i >= len(l.s)
				if l.i < len(l.s) {
					l.i++
				}
				return Token{T: URL, Raw: l.s[start:l.i], Val: sb.String(), EOF: eof}
			}
			return l.badURL(start)
		case c == '"' || c == '\'' || c == '(' || c < 0x20 && c != '\t' || c == 0x7f:
			return l.badURL(start)
		case c == '\\':
			if validEscape(c, l.peek(1)) {
				l.i++
				sb.WriteString(l.escape())
			} else {
				return l.badURL(start)
			}
		default:
			sb.WriteByte(c)
			l.i++
		}
	}
	return Token{T: URL, Raw: l.s[start:l.i], Val: sb.String(), EOF: true}
}

func (l *lexer) badURL(start int) Token {
	for l.i < len(l.s) {
		c := l.s[l.i]
		if c == ')' {
			l.i++
			break
		}
		if validEscape(c, l.peek(1)) {
			l.i++
			l.escape()
			continue
		}
		l.i++
	}
	return Token{T: BadURL, Raw: l.s[start:l.i]}
}

// Tokenize implements CSS Syntax Level 3 section 4 (comments are kept as tokens).
func Tokenize(s string) []Token {
	l := &lexer{s: s}
	var out []Token
	emit := func(t Token) { out = append(out, t) }
	for l.i < len(l.s) {
		c := l.s[l.i]
		start := l.i
		switch {
		case c == '/' && l.peek(1) == '*':
			j := strings.Index(l.s[l.i+2:], "*/")
			if j < 0 {
				l.i = len(l.s)
			} else {
				l.i += 2 + j + 2
			}
			emit(Token{T: Comment, Raw: l.s[start:l.i]})
		case isWS(c):
			for isWS(l.peek(0)) {
				l.i++
			}
			emit(Token{T: Whitespace, Raw: l.s[start:l.i]})
		case c == '"' || c == '\'':
			emit(l.str(c))
		case c == '#':
			if isName(l.peek(1)) || validEscape(l.peek(1), l.peek(2)) {
				l.i++
				n := l.name()
				emit(Token{T: Hash, Raw: l.s[start:l.i], Val: n})
			} else {
				l.i++
				emit(Token{T: Delim, Raw: "#"})
			}
		case c == '(':
			l.i++
			emit(Token{T: LParen, Raw: "("})
		case c == ')':
			l.i++
			emit(Token{T: RParen, Raw: ")"})
		case c == '[':
			l.i++
			emit(Token{T: LBracket, Raw: "["})
		case c == ']':
			l.i++
			emit(Token{T: RBracket, Raw: "]"})
		case c == '{':
			l.i++
			emit(Token{T: LBrace, Raw: "{"})
		case c == '}':
			l.i++
			emit(Token{T: RBrace, Raw: "}"})
		case c == ',':
			l.i++
			emit(Token{T: Comma, Raw: ","})
		case c == ':':
			l.i++
			emit(Token{T: Colon, Raw: ":"})
		case c == ';':
			l.i++
			emit(Token{T: Semicolon, Raw: ";"})
		case c == '<' && strings.HasPrefix(l.s[l.i:], "<!--"):
			l.i += 4
			emit(Token{T: CDO, Raw: "<!--"})
		case c == '-' && strings.HasPrefix(l.s[l.i:], "-->") && !l.startsNumber():
			l.i += 3
			emit(Token{T: CDC, Raw: "-->"})
		case c == '@':
			l.i++
			if l.startsIdent() {
				n := l.name()
				emit(Token{T: AtKeyword, Raw: l.s[start:l.i], Val: n})
			} else {
				emit(Token{T: Delim, Raw: "@"})
			}
		case l.startsNumber():
			n := l.number()
			if l.startsIdent() {
				u := l.name()
				emit(Token{T: Dimension, Raw: l.s[start:l.i], Val: n, Unit: u})
			} else if l.peek(0) == '%' {
				l.i++
				emit(Token{T: Percentage, Raw: l.s[start:l.i], Val: n})
			} else {
				emit(Token{T: Number, Raw: l.s[start:l.i], Val: n})
			}
		case (c == 'u' || c == 'U') && l.peek(1) == '+' && (isHexD(l.peek(2)) || l.peek(2) == '?'):
			l.i += 2
			for isHexD(l.peek(0)) || l.peek(0) == '?' {
				l.i++
			}
			if l.peek(0) == '-' && isHexD(l.peek(1)) {
				l.i++
				for isHexD(l.peek(0)) {
					l.i++
				}
			}
			emit(Token{T: UnicodeRange, Raw: l.s[start:l.i]})
		case l.startsIdent():
			n := l.name()
			if l.peek(0) == '(' {
				l.i++
				if strings.EqualFold(n, "url") {
					j := l.i
					for j < len(l.s) && isWS(l.s[j]) {
						j++
					}
					if j < len(l.s) && (l.s[j] == '"' || l.s[j] == '\'') {
						emit(Token{T: Function, Raw: l.s[start:l.i], Val: n})
					} else {
						emit(l.url(start))
					}
				} else {
					emit(Token{T: Function, Raw: l.s[start:l.i], Val: n})
				}
			} else {
				emit(Token{T: Ident, Raw: l.s[start:l.i], Val: n})
			}
		default:
			_, sz := utf8.DecodeRuneInString(l.s[l.i:])
			l.i += sz
			emit(Token{T: Delim, Raw: l.s[start:l.i]})
		}
	}
	return out
}
