// Package jsonval is an independent RFC 8259 lexer/validator that keeps the
// lexemes (order, duplicates, raw strings), used to compare a JSON text with its
// minified form.
package jsonval

import (
	"fmt"
)

type Kind byte

const (
	LBrace Kind = iota
	RBrace
	LBrack
	RBrack
	Colon
	Comma
	String
	Number
	Literal
)

type Token struct {
	Kind Kind
	Raw  string
}

// Lex tokenises and validates s as a single RFC 8259 JSON text. ws reports the
// number of whitespace bytes outside strings.
func Lex(s []byte) (toks []Token, ws int, err error) {
	i := 0
	n := len(s)
	// validation automaton with explicit stack (no recursion: depth is unbounded)
	const (
		expValue = iota
		expValueOrEnd // after '['
		expKeyOrEnd   // after '{'
		expKey        // after ',' in object
		expColon
		expCommaOrEnd
		expEOF
	)
	var stack []byte // '{' or '['
	state := expValue
	afterValue := func() {
		if len(stack) == 0 {
			state = expEOF
		} else {
			state = expCommaOrEnd
		}
	}
	for {
		for i < n && (s[i] == ' ' || s[i] == '\t' || s[i] == '\n' || s[i] == '\r') {
			i++
			ws++
		}
		if i >= n {
			break
		}
		c := s[i]
		switch {
		case c == '{' || c == '[':
			if state != expValue && state != expValueOrEnd {
				return nil, ws, fmt.Errorf("unexpected %q at %d", c, i)
			}
			stack = append(stack, c)
			if c == '{' {
				toks = append(toks, Token{LBrace, "{"})
				state = expKeyOrEnd
			} else {
				toks = append(toks, Token{LBrack, "["})
				state = expValueOrEnd
			}
			i++
		case c == '}' || c == ']':
			open := byte('{')
			if c == ']' {
				open = '['
			}
			okState := state == expCommaOrEnd || (c == '}' && state == expKeyOrEnd) || (c == ']' && state == expValueOrEnd)
			if !okState || len(stack) == 0 || stack[len(stack)-1] != open {
				return nil, ws, fmt.Errorf("unexpected %q at %d", c, i)
			}
			stack = stack[:len(stack)-1]
			if c == '}' {
				toks = append(toks, Token{RBrace, "}"})
			} else {
				toks = append(toks, Token{RBrack, "]"})
			}
			i++
			afterValue()
		case c == ',':
			if state != expCommaOrEnd {
				return nil, ws, fmt.Errorf("unexpected ',' at %d", i)
			}
			toks = append(toks, Token{Comma, ","})
			if stack[len(stack)-1] == '{' {
				state = expKey
			} else {
				state = expValue
			}
			i++
		case c == ':':
			if state != expColon {
				return nil, ws, fmt.Errorf("unexpected ':' at %d", i)
			}
			toks = append(toks, Token{Colon, ":"})
			state = expValue
			i++
		case c == '"':
			j, e := lexString(s, i)
			if e != nil {
				return nil, ws, e
			}
			switch state {
			case expKey, expKeyOrEnd:
				state = expColon
			case expValue, expValueOrEnd:
				afterValue()
			default:
				return nil, ws, fmt.Errorf("unexpected string at %d", i)
			}
			toks = append(toks, Token{String, string(s[i:j])})
			i = j
		case c == '-' || (c >= '0' && c <= '9'):
			if state != expValue && state != expValueOrEnd {
				return nil, ws, fmt.Errorf("unexpected number at %d", i)
			}
			j, e := lexNumber(s, i)
			if e != nil {
				return nil, ws, e
			}
			toks = append(toks, Token{Number, string(s[i:j])})
			i = j
			afterValue()
		default:
			if state != expValue && state != expValueOrEnd {
				return nil, ws, fmt.Errorf("unexpected %q at %d", c, i)
			}
			matched := false
			for _, lit := range []string{"true", "false", "null"} {
				if i+len(lit) <= n && string(s[i:i+len(lit)]) == lit {
					toks = append(toks, Token{Literal, lit})
					i += len(lit)
					matched = true
					break
				}
			}
			if !matched {
				return nil, ws, fmt.Errorf("unexpected %q at %d", c, i)
			}
			afterValue()
		}
	}
	if state != expEOF {
		return nil, ws, fmt.Errorf("unexpected end of input")
	}
	return toks, ws, nil
}

func lexString(s []byte, i int) (int, error) {
	n := len(s)
	j := i + 1
	for j < n {
		c := s[j]
		switch {
		case c == '"':
			return j + 1, nil
		case c < 0x20:
			return 0, fmt.Errorf("control character in string at %d", j)
		case c == '\\':
			if j+1 >= n {
				return 0, fmt.Errorf("truncated escape")
			}
			switch s[j+1] {
			case '"', '\\', '/', 'b', 'f', 'n', 'r', 't':
				j += 2
			case 'u':
				if j+6 > n {
					return 0, fmt.Errorf("truncated \\u escape")
				}
				for k := j + 2; k < j+6; k++ {
					h := s[k]
					if !(h >= '0' && h <= '9' || h >= 'a' && h <= 'f' || h >= 'A' && h <= 'F') {
						return 0, fmt.Errorf("bad \\u escape at %d", j)
					}
				}
				j += 6
			default:
				return 0, fmt.Errorf("bad escape at %d", j)
			}
		default:
			j++
		}
	}
	return 0, fmt.Errorf("unterminated string")
}

func lexNumber(s []byte, i int) (int, error) {
	n := len(s)
	j := i
	if j < n && s[j] == '-' {
		j++
	}
	if j >= n {
		return 0, fmt.Errorf("bad number at %d", i)
	}
	if s[j] == '0' {
		j++
	} else if s[j] >= '1' && s[j] <= '9' {
		for j < n && s[j] >= '0' && s[j] <= '9' {
			j++
		}
	} else {
		return 0, fmt.Errorf("bad number at %d", i)
	}
	if j < n && s[j] == '.' {
		j++
		k := j
		for j < n && s[j] >= '0' && s[j] <= '9' {
			j++
		}
		if j == k {
			return 0, fmt.Errorf("bad fraction at %d", i)
		}
	}
	if j < n && (s[j] == 'e' || s[j] == 'E') {
		j++
		if j < n && (s[j] == '+' || s[j] == '-') {
			j++
		}
		k := j
		for j < n && s[j] >= '0' && s[j] <= '9' {
			j++
		}
		if j == k {
			return 0, fmt.Errorf("bad exponent at %d", i)
		}
	}
	return j, nil
}
