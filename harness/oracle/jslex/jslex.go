// Package jslex is a minimal ES2022 tokenizer (own code, nothing shared with
// tdewolff/parse). It is only applied to texts that V8 has accepted, to list
// identifier names and a few token classes.
package jslex

import (
	"strings"
	"unicode"
	"unicode/utf8"
)

type Kind int

const (
	Ident Kind = iota // IdentifierName, including keywords and #private names
	Number
	String
	Template // one token per template literal chunk ( `..${ , }..${ , }..` )
	Regex
	Punct
	Comment
)

type Token struct {
	Kind Kind
	Text string
	// AfterDot: identifier directly after . or ?. (property access)
	AfterDot bool
	// BlockEnd: a } that closes a statement block (a following / starts a regular expression), not an object literal
	BlockEnd bool
	// PropKey: identifier directly followed by ':' or '(' inside an object/class body is not decided here
}

var keywordsBeforeRegex = map[string]bool{"return": true, "typeof": true, "instanceof": true, "in": true, "of": true, "new": true, "delete": true, "void": true, "throw": true, "case": true, "do": true, "else": true, "yield": true, "await": true}

func isIDStart(r rune) bool {
	return r == '$' || r == '_' || r == '#' || unicode.IsLetter(r) || r == '\\'
}
func isIDPart(r rune) bool {
	return isIDStart(r) && r != '#' || unicode.IsDigit(r) || r == 0x200C || r == 0x200D || unicode.Is(unicode.Mn, r) || unicode.Is(unicode.Mc, r)
}

// Lex tokenizes src. It never fails: unknown bytes become one-byte punctuators.
func Lex(src string) []Token {
	var toks []Token
	i := 0
	n := len(src)
	// template nesting: stack of brace depths at which a template substitution was opened
	var tmplStack []int
	braceDepth := 0
	// kind of every open brace: true = statement block / function or class body, false = object literal or pattern
	var braceIsBlock []bool
	blockPosition := func() bool {
		for k := len(toks) - 1; k >= 0; k-- {
			t := toks[k]
			if t.Kind == Comment {
				continue
			}
			switch t.Kind {
			case Punct:
				switch t.Text {
				case ";", "{", ")", "=>":
					return true
				case "}":
					return t.BlockEnd
				}
				return false
			case Ident:
				if t.AfterDot {
					return false
				}
				switch t.Text {
				case "return", "typeof", "in", "of", "instanceof", "new", "delete", "void", "throw", "case", "yield", "await", "default", "export":
					return false
				}
				return true // else do try finally, class A {, label-less names in front of a body
			}
			return false
		}
		return true
	}
	regexAllowed := func() bool {
		for k := len(toks) - 1; k >= 0; k-- {
			t := toks[k]
			if t.Kind == Comment {
				continue
			}
			switch t.Kind {
			case Number, String, Regex:
				return false
			case Template:
				return strings.HasSuffix(t.Text, "${")
			case Ident:
				if t.AfterDot {
					return false
				}
				return keywordsBeforeRegex[t.Text]
			case Punct:
				switch t.Text {
				case "}":
					return t.BlockEnd
				case ")", "]", "++", "--":
					return false
				}
				return true
			}
		}
		return true
	}
	lexTemplateChunk := func(start int) int {
		// from just after ` or } up to and including closing ` or ${
		j := start
		for j < n {
			c := src[j]
			if c == '\\' {
				j += 2
				continue
			}
			if c == '`' {
				return j + 1
			}
			if c == '$' && j+1 < n && src[j+1] == '{' {
				return j + 2
			}
			j++
		}
		return n
	}
	for i < n {
		c := src[i]
		switch {
		case c == ' ' || c == '\t' || c == '\n' || c == '\r' || c == '\v' || c == '\f':
			i++
		case c == 0xE2 && i+2 < n && src[i+1] == 0x80 && (src[i+2] == 0xA8 || src[i+2] == 0xA9), c == 0xC2 && i+1 < n && src[i+1] == 0xA0, c == 0xEF && i+2 < n && src[i+1] == 0xBB && src[i+2] == 0xBF:
			_, sz := utf8.DecodeRuneInString(src[i:])
			i += sz
		case c == '/' && i+1 < n && src[i+1] == '/':
			j := i
			for j < n && src[j] != '\n' && src[j] != '\r' {
				j++
			}
			toks = append(toks, Token{Kind: Comment, Text: src[i:j]})
			i = j
		case c == '/' && i+1 < n && src[i+1] == '*':
			j := strings.Index(src[i+2:], "*/")
			if j < 0 {
				j = n
			} else {
				j = i + 2 + j + 2
			}
			toks = append(toks, Token{Kind: Comment, Text: src[i:j]})
			i = j
		case c == '"' || c == '\'':
			j := i + 1
			for j < n && src[j] != c {
				if src[j] == '\\' {
					j++
				}
				j++
			}
			if j < n {
				j++
			}
			if j > n {
				j = n
			}
			toks = append(toks, Token{Kind: String, Text: src[i:j]})
			i = j
		case c == '`':
			j := lexTemplateChunk(i + 1)
			toks = append(toks, Token{Kind: Template, Text: src[i:j]})
			if strings.HasSuffix(src[i:j], "${") {
				tmplStack = append(tmplStack, braceDepth)
			}
			i = j
		case c == '}' && len(tmplStack) > 0 && tmplStack[len(tmplStack)-1] == braceDepth:
			tmplStack = tmplStack[:len(tmplStack)-1]
			j := lexTemplateChunk(i + 1)
			toks = append(toks, Token{Kind: Template, Text: src[i:j]})
			if strings.HasSuffix(src[i:j], "${") {
				tmplStack = append(tmplStack, braceDepth)
			}
			i = j
		case c >= '0' && c <= '9' || c == '.' && i+1 < n && src[i+1] >= '0' && src[i+1] <= '9':
			j := i
			if c == '0' && j+1 < n && strings.ContainsRune("xXbBoO", rune(src[j+1])) {
				j += 2
				for j < n && (isHex(src[j]) || src[j] == '_') {
					j++
				}
			} else {
				for j < n && (src[j] >= '0' && src[j] <= '9' || src[j] == '_') {
					j++
				}
				if j < n && src[j] == '.' {
					j++
					for j < n && (src[j] >= '0' && src[j] <= '9' || src[j] == '_') {
						j++
					}
				}
				if j < n && (src[j] == 'e' || src[j] == 'E') {
					k := j + 1
					if k < n && (src[k] == '+' || src[k] == '-') {
						k++
					}
					if k < n && src[k] >= '0' && src[k] <= '9' {
						j = k
						for j < n && (src[j] >= '0' && src[j] <= '9' || src[j] == '_') {
							j++
						}
					}
				}
			}
			if j < n && src[j] == 'n' {
				j++
			}
			toks = append(toks, Token{Kind: Number, Text: src[i:j]})
			i = j
		case c == '/' && regexAllowed():
			j := i + 1
			inClass := false
			for j < n {
				ch := src[j]
				if ch == '\\' {
					j += 2
					continue
				}
				if ch == '\n' {
					break
				}
				if ch == '[' {
					inClass = true
				} else if ch == ']' {
					inClass = false
				} else if ch == '/' && !inClass {
					j++
					break
				}
				j++
			}
			for j < n && (src[j] >= 'a' && src[j] <= 'z') {
				j++
			}
			if j > n {
				j = n
			}
			toks = append(toks, Token{Kind: Regex, Text: src[i:j]})
			i = j
		default:
			r, sz := utf8.DecodeRuneInString(src[i:])
			if isIDStart(r) {
				j := i + sz
				for j < n {
					r2, s2 := utf8.DecodeRuneInString(src[j:])
					if r2 == '\\' { // unicode escape in identifier
						j += s2
						continue
					}
					if !isIDPart(r2) && !(r2 == '{' || r2 == '}') || (r2 == '{' || r2 == '}') && !strings.Contains(src[i:j], "\\u") {
						break
					}
					j += s2
				}
				afterDot := false
				for k := len(toks) - 1; k >= 0; k-- {
					if toks[k].Kind == Comment {
						continue
					}
					afterDot = toks[k].Kind == Punct && (toks[k].Text == "." || toks[k].Text == "?.")
					break
				}
				toks = append(toks, Token{Kind: Ident, Text: src[i:j], AfterDot: afterDot})
				i = j
				continue
			}
			// punctuators, longest match
			matched := false
			for _, p := range puncts {
				if strings.HasPrefix(src[i:], p) {
					if p == "?." && i+2 < n && src[i+2] >= '0' && src[i+2] <= '9' {
						continue
					}
					tok := Token{Kind: Punct, Text: p}
					if p == "{" {
						braceIsBlock = append(braceIsBlock, blockPosition())
						braceDepth++
					} else if p == "}" {
						if len(braceIsBlock) > 0 {
							tok.BlockEnd = braceIsBlock[len(braceIsBlock)-1]
							braceIsBlock = braceIsBlock[:len(braceIsBlock)-1]
						}
						braceDepth--
					}
					toks = append(toks, tok)
					i += len(p)
					matched = true
					break
				}
			}
			if !matched {
				toks = append(toks, Token{Kind: Punct, Text: src[i : i+sz]})
				i += sz
			}
		}
	}
	return toks
}

func isHex(c byte) bool {
	return c >= '0' && c <= '9' || c >= 'a' && c <= 'f' || c >= 'A' && c <= 'F'
}

var puncts = []string{">>>=", "...", "===", "!==", "**=", "<<=", ">>=", ">>>", "&&=", "||=", "??=", "=>", "==", "!=", "<=", ">=", "&&", "||", "??", "?.", "++", "--", "+=", "-=", "*=", "/=", "%=", "&=", "|=", "^=", "<<", ">>", "**", "{", "}", "(", ")", "[", "]", ";", ",", "<", ">", "+", "-", "*", "/", "%", "&", "|", "^", "!", "~", "?", ":", "=", ".", "@"}

// IdentNames returns the set of identifier names (including property names after a dot and keywords).
func IdentNames(src string) map[string]bool {
	out := map[string]bool{}
	for _, t := range Lex(src) {
		if t.Kind == Ident {
			out[t.Text] = true
		}
	}
	return out
}

// Significant returns the tokens without comments.
func Significant(src string) []Token {
	var out []Token
	for _, t := range Lex(src) {
		if t.Kind != Comment {
			out = append(out, t)
		}
	}
	return out
}

// Keywords: reserved words and literals, which a minifier may introduce (while => for, true => !0 ...).
var Keywords = map[string]bool{}

func init() {
	for _, k := range strings.Fields("break case catch class const continue debugger default delete do else enum export extends false finally for function if import in instanceof new null return super switch this throw true try typeof var void while with yield let static async await of get set implements interface package private protected public") {
		Keywords[k] = true
	}
}
