// Package xmlinfo extracts what matters of an XML document's infoset with an own
// scanner (raw attribute text is needed for XML 1.0 §3.3.3 normalisation, which
// encoding/xml does not expose); well-formedness is judged by encoding/xml in
// strict mode.
package xmlinfo

import (
	"bytes"
	"encoding/xml"
	"fmt"
	"io"
	"regexp"
	"strconv"
	"strings"
)

type Attr struct {
	Name  string
	Value string // normalised per §3.3.3 (CDATA type): refs expanded, literal TAB/LF/CR -> space
}

type Event struct {
	Kind        string // start end pi doctype text comment
	Name        string // element name / pi target
	Data        string // pi data, doctype text (whitespace collapsed), text (references expanded), comment
	Attrs       []Attr
	CDATA       []string // for text events: the exact contents of CDATA sections inside this run
	SelfClosing bool
}

// WellFormed runs encoding/xml in strict mode over the whole document.
func WellFormed(src []byte, entities map[string]string) error {
	d := xml.NewDecoder(strings.NewReader(string(src)))
	d.Strict = true
	d.Entity = entities
	d.CharsetReader = func(label string, input io.Reader) (io.Reader, error) { return input, nil }
	n := 0
	for {
		tok, err := d.Token()
		if err == io.EOF {
			if n == 0 {
				return fmt.Errorf("no element")
			}
			return nil
		}
		if err != nil {
			return err
		}
		if _, ok := tok.(xml.StartElement); ok {
			n++
		}
	}
}

func expandRefs(s string, entities map[string]string, attr bool) string {
	var sb strings.Builder
	for i := 0; i < len(s); i++ {
		c := s[i]
		if c == '&' {
			j := strings.IndexByte(s[i:], ';')
			if j > 0 {
				ref := s[i+1 : i+j]
				rep, ok := "", false
				switch {
				case strings.HasPrefix(ref, "#x") || strings.HasPrefix(ref, "#X"):
					if n, err := strconv.ParseUint(ref[2:], 16, 32); err == nil {
						rep, ok = string(rune(n)), true
					}
				case strings.HasPrefix(ref, "#"):
					if n, err := strconv.ParseUint(ref[1:], 10, 32); err == nil {
						rep, ok = string(rune(n)), true
					}
				default:
					switch ref {
					case "lt":
						rep, ok = "<", true
					case "gt":
						rep, ok = ">", true
					case "amp":
						rep, ok = "&", true
					case "quot":
						rep, ok = "\"", true
					case "apos":
						rep, ok = "'", true
					default:
						if v, has := entities[ref]; has {
							rep, ok = v, true
						}
					}
				}
				if ok {
					// characters that come from references are NOT normalised again
					sb.WriteString("\x00R" + rep + "\x00E")
					i += j
					continue
				}
			}
		}
		sb.WriteByte(c)
	}
	return sb.String()
}

// NormAttr implements §3.3.3 for CDATA-typed attributes on the raw text between the quotes.
func NormAttr(raw string, entities map[string]string) string {
	raw = strings.ReplaceAll(raw, "\r\n", "\n") // §2.11 line ends
	raw = strings.ReplaceAll(raw, "\r", "\n")
	marked := expandRefs(raw, entities, true)
	var sb strings.Builder
	inRef := false
	for i := 0; i < len(marked); i++ {
		if strings.HasPrefix(marked[i:], "\x00R") {
			inRef = true
			i++
			continue
		}
		if strings.HasPrefix(marked[i:], "\x00E") {
			inRef = false
			i++
			continue
		}
		c := marked[i]
		if !inRef && (c == '\t' || c == '\n' || c == '\r') {
			sb.WriteByte(' ')
		} else {
			sb.WriteByte(c)
		}
	}
	return sb.String()
}

func textValue(raw string, entities map[string]string) string {
	raw = strings.ReplaceAll(raw, "\r\n", "\n")
	raw = strings.ReplaceAll(raw, "\r", "\n")
	m := expandRefs(raw, entities, false)
	m = strings.ReplaceAll(m, "\x00R", "")
	return strings.ReplaceAll(m, "\x00E", "")
}

// Scan produces the event stream. Text events are maximal runs of character data and CDATA
// between element tags; comments and PIs do not split a run (comments are recorded as
// separate events before the run they occur in, PIs likewise).
func Scan(src string, entities map[string]string) ([]Event, error) {
	var evs []Event
	var run strings.Builder
	var cdatas []string
	runActive := false
	flush := func() {
		if runActive {
			evs = append(evs, Event{Kind: "text", Data: run.String(), CDATA: cdatas})
			run.Reset()
			cdatas = nil
			runActive = false
		}
	}
	i := 0
	n := len(src)
	for i < n {
		if src[i] != '<' {
			j := strings.IndexByte(src[i:], '<')
			if j < 0 {
				j = n - i
			}
			run.WriteString(textValue(src[i:i+j], entities))
			runActive = true
			i += j
			continue
		}
		switch {
		case strings.HasPrefix(src[i:], "<!--"):
			j := strings.Index(src[i+4:], "-->")
			if j < 0 {
				return nil, fmt.Errorf("unterminated comment")
			}
			evs = append(evs, Event{Kind: "comment", Data: src[i+4 : i+4+j]})
			i += 4 + j + 3
		case strings.HasPrefix(src[i:], "<![CDATA["):
			j := strings.Index(src[i+9:], "]]>")
			if j < 0 {
				return nil, fmt.Errorf("unterminated CDATA")
			}
			c := src[i+9 : i+9+j]
			c = strings.ReplaceAll(strings.ReplaceAll(c, "\r\n", "\n"), "\r", "\n")
			run.WriteString(c)
			cdatas = append(cdatas, c)
			runActive = true
			i += 9 + j + 3
		case strings.HasPrefix(src[i:], "<?"):
			j := strings.Index(src[i+2:], "?>")
			if j < 0 {
				return nil, fmt.Errorf("unterminated PI")
			}
			body := src[i+2 : i+2+j]
			target, data := body, ""
			if k := strings.IndexAny(body, " \t\r\n"); k >= 0 {
				target, data = body[:k], strings.TrimLeft(body[k:], " \t\r\n")
			}
			evs = append(evs, Event{Kind: "pi", Name: target, Data: data})
			i += 2 + j + 2
		case strings.HasPrefix(src[i:], "<!"):
			// doctype, possibly with internal subset
			j := i + 2
			depth := 0
			for j < n {
				if src[j] == '[' {
					depth++
				} else if src[j] == ']' {
					depth--
				} else if src[j] == '"' || src[j] == '\'' {
					k := strings.IndexByte(src[j+1:], src[j])
					if k < 0 {
						return nil, fmt.Errorf("unterminated literal in doctype")
					}
					j += k + 1
				} else if src[j] == '>' && depth <= 0 {
					break
				}
				j++
			}
			if j >= n {
				return nil, fmt.Errorf("unterminated doctype")
			}
			flush()
			evs = append(evs, Event{Kind: "doctype", Data: canonDoctype(src[i+2 : j])})
			i = j + 1
		case strings.HasPrefix(src[i:], "</"):
			j := strings.IndexByte(src[i:], '>')
			if j < 0 {
				return nil, fmt.Errorf("unterminated end tag")
			}
			flush()
			evs = append(evs, Event{Kind: "end", Name: strings.TrimSpace(src[i+2 : i+j])})
			i += j + 1
		default:
			// start tag
			j := i + 1
			for j < n && !strings.ContainsRune(" \t\r\n/>", rune(src[j])) {
				j++
			}
			ev := Event{Kind: "start", Name: src[i+1 : j]}
			for {
				for j < n && strings.ContainsRune(" \t\r\n", rune(src[j])) {
					j++
				}
				if j >= n {
					return nil, fmt.Errorf("unterminated start tag")
				}
				if src[j] == '>' {
					j++
					break
				}
				if src[j] == '/' && j+1 < n && src[j+1] == '>' {
					ev.SelfClosing = true
					j += 2
					break
				}
				k := j
				for k < n && !strings.ContainsRune(" \t\r\n=/>", rune(src[k])) {
					k++
				}
				name := src[j:k]
				for k < n && strings.ContainsRune(" \t\r\n", rune(src[k])) {
					k++
				}
				if k >= n || src[k] != '=' {
					return nil, fmt.Errorf("attribute %q without value", name)
				}
				k++
				for k < n && strings.ContainsRune(" \t\r\n", rune(src[k])) {
					k++
				}
				if k >= n || (src[k] != '"' && src[k] != '\'') {
					return nil, fmt.Errorf("attribute %q value not quoted", name)
				}
				e := strings.IndexByte(src[k+1:], src[k])
				if e < 0 {
					return nil, fmt.Errorf("unterminated attribute value")
				}
				ev.Attrs = append(ev.Attrs, Attr{Name: name, Value: NormAttr(src[k+1:k+1+e], entities)})
				j = k + 1 + e + 1
			}
			flush()
			evs = append(evs, ev)
			if ev.SelfClosing {
				evs = append(evs, Event{Kind: "end", Name: ev.Name})
			}
			i = j
		}
	}
	flush()
	return evs, nil
}

// Collapse: XML whitespace runs to one space.
func Collapse(s string) string {
	var sb strings.Builder
	inWS := false
	for i := 0; i < len(s); i++ {
		c := s[i]
		if c == ' ' || c == '\t' || c == '\n' || c == '\r' {
			if !inWS {
				sb.WriteByte(' ')
			}
			inWS = true
		} else {
			sb.WriteByte(c)
			inWS = false
		}
	}
	return sb.String()
}

// canonDoctype collapses whitespace outside the quoted literals of a doctype declaration (and drops it next
// to the brackets and angle brackets of the internal subset); literals are kept byte for byte.
func canonDoctype(d string) string {
	var sb strings.Builder
	pendingWS := false
	last := byte(0)
	for i := 0; i < len(d); i++ {
		c := d[i]
		if c == ' ' || c == '\t' || c == '\n' || c == '\r' {
			pendingWS = true
			continue
		}
		if pendingWS && sb.Len() > 0 && last != '[' && last != '>' && c != ']' && c != '>' && c != '[' {
			sb.WriteByte(' ')
		}
		pendingWS = false
		if c == '"' || c == '\'' {
			k := strings.IndexByte(d[i+1:], c)
			if k < 0 {
				sb.WriteString(d[i:])
				break
			}
			sb.WriteString(d[i : i+1+k+1])
			i += k + 1
			last = c
			continue
		}
		sb.WriteByte(c)
		last = c
	}
	return sb.String()
}

var reXMLName = regexp.MustCompile(`^[A-Za-z_][-A-Za-z0-9_.]*$`)

// doctypedecl with an optional external id and an internal subset of entity declarations and comments only
var reDoctype = regexp.MustCompile(`^DOCTYPE[ \t\r\n]+[A-Za-z_][-\w.]*([ \t\r\n]+(SYSTEM[ \t\r\n]+("[^"]*"|'[^']*')|PUBLIC[ \t\r\n]+("[^"]*"|'[^']*')[ \t\r\n]+("[^"]*"|'[^']*')))?[ \t\r\n]*(\[([ \t\r\n]|<!(ENTITY|ELEMENT|ATTLIST|NOTATION)[ \t\r\n]+([^<>"']|"[^"<]*"|'[^'<]*')*>|<!--([^-]|-[^-])*-->)*\][ \t\r\n]*)?$`)

// Document is encoding/xml in strict mode plus the document-level rules it does not enforce: exactly one
// root element, no character data outside it, the XML declaration only at the very start, and <! only as
// comment, CDATA or a DOCTYPE before the root.
func Document(b []byte, entities map[string]string) error {
	d := xml.NewDecoder(bytes.NewReader(b))
	d.Strict = true
	d.CharsetReader = func(label string, input io.Reader) (io.Reader, error) { return input, nil }
	d.Entity = entities
	roots, depth, first := 0, 0, true
	for {
		off := d.InputOffset()
		tok, err := d.RawToken()
		if err == io.EOF {
			if roots != 1 || depth != 0 {
				return fmt.Errorf("%d root elements, depth %d at the end", roots, depth)
			}
			break
		}
		if err != nil {
			return err
		}
		switch tk := tok.(type) {
		case xml.StartElement:
			if depth == 0 {
				roots++
			}
			depth++
			if !reXMLName.MatchString(tk.Name.Local) || tk.Name.Space != "" && !reXMLName.MatchString(tk.Name.Space) {
				return fmt.Errorf("element name %q:%q", tk.Name.Space, tk.Name.Local)
			}
			for _, a := range tk.Attr {
				if !reXMLName.MatchString(a.Name.Local) || a.Name.Space != "" && !reXMLName.MatchString(a.Name.Space) {
					return fmt.Errorf("attribute name %q:%q", a.Name.Space, a.Name.Local)
				}
			}
		case xml.EndElement:
			depth--
			if depth < 0 {
				return fmt.Errorf("end tag without start tag")
			}
		case xml.CharData:
			if depth == 0 && len(bytes.TrimSpace(tk)) > 0 {
				return fmt.Errorf("character data outside the root element")
			}
		case xml.ProcInst:
			if strings.EqualFold(tk.Target, "xml") && (!first || off != 0) {
				return fmt.Errorf("XML declaration not at the start")
			}
			if !reXMLName.MatchString(tk.Target) {
				return fmt.Errorf("processing instruction target %q", tk.Target)
			}
			if e := int(off) + 2 + len(tk.Target); e < len(b) && !strings.ContainsRune(" \t\r\n?", rune(b[e])) {
				return fmt.Errorf("no whitespace after the processing instruction target")
			}
		case xml.Directive:
			if depth != 0 || roots != 0 || !reDoctype.Match(tk) {
				return fmt.Errorf("markup declaration outside the prolog")
			}
		}
		first = false
	}
	// second pass with Token() for tag matching and namespace checks
	d = xml.NewDecoder(bytes.NewReader(b))
	d.Strict = true
	d.CharsetReader = func(label string, input io.Reader) (io.Reader, error) { return input, nil }
	d.Entity = entities
	for {
		_, err := d.Token()
		if err == io.EOF {
			return nil
		}
		if err != nil {
			return err
		}
	}
}
