// Package htmltree compares two HTML texts by the document an HTML5 parser
// (golang.org/x/net/html) builds from them, under a normal form that encodes
// only the changes the minifier documents: comments, inter-word whitespace
// (CSS white-space collapsing carried across inline boundaries, reset at block
// boundaries), default / empty attributes, attribute spelling.
package htmltree

import (
	"fmt"
	"regexp"
	"sort"
	"strings"

	"golang.org/x/net/html"
	"golang.org/x/net/html/atom"

	"verifharness/oracle/rfc2397"
)

type Options struct {
	KeepComments        bool
	KeepSpecialComments bool
	KeepDefaultAttrVals bool
	Fragment            bool
	// RawEqual: compare raw-text element content (script/style) byte for byte; when a
	// sub-minifier is registered the caller sets this false and checks that content itself
	RawEqual bool
	// CSSEqual, JSEqual: optional semantic comparators for style / on* attribute values and raw text
	CSSInlineEqual func(a, b string) bool
	// EmbeddedOpaque: style and on* attributes are left out of the comparison (their values are minified by other
	// minifiers); together with RawEqual=false only the structure around embedded content is compared
	EmbeddedOpaque bool
}

func setOf(s string) map[string]bool {
	m := map[string]bool{}
	for _, f := range strings.Fields(s) {
		m[f] = true
	}
	return m
}

// elements at whose boundaries whitespace is insignificant for rendering
var blockish = setOf(`address article aside blockquote body center details dialog dd dir div dl dt fieldset figcaption figure footer form frame frameset
 h1 h2 h3 h4 h5 h6 head header hgroup hr html legend li listing main menu nav ol optgroup option p plaintext pre search section summary ul xmp
 table caption colgroup col thead tbody tfoot tr td th
 br
 area base basefont bgsound datalist link meta noembed noframes param rp source title track`)

// script, style, template and noscript are not rendered, but they can stand between words in phrasing
// content: the spaces around them then collapse to ONE space, they do not vanish (C03: words are never
// joined). They are therefore transparent here, not boundaries.

// replaced / inline-block content: counts as a word
var atoms = setOf(`img input button select textarea object video audio canvas iframe svg math meter progress embed wbr keygen`)

// content kept verbatim
var preserve = setOf(`pre textarea script style listing xmp plaintext iframe noembed noframes noscript svg math`)

var booleanAttrs = setOf(`allowfullscreen async autofocus autoplay checked controls default defer disabled formnovalidate inert ismap itemscope loop multiple muted nomodule novalidate open playsinline readonly required reversed selected shadowrootdelegatesfocus`)

// attributes whose value is a token list / enumerated / numeric / identifier: surrounding and repeated whitespace is insignificant
var trimAttrs = setOf(`class rel rev headers accept accept-charset accesskey sizes sandbox for itemprop itemref itemtype width height colspan rowspan tabindex maxlength minlength size span start cols rows type method enctype formenctype formmethod media lang hreflang dir name target charset http-equiv shape coords scope align valign id autocomplete crossorigin loading decoding referrerpolicy inputmode enterkeyhint wrap kind preload translate draggable spellcheck contenteditable hidden as blocking fetchpriority integrity nonce is slot step min max low high optimum role datetime rules frame border cellpadding cellspacing bgcolor color face clear nowrap`)

var urlAttrs = setOf(`action cite data formaction href itemid poster profile src xmlns manifest`)

var mediatypeAttrsOn = map[string]map[string]bool{"type": setOf("a link embed object source script")}

func Parse(src string, fragment bool) (*html.Node, error) {
	if fragment {
		ctx := &html.Node{Type: html.ElementNode, Data: "body", DataAtom: atom.Body}
		nodes, err := html.ParseFragment(strings.NewReader(src), ctx)
		if err != nil {
			return nil, err
		}
		root := &html.Node{Type: html.ElementNode, Data: "body", DataAtom: atom.Body}
		for _, n := range nodes {
			root.AppendChild(n)
		}
		return root, nil
	}
	return html.Parse(strings.NewReader(src))
}

type tok struct {
	kind  string // open close word space atom raw comment doctype
	text  string
	block bool
}

func isWS(c byte) bool { return c == ' ' || c == '\t' || c == '\n' || c == '\r' || c == '\f' }

func collapseTrim(s string) string {
	return strings.Join(strings.FieldsFunc(s, func(r rune) bool { return r == ' ' || r == '\t' || r == '\n' || r == '\r' || r == '\f' }), " ")
}

func lowerASCII(s string) string { return strings.ToLower(s) }

// canonical attribute list of an element
func canonAttrs(n *html.Node, o Options) string {
	tag := n.Data
	attrs := map[string]string{}
	var order []string
	for _, a := range n.Attr {
		k := a.Key
		if a.Namespace != "" {
			k = a.Namespace + ":" + k
		}
		if _, dup := attrs[k]; dup {
			continue
		}
		attrs[k] = a.Val
		order = append(order, k)
	}
	get := func(k string) (string, bool) { v, ok := attrs[k]; return v, ok }
	del := func(k string) { delete(attrs, k) }
	// element specific documented rewrites
	switch tag {
	case "meta":
		if c, ok := get("content"); ok {
			if he, ok2 := get("http-equiv"); ok2 && strings.EqualFold(strings.TrimSpace(he), "content-type") {
				if _, has := get("charset"); !has {
					mt := strings.ToLower(strings.Join(strings.Fields(c), ""))
					if mt == "text/html;charset=utf-8" {
						del("http-equiv")
						del("content")
						attrs["charset"] = "utf-8"
					} else {
						attrs["content"] = mt
					}
				}
			}
			if nm, ok2 := get("name"); ok2 {
				if strings.EqualFold(strings.TrimSpace(nm), "keywords") {
					if c2, ok3 := get("content"); ok3 {
						attrs["content"] = reCommaSpace.ReplaceAllString(c2, ",") // a comma separated list
					}
				} else if strings.EqualFold(strings.TrimSpace(nm), "viewport") {
					if c2, ok3 := get("content"); ok3 {
						attrs["content"] = canonViewport(c2)
					}
				}
			}
		}
		if v, ok := get("charset"); ok {
			attrs["charset"] = strings.ToLower(strings.TrimSpace(v))
		}
	case "script":
		if _, ok := get("src"); ok {
			del("charset")
		}
	case "input":
		if t, ok := get("type"); ok {
			if v, ok2 := get("value"); ok2 {
				// HTML: value modes. "value" and "default" (hidden): a missing attribute is the empty string; "default/on"
				// (checkbox, radio): a missing attribute is "on"; buttons: a missing attribute is the default label
				ty := strings.ToLower(strings.TrimSpace(t))
				checkable := ty == "radio" || ty == "checkbox"
				button := ty == "submit" || ty == "reset" || ty == "button"
				if !checkable && !button && v == "" || checkable && v == "on" {
					del("value")
				}
			}
		}
	case "a":
		if id, ok := get("id"); ok {
			if nm, ok2 := get("name"); ok2 && id == nm {
				del("name")
			}
		}
	}
	keys := make([]string, 0, len(attrs))
	for k := range attrs {
		keys = append(keys, k)
	}
	sort.Strings(keys)
	var sb strings.Builder
	for _, k := range keys {
		v := attrs[k]
		switch {
		case booleanAttrs[k] && !strings.Contains(tag, "-"):
			// boolean on HTML elements; on a custom element the value may mean anything
			sb.WriteString(" " + k)
			continue
		case o.EmbeddedOpaque && (k == "style" || strings.HasPrefix(k, "on") && len(k) > 2):
			continue
		case k == "style":
			v = strings.TrimSpace(v)
			v = "\x00css:" + v
			if strings.TrimSpace(attrs[k]) == "" {
				continue
			}
		case strings.HasPrefix(k, "on") && len(k) > 2:
			v = strings.TrimSpace(v)
			if len(v) >= 11 && strings.EqualFold(v[:11], "javascript:") {
				v = strings.TrimSpace(v[11:])
			}
			if v == "" {
				continue
			}
		case urlAttrs[k]:
			v = strings.TrimSpace(v)
			if len(v) > 5 {
				l := strings.ToLower(v[:6])
				if strings.HasPrefix(l, "http:") {
					v = "http:" + v[5:]
				} else if strings.HasPrefix(l, "https:") {
					v = "https:" + v[6:]
				} else if strings.HasPrefix(l, "data:") {
					v = rfc2397.Canon(v)
				}
			}
			if k == "action" && tag == "form" && v == "" {
				continue
			}
		case trimAttrs[k] || k == "type" || mediatypeAttrsOn[k][tag]:
			v = collapseTrim(v)
			if k == "enctype" || k == "formenctype" || k == "accept" || mediatypeAttrsOn[k][tag] {
				v = lowerASCII(strings.Join(strings.Fields(v), ""))
			}
			if v == "" && (k == "class" || k == "dir" || k == "id" || k == "name") {
				continue
			}
			if !o.KeepDefaultAttrVals {
				lv := strings.ToLower(v)
				switch {
				case k == "type" && tag == "script" && (lv == "text/javascript" || lv == "application/javascript"),
					k == "type" && (tag == "style" || tag == "link") && lv == "text/css",
					k == "type" && tag == "input" && lv == "text",
					k == "type" && tag == "button" && lv == "submit",
					k == "method" && lv == "get",
					k == "enctype" && lv == "application/x-www-form-urlencoded",
					(k == "colspan" || k == "rowspan" || k == "span") && v == "1",
					k == "shape" && lv == "rect",
					k == "media" && tag == "style" && lv == "all":
					continue
				}
			}
		}
		sb.WriteString(" " + k + "=\"" + v + "\"")
	}
	return sb.String()
}

var reCommaSpace = regexp.MustCompile(`,[ \t\n\r\f]+`)

func canonViewport(s string) string {
	// the viewport algorithm separates properties by commas, semicolons and whitespace, and allows whitespace around =
	for _, eq := range []string{" =", "= "} {
		for strings.Contains(s, eq) {
			s = strings.ReplaceAll(s, eq, "=")
		}
	}
	parts := strings.FieldsFunc(s, func(r rune) bool {
		return r == ',' || r == ';' || r == ' ' || r == '\t' || r == '\n' || r == '\r' || r == '\f'
	})
	// numbers: 1.0 == 1
	for i, p := range parts {
		if j := strings.IndexByte(p, '='); j >= 0 {
			v := p[j+1:]
			if strings.Contains(v, ".") {
				v = strings.TrimRight(strings.TrimRight(v, "0"), ".")
			}
			if strings.HasPrefix(v, "0.") {
				v = v[1:]
			}
			parts[i] = p[:j+1] + v
		}
	}
	return strings.Join(parts, ",")
}

func isSpecialComment(s string) bool {
	return strings.HasPrefix(s, "[if ") || strings.HasSuffix(s, "[endif]") || strings.HasSuffix(s, "[endif]--") || strings.HasPrefix(s, "#")
}

// Stream linearises the tree into canonical tokens.
func Stream(root *html.Node, o Options) []string {
	var raw []tok
	var walk func(n *html.Node, pres bool)
	walk = func(n *html.Node, pres bool) {
		switch n.Type {
		case html.DoctypeNode:
			raw = append(raw, tok{kind: "doctype", text: strings.ToLower(n.Data), block: true})
		case html.CommentNode:
			// comments are compared as a separate sequence (Comments): their position relative to omitted tags is not rendered
		case html.TextNode:
			if pres {
				k := "raw"
				if p := n.Parent; p != nil && (p.Data == "script" || p.Data == "style" || p.Data == "noscript" || p.Data == "template" || p.Data == "noembed" || p.Data == "noframes") {
					k = "rawhidden" // not rendered: takes no part in white-space collapsing
				}
				raw = append(raw, tok{kind: k, text: n.Data})
				return
			}
			s := n.Data
			i := 0
			for i < len(s) {
				j := i
				if isWS(s[i]) {
					for j < len(s) && isWS(s[j]) {
						j++
					}
					raw = append(raw, tok{kind: "space"})
				} else {
					for j < len(s) && !isWS(s[j]) {
						j++
					}
					raw = append(raw, tok{kind: "word", text: s[i:j]})
				}
				i = j
			}
		case html.ElementNode:
			name := n.Data
			if n.Namespace != "" {
				name = n.Namespace + ":" + name
			}
			if (n.Data == "script" || n.Data == "style") && n.Namespace == "" && n.FirstChild == nil && canonAttrs(n, o) == "" {
				return // empty script/style elements without attributes are removed by the minifier
			}
			if o.EmbeddedOpaque && (n.Data == "script" || n.Data == "style") && n.Namespace == "" && canonAttrs(n, o) == "" {
				return // whether it is empty (and removed) depends on the embedded minifier
			}
			blk := blockish[n.Data] && n.Namespace == ""
			isAtom := atoms[n.Data] && n.Namespace == ""
			kind := "open"
			if isAtom {
				kind = "atom"
			}
			raw = append(raw, tok{kind: kind, text: "<" + name + canonAttrs(n, o) + ">", block: blk})
			p := pres || preserve[n.Data] && n.Namespace == "" || n.Namespace != ""
			if n.Data == "template" && n.FirstChild != nil {
				// x/net/html puts template contents as children (document fragment)
			}
			for c := n.FirstChild; c != nil; c = c.NextSibling {
				walk(c, p)
			}
			raw = append(raw, tok{kind: "close", text: "</" + name + ">", block: blk})
			if isAtom {
				raw[len(raw)-1].kind = "closeatom"
			}
		case html.DocumentNode:
			for c := n.FirstChild; c != nil; c = c.NextSibling {
				walk(c, pres)
			}
		}
	}
	walk(root, false)
	// canonical whitespace
	var out []string
	pending := false
	atStart := true
	depthAtom := 0
	for _, t := range raw {
		switch t.kind {
		case "space":
			if depthAtom > 0 {
				continue // whitespace inside button/select/... content: treated loosely
			}
			if !atStart {
				pending = true
			}
		case "word", "raw":
			if pending {
				out = append(out, "␠")
			}
			merge := !pending && t.kind == "word" && len(out) > 0 && strings.HasPrefix(out[len(out)-1], "w:")
			pending, atStart = false, false
			if t.kind == "raw" {
				if !o.EmbeddedOpaque {
					out = append(out, "raw:"+t.text)
				}
			} else if merge {
				out[len(out)-1] += t.text // adjacent text nodes (a removed comment between them) form one word
			} else {
				out = append(out, "w:"+t.text)
			}
		case "rawhidden":
			if !o.EmbeddedOpaque {
				out = append(out, "raw:"+t.text)
			}
		case "atom":
			if pending {
				out = append(out, "␠")
			}
			pending, atStart = false, false
			out = append(out, t.text)
			depthAtom++
			atStart = true
		case "closeatom":
			depthAtom--
			pending, atStart = false, false
			out = append(out, t.text)
		case "open", "close":
			if t.block {
				pending, atStart = false, true
			}
			out = append(out, t.text)
		case "comment":
			out = append(out, "<!--"+t.text+"-->")
		case "doctype":
			out = append(out, "<!doctype "+t.text+">")
		}
	}
	return out
}

// Comments lists the comments that the options keep, in document order.
func Comments(root *html.Node, o Options) []string {
	var out []string
	var walk func(n *html.Node)
	walk = func(n *html.Node) {
		if n.Type == html.CommentNode && (o.KeepComments || o.KeepSpecialComments && isSpecialComment(n.Data)) {
			out = append(out, n.Data)
		}
		for c := n.FirstChild; c != nil; c = c.NextSibling {
			walk(c)
		}
	}
	walk(root)
	return out
}

// Compare parses both texts and compares their canonical streams.
func Compare(in, out string, o Options) error {
	a, err := Parse(in, o.Fragment)
	if err != nil {
		return nil
	}
	b, err := Parse(out, o.Fragment)
	if err != nil {
		return fmt.Errorf("output does not parse: %v", err)
	}
	sa, sb := Stream(a, o), Stream(b, o)
	n := len(sa)
	if len(sb) < n {
		n = len(sb)
	}
	for i := 0; i < n; i++ {
		if !tokEqual(sa[i], sb[i], o) {
			return fmt.Errorf("documents differ at token %d: %q vs %q\n  in : %s\n  out: %s", i, sa[i], sb[i], context(sa, i), context(sb, i))
		}
	}
	if len(sa) != len(sb) {
		return fmt.Errorf("documents differ in length: %d vs %d tokens\n  in : %s\n  out: %s", len(sa), len(sb), context(sa, n), context(sb, n))
	}
	ca, cb := Comments(a, o), Comments(b, o)
	if o.KeepComments && strings.Join(ca, "\x00") != strings.Join(cb, "\x00") {
		return fmt.Errorf("kept comments differ: %q vs %q", ca, cb)
	}
	if !o.KeepComments && o.KeepSpecialComments {
		// conditional comments may be minified inside; compare their number only
		if len(ca) != len(cb) {
			return fmt.Errorf("kept special comments differ in number: %q vs %q", ca, cb)
		}
	}
	return nil
}

func tokEqual(a, b string, o Options) bool {
	if a == b {
		return true
	}
	if strings.HasPrefix(a, "raw:") && strings.HasPrefix(b, "raw:") && !o.RawEqual {
		return true
	}
	// style attribute values compared by the CSS comparator when given
	if strings.Contains(a, "\x00css:") && strings.Contains(b, "\x00css:") && o.CSSInlineEqual != nil {
		pa, pb := splitCSS(a), splitCSS(b)
		if len(pa) == len(pb) {
			for i := range pa {
				if i%2 == 0 {
					if pa[i] != pb[i] {
						return false
					}
				} else if !o.CSSInlineEqual(pa[i], pb[i]) {
					return false
				}
			}
			return true
		}
	}
	return false
}

func splitCSS(s string) []string {
	// "... style=\"\x00css:VALUE\" ..." -> [before, VALUE, after]
	i := strings.Index(s, "\x00css:")
	j := strings.IndexByte(s[i:], '"')
	if j < 0 {
		return []string{s}
	}
	return []string{s[:i], s[i+5 : i+j], s[i+j:]}
}

func context(s []string, i int) string {
	lo, hi := i-6, i+4
	if lo < 0 {
		lo = 0
	}
	if hi > len(s) {
		hi = len(s)
	}
	return strings.Join(s[lo:hi], " ")
}
