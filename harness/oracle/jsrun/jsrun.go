// Package jsrun talks to the persistent V8 worker (node/worker.js): behavioural
// observation of a JS text (see DESIGN.md 3.1).
package jsrun

import (
	"bufio"
	"encoding/json"
	"fmt"
	"io"
	"os"
	"os/exec"
	"sync"
	"time"
)

type Req struct {
	ID         int      `json:"id"`
	Goal       string   `json:"goal"` // script | module
	Src        string   `json:"src"`
	Probes     []string `json:"probes,omitempty"`
	Predef     []string `json:"predef,omitempty"`
	SyntaxOnly bool     `json:"syntaxOnly,omitempty"`
	Timeout    int      `json:"timeout,omitempty"` // ms, default 400
}

type Resp struct {
	ID     int    `json:"id"`
	Status string `json:"status"` // ok | syntax | timeout | tdz | error
	Obs    string `json:"obs"`
}

type Worker struct {
	mu           sync.Mutex
	cmd          *exec.Cmd
	in           io.WriteCloser
	out          *bufio.Reader
	nextID       int
	Deaths       int
	HardTimeouts int // requests ended by the deadline on this side
}

func workerPath() string {
	if v := os.Getenv("VERIF_NODE_WORKER"); v != "" {
		return v
	}
	return "/verif/harness/node/worker.js"
}

func (w *Worker) start() error {
	cmd := exec.Command("node", "--experimental-vm-modules", "--no-warnings", "--stack-size=2000", workerPath())
	in, err := cmd.StdinPipe()
	if err != nil {
		return err
	}
	out, err := cmd.StdoutPipe()
	if err != nil {
		return err
	}
	cmd.Stderr = os.Stderr
	if err := cmd.Start(); err != nil {
		return err
	}
	w.cmd, w.in, w.out = cmd, in, bufio.NewReaderSize(out, 1<<20)
	return nil
}

func (w *Worker) stop() {
	if w.cmd != nil {
		w.in.Close()
		w.cmd.Process.Kill()
		w.cmd.Wait()
		w.cmd = nil
	}
}

// Run executes one request; a dead worker is restarted and the request retried once.
func (w *Worker) Run(r Req) (Resp, error) {
	w.mu.Lock()
	defer w.mu.Unlock()
	for attempt := 0; attempt < 2; attempt++ {
		if w.cmd == nil {
			if err := w.start(); err != nil {
				return Resp{}, err
			}
		}
		w.nextID++
		r.ID = w.nextID
		b, _ := json.Marshal(r)
		b = append(b, '\n')
		if _, err := w.in.Write(b); err != nil {
			w.stop()
			w.Deaths++
			continue
		}
		// the worker enforces the timeout itself (vm timeout); code that runs in a microtask after an await, or inside
		// one long builtin call, is out of its reach: a hard deadline on this side ends such a request as a timeout
		type rd struct {
			line []byte
			err  error
		}
		ch := make(chan rd, 1)
		out := w.out
		go func() { l, e := out.ReadBytes('\n'); ch <- rd{l, e} }()
		limit := time.Duration(r.Timeout) * time.Millisecond
		if limit <= 0 {
			limit = 400 * time.Millisecond
		}
		var line []byte
		var err error
		select {
		case x := <-ch:
			line, err = x.line, x.err
		case <-time.After(20*limit + 30*time.Second):
			w.stop() // ends the reader goroutine too
			w.Deaths++
			w.HardTimeouts++
			return Resp{ID: r.ID, Status: "timeout", Obs: "hard deadline: the worker did not answer"}, nil
		}
		if err != nil {
			w.stop()
			w.Deaths++
			continue
		}
		var resp Resp
		if err := json.Unmarshal(line, &resp); err != nil || resp.ID != r.ID {
			w.stop()
			w.Deaths++
			continue
		}
		return resp, nil
	}
	return Resp{}, fmt.Errorf("node worker died twice on the same request")
}

func (w *Worker) Close() {
	w.mu.Lock()
	w.stop()
	w.mu.Unlock()
}

var Default = &Worker{}

// RunPatient is Run, but a timeout is only believed after the same request also
// timed out with a 10x and then a 40x larger limit (a busy machine must not
// turn into "does not terminate").
func (w *Worker) RunPatient(r Req) (Resp, error) {
	resp, err := w.Run(r)
	for _, t := range []int{4000, 16000} {
		if err != nil || resp.Status != "timeout" {
			return resp, err
		}
		r.Timeout = t
		resp, err = w.Run(r)
	}
	return resp, err
}
