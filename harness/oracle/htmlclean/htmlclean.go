// Package htmlclean decides whether a byte string can be tokenized by the WHATWG HTML
// tokenizer without one of the tokenizer-level parse errors that make different
// implementations (and a second pass over rewritten markup) disagree about where tags
// start and end: stray "<", malformed attributes, end tags with attributes, unclosed
// comments, tags and raw-text elements, NUL bytes. It is deliberately conservative:
// false means "not known to be clean". Tree-construction errors (misnesting, unknown
// elements) are not looked at.
package htmlclean

import "strings"

func isLetter(c byte) bool { return c >= 'a' && c <= 'z' || c >= 'A' && c <= 'Z' }
func isSpace(c byte) bool  { return c == ' ' || c == '\t' || c == '\n' || c == '\r' || c == '\f' }

var rawText = map[string]bool{"script": true, "style": true, "textarea": true, "title": true, "xmp": true, "iframe": true, "noembed": true, "noframes": true, "noscript": false}

// Clean reports whether b tokenizes without the parse errors listed above; reason names the first problem.
func Clean(b []byte) (ok bool, reason string) {
	n := len(b)
	i := 0
	for i < n {
		c := b[i]
		if c == 0 {
			return false, "NUL byte"
		}
		if c != '<' {
			i++
			continue
		}
		// "<"
		if i+1 >= n {
			return false, "< at the end"
		}
		d := b[i+1]
		switch {
		case d == '!':
			if strings.HasPrefix(string(b[i:min(n, i+4)]), "<!--") {
				rest := string(b[i+4:])
				if strings.HasPrefix(rest, ">") || strings.HasPrefix(rest, "->") {
					return false, "abruptly closed comment"
				}
				j := strings.Index(rest, "-->")
				if j < 0 {
					return false, "unclosed comment"
				}
				body := rest[:j]
				if strings.Contains(body, "<!--") || strings.Contains(body, "--!>") || strings.HasSuffix(body, "-") {
					return false, "nested or oddly closed comment"
				}
				i += 4 + j + 3
				continue
			}
			if n >= i+9 && strings.EqualFold(string(b[i:i+9]), "<!doctype") {
				j := i + 9
				for j < n && b[j] != '>' {
					if b[j] == '<' || b[j] == 0 {
						return false, "< in doctype"
					}
					j++
				}
				if j >= n {
					return false, "unclosed doctype"
				}
				i = j + 1
				continue
			}
			return false, "bogus markup declaration"
		case d == '/':
			if i+2 >= n || !isLetter(b[i+2]) {
				return false, "bogus end tag"
			}
			j := i + 2
			for j < n && !isSpace(b[j]) && b[j] != '>' && b[j] != '/' && b[j] != '<' && b[j] != 0 {
				j++
			}
			for j < n && isSpace(b[j]) {
				j++
			}
			if j >= n || b[j] != '>' {
				return false, "end tag with attributes or unclosed"
			}
			i = j + 1
			continue
		case isLetter(d):
			j := i + 1
			for j < n && !isSpace(b[j]) && b[j] != '>' && b[j] != '/' {
				if b[j] == '<' || b[j] == 0 || b[j] == '"' || b[j] == '\'' || b[j] == '=' {
					return false, "odd character in tag name"
				}
				j++
			}
			name := strings.ToLower(string(b[i+1 : j]))
			// attributes
			for {
				for j < n && isSpace(b[j]) {
					j++
				}
				if j >= n {
					return false, "unclosed tag"
				}
				if b[j] == '>' {
					j++
					break
				}
				if b[j] == '/' {
					if j+1 < n && b[j+1] == '>' {
						j += 2
						break
					}
					return false, "solidus in tag"
				}
				// attribute name
				k := j
				for k < n && !isSpace(b[k]) && b[k] != '=' && b[k] != '>' && b[k] != '/' {
					if b[k] == '<' || b[k] == '"' || b[k] == '\'' || b[k] == 0 {
						return false, "odd character in attribute name"
					}
					k++
				}
				if k == j {
					return false, "= without attribute name"
				}
				j = k
				for j < n && isSpace(b[j]) {
					j++
				}
				if j < n && b[j] == '=' {
					j++
					for j < n && isSpace(b[j]) {
						j++
					}
					if j >= n {
						return false, "unclosed tag"
					}
					if b[j] == '"' || b[j] == '\'' {
						q := b[j]
						k := j + 1
						for k < n && b[k] != q {
							if b[k] == 0 {
								return false, "NUL byte"
							}
							k++
						}
						if k >= n {
							return false, "unclosed attribute value"
						}
						j = k + 1
						if j < n && !isSpace(b[j]) && b[j] != '>' && b[j] != '/' {
							return false, "no whitespace between attributes"
						}
					} else {
						if b[j] == '>' {
							return false, "missing attribute value"
						}
						for j < n && !isSpace(b[j]) && b[j] != '>' {
							if b[j] == '<' || b[j] == '"' || b[j] == '\'' || b[j] == '=' || b[j] == '`' || b[j] == 0 {
								return false, "odd character in unquoted attribute value"
							}
							j++
						}
					}
				}
			}
			i = j
			if name == "plaintext" {
				return false, "plaintext"
			}
			if name == "svg" || name == "math" {
				return false, "foreign content"
			}
			if rawText[name] {
				// raw text / RCDATA up to the matching end tag
				low := strings.ToLower(string(b[i:]))
				k := 0
				for {
					m := strings.Index(low[k:], "</"+name)
					if m < 0 {
						return false, "unclosed " + name
					}
					e := k + m + 2 + len(name)
					if e >= len(low) {
						return false, "unclosed " + name
					}
					if isSpace(low[e]) || low[e] == '>' || low[e] == '/' {
						body := low[:k+m]
						if strings.IndexByte(body, 0) >= 0 {
							return false, "NUL byte"
						}
						if name == "script" && strings.Contains(body, "<!--") {
							return false, "script with <!--"
						}
						i += k + m
						break
					}
					k = e
				}
			}
			continue
		default:
			return false, "stray <"
		}
	}
	return true, ""
}
