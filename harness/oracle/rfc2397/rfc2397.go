// Package rfc2397 is an own data: URI decoder.
package rfc2397

import (
	"bytes"
	"encoding/base64"
	"fmt"
	"strings"
)

type Decoded struct {
	Type    string   // lowercased type/subtype ("text/plain" when omitted)
	Params  []string // "key=value", key lowercased, default charset=us-ascii dropped
	Payload []byte
	Base64  bool
}

func stripWS(s string) string {
	return strings.Map(func(r rune) rune {
		if r == ' ' || r == '\t' || r == '\n' || r == '\r' || r == '\f' {
			return -1
		}
		return r
	}, s)
}

func isHex(c byte) bool {
	return c >= '0' && c <= '9' || c >= 'a' && c <= 'f' || c >= 'A' && c <= 'F'
}

func unhex(c byte) byte {
	switch {
	case c >= '0' && c <= '9':
		return c - '0'
	case c >= 'a' && c <= 'f':
		return c - 'a' + 10
	}
	return c - 'A' + 10
}

// Decode returns ok=false when u is not a data URI at all; wellFormed=false when the payload
// encoding is broken (stray %, invalid base64).
func Decode(u []byte) (d Decoded, wellFormed bool, ok bool) {
	if len(u) < 5 || !bytes.EqualFold(u[:5], []byte("data:")) {
		return d, false, false
	}
	rest := u[5:]
	comma := bytes.IndexByte(rest, ',')
	if comma < 0 {
		return d, false, false
	}
	header, data := string(rest[:comma]), rest[comma+1:]
	parts := strings.Split(header, ";")
	for i := range parts {
		parts[i] = strings.TrimSpace(parts[i])
	}
	if len(parts) > 1 && strings.EqualFold(parts[len(parts)-1], "base64") {
		d.Base64 = true
		parts = parts[:len(parts)-1]
	}
	d.Type = strings.ToLower(stripWS(parts[0]))
	if d.Type == "" {
		d.Type = "text/plain"
	}
	for _, p := range parts[1:] {
		kv := strings.SplitN(p, "=", 2)
		k := strings.ToLower(stripWS(kv[0]))
		v := ""
		if len(kv) == 2 {
			v = stripWS(kv[1])
		}
		if k == "charset" && strings.EqualFold(v, "us-ascii") {
			continue
		}
		if len(kv) == 2 {
			d.Params = append(d.Params, k+"="+v)
		} else {
			d.Params = append(d.Params, k)
		}
	}
	wellFormed = true
	if d.Base64 {
		dec, err := base64.StdEncoding.DecodeString(string(data))
		if err != nil {
			return d, false, true
		}
		d.Payload = dec
		return d, true, true
	}
	for i := 0; i < len(data); i++ {
		if data[i] == '%' {
			if i+2 < len(data)+0 && i+2 <= len(data)-1 && isHex(data[i+1]) && isHex(data[i+2]) {
				d.Payload = append(d.Payload, unhex(data[i+1])<<4|unhex(data[i+2]))
				i += 2
				continue
			}
			wellFormed = false
		}
		d.Payload = append(d.Payload, data[i])
	}
	return d, wellFormed, true
}

// Canon is a canonical text of a data URI (or the URI itself when it is not one).
func Canon(u string) string {
	d, _, ok := Decode([]byte(u))
	if !ok {
		return u
	}
	return fmt.Sprintf("data:%s;%s,%x", d.Type, strings.Join(d.Params, ";"), d.Payload)
}
