// Package svgpath is an own SVG path-data parser (SVG 1.1 / 2 BNF incl. compact
// arc flags, implicit commands, sign/dot adjacency) that reduces a path to a list
// of absolute canonical segments M L C Q A Z.
package svgpath

import (
	"fmt"
	"math"
	"strconv"
)

type Seg struct {
	Cmd byte      // M L C Q A Z
	P   []float64 // absolute parameters; A: rx ry rot large sweep x y
}

type parser struct {
	s string
	i int
}

func (p *parser) skipWS() {
	for p.i < len(p.s) && (p.s[p.i] == ' ' || p.s[p.i] == '\t' || p.s[p.i] == '\n' || p.s[p.i] == '\r' || p.s[p.i] == '\f') {
		p.i++
	}
}

func (p *parser) skipSep() {
	p.skipWS()
	if p.i < len(p.s) && p.s[p.i] == ',' {
		p.i++
		p.skipWS()
	}
}

func (p *parser) number() (float64, bool) {
	start := p.i
	i := p.i
	if i < len(p.s) && (p.s[i] == '+' || p.s[i] == '-') {
		i++
	}
	digits := 0
	for i < len(p.s) && p.s[i] >= '0' && p.s[i] <= '9' {
		i++
		digits++
	}
	if i < len(p.s) && p.s[i] == '.' {
		i++
		for i < len(p.s) && p.s[i] >= '0' && p.s[i] <= '9' {
			i++
			digits++
		}
	}
	if digits == 0 {
		return 0, false
	}
	if i < len(p.s) && (p.s[i] == 'e' || p.s[i] == 'E') {
		j := i + 1
		if j < len(p.s) && (p.s[j] == '+' || p.s[j] == '-') {
			j++
		}
		k := j
		for k < len(p.s) && p.s[k] >= '0' && p.s[k] <= '9' {
			k++
		}
		if k > j {
			i = k
		}
	}
	f, err := strconv.ParseFloat(p.s[start:i], 64)
	if err != nil && !math.IsInf(f, 0) {
		return 0, false
	}
	p.i = i
	return f, true
}

func (p *parser) flag() (float64, bool) {
	if p.i < len(p.s) && (p.s[p.i] == '0' || p.s[p.i] == '1') {
		f := float64(p.s[p.i] - '0')
		p.i++
		return f, true
	}
	return 0, false
}

var argc = map[byte]int{'M': 2, 'L': 2, 'H': 1, 'V': 1, 'C': 6, 'S': 4, 'Q': 4, 'T': 2, 'A': 7, 'Z': 0}

// Parse returns the canonical absolute segments, or an error if s is not valid path data.
func Parse(s string) ([]Seg, error) {
	p := &parser{s: s}
	var out []Seg
	var x, y, sx, sy float64 // current point, subpath start
	var lastCmd byte         // canonical previous command for reflection: 'C','Q' or other
	var cx, cy float64       // last control point
	p.skipWS()
	if p.i >= len(p.s) {
		return nil, nil // empty path data is valid (renders nothing)
	}
	first := true
	for p.i < len(p.s) {
		c := p.s[p.i]
		up := c &^ 0x20
		if _, ok := argc[up]; !ok || !(c >= 'A' && c <= 'Z' || c >= 'a' && c <= 'z') {
			return nil, fmt.Errorf("unexpected %q at offset %d", c, p.i)
		}
		if first && up != 'M' {
			return nil, fmt.Errorf("path data must start with a moveto")
		}
		first = false
		rel := c >= 'a' && c <= 'z'
		p.i++
		p.skipWS()
		if up == 'Z' {
			out = append(out, Seg{Cmd: 'Z'})
			x, y = sx, sy
			lastCmd = 'Z'
			continue
		}
		n := argc[up]
		sets := 0
		for {
			args := make([]float64, n)
			ok := true
			save := p.i
			for k := 0; k < n; k++ {
				var f float64
				var got bool
				if up == 'A' && (k == 3 || k == 4) {
					f, got = p.flag()
				} else {
					f, got = p.number()
				}
				if !got {
					ok = false
					break
				}
				args[k] = f
				if k < n-1 {
					p.skipSep()
				}
			}
			if !ok {
				if sets == 0 || p.i != save {
					return nil, fmt.Errorf("bad arguments for %q at offset %d", c, p.i)
				}
				break
			}
			sets++
			cmd := up
			if up == 'M' && sets > 1 {
				cmd = 'L' // implicit lineto
			}
			ox, oy := 0.0, 0.0
			if rel {
				ox, oy = x, y
			}
			switch cmd {
			case 'M':
				x, y = args[0]+ox, args[1]+oy
				sx, sy = x, y
				out = append(out, Seg{'M', []float64{x, y}})
				lastCmd = 'M'
			case 'L':
				x, y = args[0]+ox, args[1]+oy
				out = append(out, Seg{'L', []float64{x, y}})
				lastCmd = 'L'
			case 'H':
				x = args[0] + ox
				out = append(out, Seg{'L', []float64{x, y}})
				lastCmd = 'L'
			case 'V':
				y = args[0] + oy
				out = append(out, Seg{'L', []float64{x, y}})
				lastCmd = 'L'
			case 'C':
				x1, y1, x2, y2 := args[0]+ox, args[1]+oy, args[2]+ox, args[3]+oy
				x, y = args[4]+ox, args[5]+oy
				out = append(out, Seg{'C', []float64{x1, y1, x2, y2, x, y}})
				cx, cy = x2, y2
				lastCmd = 'C'
			case 'S':
				x1, y1 := x, y
				if lastCmd == 'C' {
					x1, y1 = 2*x-cx, 2*y-cy
				}
				x2, y2 := args[0]+ox, args[1]+oy
				x, y = args[2]+ox, args[3]+oy
				out = append(out, Seg{'C', []float64{x1, y1, x2, y2, x, y}})
				cx, cy = x2, y2
				lastCmd = 'C'
			case 'Q':
				x1, y1 := args[0]+ox, args[1]+oy
				x, y = args[2]+ox, args[3]+oy
				out = append(out, Seg{'Q', []float64{x1, y1, x, y}})
				cx, cy = x1, y1
				lastCmd = 'Q'
			case 'T':
				x1, y1 := x, y
				if lastCmd == 'Q' {
					x1, y1 = 2*x-cx, 2*y-cy
				}
				x, y = args[0]+ox, args[1]+oy
				out = append(out, Seg{'Q', []float64{x1, y1, x, y}})
				cx, cy = x1, y1
				lastCmd = 'Q'
			case 'A':
				x, y = args[5]+ox, args[6]+oy
				out = append(out, Seg{'A', []float64{args[0], args[1], args[2], args[3], args[4], x, y}})
				lastCmd = 'A'
			}
			p.skipSep()
			if p.i >= len(p.s) {
				break
			}
			// another argument set follows only if the next character can start a number
			nc := p.s[p.i]
			if !(nc >= '0' && nc <= '9' || nc == '.' || nc == '-' || nc == '+') {
				break
			}
		}
		p.skipWS()
	}
	return out, nil
}

func approx(a, b, tol float64) bool {
	if math.IsNaN(a) || math.IsNaN(b) {
		return math.IsNaN(a) && math.IsNaN(b)
	}
	if math.IsInf(a, 0) || math.IsInf(b, 0) {
		return a == b
	}
	return math.Abs(a-b) <= tol
}

// Simplify drops zero-length lines and maps exactly degenerate curves to lines.
func Simplify(segs []Seg, tol float64) []Seg {
	var out []Seg
	var x, y, sx, sy float64
	for _, s := range segs {
		switch s.Cmd {
		case 'M':
			x, y = s.P[0], s.P[1]
			sx, sy = x, y
			out = append(out, s)
		case 'Z':
			x, y = sx, sy
			if len(out) > 0 && out[len(out)-1].Cmd == 'Z' {
				continue // closing an already closed subpath again draws nothing new
			}
			out = append(out, s)
		case 'L':
			if math.Abs(s.P[0]-x) <= tol && math.Abs(s.P[1]-y) <= tol {
				x, y = s.P[0], s.P[1]
				continue
			}
			x, y = s.P[0], s.P[1]
			out = append(out, s)
		case 'C':
			ex, ey := s.P[4], s.P[5]
			near := func(ax, ay, bx, by float64) bool { return math.Abs(ax-bx) <= tol && math.Abs(ay-by) <= tol }
			c1 := near(s.P[0], s.P[1], x, y) || near(s.P[0], s.P[1], ex, ey)
			c2 := near(s.P[2], s.P[3], x, y) || near(s.P[2], s.P[3], ex, ey)
			if c1 && c2 {
				if !near(ex, ey, x, y) {
					out = append(out, Seg{'L', []float64{ex, ey}})
				}
			} else {
				out = append(out, s)
			}
			x, y = ex, ey
		case 'Q':
			ex, ey := s.P[2], s.P[3]
			near := func(ax, ay, bx, by float64) bool { return math.Abs(ax-bx) <= tol && math.Abs(ay-by) <= tol }
			if near(s.P[0], s.P[1], x, y) || near(s.P[0], s.P[1], ex, ey) {
				if !near(ex, ey, x, y) {
					out = append(out, Seg{'L', []float64{ex, ey}})
				}
			} else {
				out = append(out, s)
			}
			x, y = ex, ey
		case 'A':
			x, y = s.P[5], s.P[6]
			out = append(out, s)
		}
	}
	return out
}

// Equivalent compares two canonical lists with tolerance 1e-9 * max(1, extent).
func Equivalent(a, b []Seg) error {
	ext := 1.0
	for _, l := range [][]Seg{a, b} {
		for _, s := range l {
			for k, v := range s.P {
				if s.Cmd == 'A' && (k == 2 || k == 3 || k == 4) {
					continue
				}
				if av := math.Abs(v); av > ext && !math.IsInf(av, 0) {
					ext = av
				}
			}
		}
	}
	tol := 1e-9 * ext
	// lines shorter than this vanish on both sides: far below the comparison tolerance, far above float noise,
	// and off the decades on which generated coordinates lie
	drop := 3.3e-13 * ext
	a, b = Simplify(a, drop), Simplify(b, drop)
	// simplification is exact; compare again loosely: allow near-zero-length lines to differ
	if len(a) != len(b) {
		return fmt.Errorf("segment count differs: %d vs %d\n  in : %s\n  out: %s", len(a), len(b), Format(a), Format(b))
	}
	for i := range a {
		if a[i].Cmd != b[i].Cmd {
			return fmt.Errorf("segment %d: %c vs %c\n  in : %s\n  out: %s", i, a[i].Cmd, b[i].Cmd, Format(a), Format(b))
		}
		for k := range a[i].P {
			t := tol
			if a[i].Cmd == 'A' && (k == 3 || k == 4) {
				t = 0
			}
			if a[i].Cmd == 'A' && k == 2 {
				t = 1e-9 * math.Max(1, math.Abs(a[i].P[k]))
			}
			if !approx(a[i].P[k], b[i].P[k], t) {
				return fmt.Errorf("segment %d (%c) parameter %d: %v vs %v (tolerance %g)\n  in : %s\n  out: %s", i, a[i].Cmd, k, a[i].P[k], b[i].P[k], t, Format(a), Format(b))
			}
		}
	}
	return nil
}

func Format(segs []Seg) string {
	s := ""
	for i, g := range segs {
		if i > 12 {
			s += " ..."
			break
		}
		s += string(g.Cmd)
		for _, v := range g.P {
			s += " " + strconv.FormatFloat(v, 'g', 12, 64)
		}
		s += " "
	}
	return s
}
